"""Value classes, the reference judgement `exact`, and JSON / Coq codecs used by the C11 check.

Nothing here imports datashard: this is the independent side of the oracle.
"""
from __future__ import annotations

import datetime as dt
import decimal
import math
import struct
from fractions import Fraction
from typing import Any, Dict, List, Optional, Tuple

from .values import val_to_coq

TYPES = ["int", "long", "float", "double", "string", "boolean", "date", "time", "timestamp", "binary", "uuid", "fixed"]

NAN = float("nan")
INF = float("inf")
FLT_MAX = float.fromhex("0x1.fffffep+127")
F32_OVERFLOW = float.fromhex("0x1.ffffffp+127")          # 2^128 - 2^103: first double that rounds to +inf in binary32
F32_BELOW = math.nextafter(F32_OVERFLOW, 0.0)
UTC = dt.timezone.utc
PLUS2 = dt.timezone(dt.timedelta(hours=2))

# every value may be offered to every column type
POOL: List[Any] = [
    None,
    True, False,
    0, 1, -1, 5, 2**31 - 1, 2**31, -(2**31), -(2**31) - 1, 16777216, 16777217, 2**53, 2**53 + 1, 2**63 - 1, 2**63, -(2**63), -(2**63) - 1,
    0.0, -0.0, 1.0, 1.5, -2.5, 0.1, 1e-50, 16777217.0, float(2**31), float(2**53), float(2**63), 1e40, -1e40,
    FLT_MAX, F32_BELOW, F32_OVERFLOW, NAN, INF, -INF,
    "", "a", "b", "1", "1.5", "nan", "2020-01-01", "é", "\U0001F600x",
    # LONG values, several sharing long prefixes (sizes around 16 / 17 / 32 / 64 / 256: the lengths at which
    # statistics are commonly truncated), so that a file's minimum and maximum differ only far to the right
    "0123456789abcdef", "0123456789abcdefg", "0123456789abcdefh", "customer/eu-west/0007", "customer/eu-west/0008",
    "customer/eu-west/0007/suffix", "p" * 31 + "a", "p" * 31 + "b", "q" * 64 + "1", "q" * 64 + "2", "r" * 300, "r" * 299 + "s",
    "é" * 20 + "a", "é" * 20 + "b", "\U0001F600" * 17, "\U0001F600" * 16 + "\U0001F601",
    b"", b"x", b"\xff\xfe", b"k" * 40, b"k" * 40 + b"\x01", b"\xff" * 20,
    dt.date(2020, 1, 1), dt.date(1969, 12, 31), dt.date(2020, 2, 29),
    dt.datetime(2020, 1, 1), dt.datetime(2020, 1, 1, 12, 30, 1, 5), dt.datetime(1969, 12, 31, 23, 59, 59, 999999),
    dt.datetime(2020, 1, 1, tzinfo=UTC), dt.datetime(2020, 1, 1, tzinfo=PLUS2),
    dt.time(0, 0), dt.time(1, 2, 3), dt.time(23, 59, 59, 999999),
    decimal.Decimal("1.5"), decimal.Decimal("1"),
    [1], {"a": 1},
    # lists / tuples: the values of list<element> columns (and of no other column)
    [], [1, 2], (1, 2), [1, 2.0], [1.5, 2.7], [None, 1], [2**63], [True], [0.1, 1e40], [16777217], ["a", "é"], [b"x"], [1, "a"],
    [[1], [2, 3]], [[1.5]], [dt.datetime(2020, 1, 1)],
]

# list<element> column types the cell / spelling / correspondence loops run over (besides the primitive TYPES)
LIST_TYPES = ["list<long>", "list<int>", "list<double>", "list<float>", "list<string>", "list<boolean>", "list<binary>",
              "list<timestamp>", "list<list<long>>"]


def elem_type(ty: str) -> Optional[str]:
    """'list<e>' -> 'e'; None for anything else."""
    if ty.startswith("list<") and ty.endswith(">"):
        return ty[5:-1]
    return None


def is_seq(v: Any) -> bool:
    return isinstance(v, (list, tuple))


def f32(x: float) -> Optional[float]:
    """binary32 round-to-nearest-even of a double; None when a finite value overflows."""
    if x != x or x in (INF, -INF):
        return x
    try:
        y = struct.unpack("f", struct.pack("f", x))[0]
    except OverflowError:
        return None
    return None if y in (INF, -INF) else y


def is_number(v: Any) -> bool:
    return isinstance(v, (int, float, decimal.Decimal, Fraction))


def exact(ty: str, v: Any, r: Any) -> bool:
    """The reference judgement: is `r` (returned by a scan) the value `v` (supplied), up to the
    representation of the declared column type `ty`?  Written from the property text only:
    numbers must be numerically equal (binary32 rounding allowed for `float`, overflow to
    infinity is not rounding); everything else must come back identical, in the declared kind."""
    if v is None or r is None:
        return v is None and r is None
    if ty == "opaque":
        # a type definition that names no primitive type: nothing may be altered at all
        return same_cell(v, r)
    et = elem_type(ty)
    if et is not None:
        # a list column: a list (or tuple) comes back as a list of the same length, element by element
        return is_seq(v) and type(r) is list and len(v) == len(r) and all(exact(et, a, b) for a, b in zip(v, r))
    if is_seq(v) or is_seq(r):
        return False
    if ty in ("int", "long"):
        return type(r) is int and is_number(v) and v == r
    if ty == "double":
        if type(r) is not float or not is_number(v):
            return False
        if isinstance(v, float) and v != v:
            return r != r
        return v == r
    if ty == "float":
        if type(r) is not float or not is_number(v):
            return False
        if isinstance(v, float):
            if v != v:
                return r != r
            want = f32(v)
            return want is not None and want == r
        # an exact non-float number: must be exactly representable in binary32
        try:
            fv = float(v)
        except OverflowError:
            return False
        return fv == v and f32(fv) == fv and r == fv
    if ty in ("string", "uuid"):
        return type(r) is str and type(v) is str and r == v
    if ty in ("binary", "fixed"):
        return type(r) is bytes and isinstance(v, (bytes, bytearray)) and r == bytes(v)
    if ty == "boolean":
        return type(r) is bool and type(v) is bool and r == v
    if ty == "date":
        return type(r) is dt.date and type(v) is dt.date and r == v
    if ty == "time":
        return type(r) is dt.time and isinstance(v, dt.time) and v.tzinfo is None and r == v
    if ty == "timestamp":
        return isinstance(r, dt.datetime) and isinstance(v, dt.datetime) and v.tzinfo is None and r.tzinfo is None and r == v
    raise ValueError(ty)


def good_values(ty: str) -> List[Any]:
    """Values of POOL the declared type can hold (used to bias generated batches towards accepted appends)."""
    if ty == "opaque":
        ty = "string"
    et = elem_type(ty)
    if et is not None:
        g = good_values(et)
        return [[], g[:1], g[:3], [None] + g[1:2], tuple(g[:2])] + [v for v in POOL if is_seq(v) and v and all(exact(et, x, x) or x is None for x in v) and _all_good(et, v)][:4]
    out = []
    for v in POOL:
        if v is None:
            continue
        if ty in ("int", "long"):
            lo, hi = (-(2**31), 2**31 - 1) if ty == "int" else (-(2**63), 2**63 - 1)
            if type(v) is int and lo <= v <= hi:
                out.append(v)
        elif ty == "double":
            if type(v) is float or (type(v) is int and abs(v) <= 2**53):
                out.append(v)
        elif ty == "float":
            if (type(v) is float and f32(v) is not None) or (type(v) is int and abs(v) <= 2**24):
                out.append(v)
        elif ty in ("string", "uuid"):
            if type(v) is str:
                out.append(v)
        elif ty in ("binary", "fixed"):
            if type(v) is bytes:
                out.append(v)
        elif ty == "boolean":
            if type(v) is bool:
                out.append(v)
        elif ty == "date":
            if type(v) is dt.date:
                out.append(v)
        elif ty == "time":
            if type(v) is dt.time:
                out.append(v)
        elif ty == "timestamp":
            if type(v) is dt.datetime and v.tzinfo is None:
                out.append(v)
    return out


def _all_good(et: str, seq: Any) -> bool:
    """Every element of seq is None or one of the good values of the element type."""
    if elem_type(et) is not None:
        return all(x is None or (is_seq(x) and _all_good(elem_type(et), x)) for x in seq)
    g = good_values(et)
    return all(x is None or any(type(x) is type(y) and same_cell(x, y) for y in g) for x in seq)


# ---------------------------------------------------------------------------------- JSON codec (replay files)
def enc(v: Any) -> Any:
    if v is None or isinstance(v, (bool, str)):
        return {"k": type(v).__name__, "v": v}
    if isinstance(v, int):
        return {"k": "int", "v": str(v)}
    if isinstance(v, float):
        return {"k": "float", "v": v.hex() if v == v and abs(v) != INF else repr(v)}
    if isinstance(v, (bytes, bytearray)):
        return {"k": "bytes", "v": bytes(v).hex()}
    if isinstance(v, dt.datetime):
        return {"k": "datetime", "v": v.isoformat()}
    if isinstance(v, dt.date):
        return {"k": "date", "v": v.isoformat()}
    if isinstance(v, dt.time):
        return {"k": "time", "v": v.isoformat()}
    if isinstance(v, decimal.Decimal):
        return {"k": "decimal", "v": str(v)}
    if isinstance(v, tuple):
        return {"k": "tuple", "v": [enc(i) for i in v]}
    if isinstance(v, list):
        return {"k": "list", "v": [enc(i) for i in v]}
    if isinstance(v, dict):
        return {"k": "dict", "v": [[enc(a), enc(b)] for a, b in v.items()]}
    return {"k": "repr", "v": repr(v)}


def dec(j: Any) -> Any:
    k, v = j["k"], j["v"]
    if k == "NoneType":
        return None
    if k in ("bool", "str"):
        return v
    if k == "int":
        return int(v)
    if k == "float":
        return float(v) if v in ("nan", "inf", "-inf") else float.fromhex(v)
    if k == "bytes":
        return bytes.fromhex(v)
    if k == "datetime":
        return dt.datetime.fromisoformat(v)
    if k == "date":
        return dt.date.fromisoformat(v)
    if k == "time":
        return dt.time.fromisoformat(v)
    if k == "decimal":
        return decimal.Decimal(v)
    if k == "list":
        return [dec(i) for i in v]
    if k == "tuple":
        return tuple(dec(i) for i in v)
    if k == "dict":
        return {dec(a): dec(b) for a, b in v}
    raise TypeError(k)


def enc_record(r: Dict[Any, Any]) -> Any:
    return [[enc(k), enc(v)] for k, v in r.items()]


def dec_record(j: Any) -> Dict[Any, Any]:
    return {dec(k): dec(v) for k, v in j}


# ---------------------------------------------------------------------------------- Coq rendering (Model/Schema.v pyval)
def pyval_to_coq(v: Any) -> str:
    if isinstance(v, (list, tuple)):
        return "(PList [" + "; ".join(pyval_to_coq(x) for x in v) + "])"
    if isinstance(v, (bytes, bytearray)):
        return "(PBytes [" + "; ".join(f"{b}%Z" for b in bytes(v)) + "])"
    if v is None or isinstance(v, (bool, int, float, str)):
        return f"(PV {val_to_coq(v)})"
    if isinstance(v, dt.datetime):
        if v.tzinfo is not None:
            return "POther"
        return f"(PV {val_to_coq(v)})"
    if isinstance(v, (dt.date, dt.time)):
        if isinstance(v, dt.time) and v.tzinfo is not None:
            return "POther"
        return f"(PV {val_to_coq(v)})"
    return "POther"


def same_cell(a: Any, b: Any) -> bool:
    """Identity of two Python cells (type-strict, NaN = NaN, -0.0 = 0.0 distinguished not)."""
    if isinstance(a, float) and isinstance(b, float):
        return (a != a and b != b) or a == b
    if type(a) is not type(b):
        return False
    if isinstance(a, (list, tuple)):
        return len(a) == len(b) and all(same_cell(x, y) for x, y in zip(a, b))
    return a == b
