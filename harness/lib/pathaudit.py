"""C17 implementation-only oracle: the entry-point audit.

Every public storage / read entry point of the real library is called with every string of the path
grammar while a sys.addaudithook records each path the interpreter opens, lists, removes, renames or
creates.  Judgement (independent of the library and of os.path.realpath: locations come from the
KERNEL via O_PATH + /proc/self/fd):

  touch     every recorded operation lands under the canonical table root (or in the interpreter's
            own install directories / /proc / /dev);
  sentinel  everything outside the root keeps kind / size / mtime / inode / names (stat level after each
            call, content hashes per batch);
  reject    a path whose kernel location is outside the root makes the call raise.
"""
from __future__ import annotations

import json
import os
import shutil
import time
import stat
from typing import Any, Callable, Dict, List, Optional, Sequence, Tuple

from . import bounded, pathfs
from .pathfs import Audit, kernel_target, under


class Workspace:
    """<ws>/wh/tbl (root), <ws>/wh/lnroot -> tbl, <ws>/wh/tbl2, <ws>/out; rebuilt on demand."""

    def __init__(self, ws: str, with_table: bool = False, spec_fn: Optional[Callable[[str], pathfs.Spec]] = None,
                 post_build: Optional[Callable[["Workspace"], None]] = None):
        self.post_build = post_build
        self.ws = os.path.realpath(ws) if os.path.exists(ws) else ws
        os.makedirs(self.ws, exist_ok=True)
        self.ws = os.path.realpath(self.ws)
        self.spec = (spec_fn or pathfs.standard_spec)(self.ws)
        self.arrangement = (spec_fn or pathfs.standard_spec).__name__
        self.root = os.path.join(self.ws, "wh", pathfs.ROOT_NAME)
        self.lnroot = os.path.join(self.ws, "wh", "lnroot")
        self.with_table = with_table
        self.table_snapshot: Optional[List[Tuple[str, str, Any, int]]] = None
        self.rebuild_all()

    # -- construction
    def rebuild_all(self) -> None:
        pathfs.materialise(self.ws, self.spec)
        if self.with_table:
            if self.table_snapshot is None:
                self._make_table()
                self.table_snapshot = self._snapshot_root()
            else:
                self._restore_root()
        if self.post_build is not None:
            self.post_build(self)
        self.rebaseline()

    def rebaseline(self) -> None:
        """Take the tree as it is now (e.g. after a history's arrangement change) as the reference state."""
        self.pristine_inside = self._inside_stat()
        self.pristine_outside = self.outside_stat()

    def rebuild_root(self) -> None:
        if self.with_table and self.table_snapshot is not None:
            self._restore_root()
        else:
            pathfs.materialise(self.ws, self.spec, only_under="wh/" + pathfs.ROOT_NAME)
        self.pristine_inside = self._inside_stat()
        # rebuilding the root touches the parent directory's mtime: re-baseline the outside
        self.pristine_outside = self.outside_stat()

    def _make_table(self) -> None:
        from datashard import create_table
        from datashard.data_structures import Schema
        schema = Schema(schema_id=1, fields=[{"id": 1, "name": "k", "type": "long", "required": False}])
        def build() -> None:
            t = create_table(self.root, schema)
            t.append_records([{"k": 1}, {"k": 2}])
        status, val = bounded.get_guard().run("fixture: create_table + append_records", {"root": self.root}, build, soft_s=60)
        if status == "runaway":
            raise RuntimeError(f"building the fixture table did not finish: {val}")
        if status == "raised":
            raise val

    def _snapshot_root(self) -> List[Tuple[str, str, Any, int]]:
        snap = []
        for r, dirs, files in os.walk(self.root):
            for n in sorted(dirs + files):
                p = os.path.join(r, n)
                rel = os.path.relpath(p, self.root)
                st = os.lstat(p)
                if stat.S_ISLNK(st.st_mode):
                    snap.append((rel, "link", os.readlink(p), 0))
                elif stat.S_ISDIR(st.st_mode):
                    snap.append((rel, "dir", None, 0))
                else:
                    with open(p, "rb") as f:
                        snap.append((rel, "file", f.read(), st.st_mtime_ns))
        snap.sort(key=lambda e: (e[0].count("/"), e[0]))
        return snap

    def _restore_root(self) -> None:
        if os.path.lexists(self.root):
            if os.path.isdir(self.root) and not os.path.islink(self.root):
                shutil.rmtree(self.root)
            else:
                os.remove(self.root)
        os.makedirs(self.root)
        assert self.table_snapshot is not None
        for rel, kind, payload, mtime_ns in self.table_snapshot:
            p = os.path.join(self.root, rel)
            if kind == "dir":
                os.makedirs(p, exist_ok=True)
            elif kind == "file":
                with open(p, "wb") as f:
                    f.write(payload)
                # old enough for a grace-0 collection to consider it
                os.utime(p, ns=(mtime_ns - 10_000_000_000, mtime_ns - 10_000_000_000))
            else:
                os.symlink(payload, p)

    # -- observation
    def _inside_stat(self) -> Tuple[Any, ...]:
        out = []
        for r, dirs, files in os.walk(self.root):
            for n in sorted(dirs + files):
                p = os.path.join(r, n)
                st = os.lstat(p)
                out.append((p, st.st_mode, st.st_size, st.st_mtime_ns))
        return tuple(sorted(out))

    def inside_dirty(self) -> bool:
        return self._inside_stat() != self.pristine_inside

    def outside_stat(self) -> Dict[str, Tuple[Any, ...]]:
        fp: Dict[str, Tuple[Any, ...]] = {}

        def visit(p: str) -> None:
            st = os.lstat(p)
            if stat.S_ISLNK(st.st_mode):
                fp[p] = ("link", os.readlink(p))
            elif stat.S_ISDIR(st.st_mode):
                names = tuple(sorted(os.listdir(p)))
                fp[p] = ("dir", names, st.st_mtime_ns)
                for n in names:
                    c = os.path.join(p, n)
                    if c != self.root:
                        visit(c)
            else:
                fp[p] = ("file", st.st_size, st.st_mtime_ns, st.st_ino)

        visit(self.ws)
        return fp


# ---------------------------------------------------------------------------------------- entry points
def _consume(f: Any) -> Any:
    with f:
        return f.read(4)


def storage_entry_points() -> Dict[str, Callable[[Any, str], Any]]:
    def create_lock(b: Any, p: str) -> Any:
        lk = b.create_lock(p, timeout=0.0)
        got = False
        try:
            got = lk.acquire()
        finally:
            if got:
                lk.release()
        return got

    return {
        "read_file": lambda b, p: b.read_file(p),
        "open_file": lambda b, p: _consume(b.open_file(p)),
        "open_seekable": lambda b, p: _consume(b.open_seekable(p)),
        "write_file": lambda b, p: b.write_file(p, b"WRITTEN"),
        "write_json": lambda b, p: b.write_json(p, {"w": 1}),
        "exists": lambda b, p: b.exists(p),
        "list_files": lambda b, p: b.list_files(p),
        "delete_file": lambda b, p: b.delete_file(p),
        "makedirs": lambda b, p: b.makedirs(p),
        "get_size": lambda b, p: b.get_size(p),
        "get_modified_time": lambda b, p: b.get_modified_time(p),
        "create_lock": create_lock,
        "read_json": lambda b, p: b.read_json(p),
    }


def dfm_entry_points() -> Dict[str, Callable[[Any, str], Any]]:
    def read_data_file(dfm: Any, p: str) -> Any:
        return dfm.read_data_file(p)

    def open_parquet_source(dfm: Any, p: str) -> Any:
        return _consume(dfm.open_parquet_source(p))

    def write_data_file(dfm: Any, p: str) -> Any:
        from datashard.data_structures import Schema
        schema = Schema(schema_id=1, fields=[{"id": 1, "name": "k", "type": "long", "required": False}])
        return dfm.write_data_file(p, [{"k": 7}], schema).file_size_in_bytes

    return {"read_data_file": read_data_file, "open_parquet_source": open_parquet_source, "write_data_file": write_data_file}


def make_dfm(base: str) -> Any:
    """A DataFileManager over a LocalStorageBackend without touching the disk (FileManager.__init__ would makedirs)."""
    from datashard.data_operations import DataFileManager
    from datashard.file_manager import FileManager
    from datashard.storage_backend import LocalStorageBackend
    storage = LocalStorageBackend(base)
    fm = FileManager.__new__(FileManager)
    fm.table_path = base
    fm.storage = storage
    fm.metadata_manager = None
    fm.data_path, fm.metadata_path, fm.manifests_path = "data", "metadata", "metadata/manifests"
    dfm = DataFileManager(fm, storage)
    fm.data_file_manager = dfm
    return dfm


# ---------------------------------------------------------------------------------------- judgement
class Judge:
    def __init__(self, wsp: Workspace):
        self.wsp = wsp
        self.root = wsp.root                      # canonical by construction (ws is realpath'd)
        # never ignore a directory that contains the workspace itself
        self.ignored = [ig for ig in pathfs.ignored_prefixes() if not under(ig, wsp.ws)]

    def touches_outside(self, events: Sequence[Tuple[str, str, Optional[str], str]]) -> List[Dict[str, Any]]:
        bad = []
        for ev, p, tgt, _cwd in events:
            if tgt is None:
                continue                          # the kernel cannot resolve it: nothing was reached
            if under(self.root, tgt):
                continue
            if any(under(ig, tgt) for ig in self.ignored):
                continue
            bad.append({"event": ev, "path": p, "kernel_location": tgt})
        return bad

    def escapes(self, p: str, absolute_capable: bool) -> bool:
        """Kernel view, no library code: does the string address something outside the root?"""
        cands = [kernel_target(self.root + "/" + p.lstrip("/"))]
        if absolute_capable and p.startswith("/"):
            cands.append(kernel_target(p))
        outside = [c for c in cands if c is not None and not under(self.root, c)]
        inside = [c for c in cands if c is not None and under(self.root, c)]
        return bool(outside) and not inside


def classify_exc(exc: Optional[BaseException]) -> str:
    if exc is None:
        return "ok"
    msg = str(exc)
    if isinstance(exc, ValueError) and "Security Error" in msg:
        return "security"
    cause = exc.__cause__ or exc.__context__
    depth = 0
    while cause is not None and depth < 6:
        if isinstance(cause, ValueError) and "Security Error" in str(cause):
            return "security-wrapped"
        cause = cause.__cause__ or cause.__context__
        depth += 1
    if "Security Error" in msg:
        return "security-wrapped"
    return type(exc).__name__


def run_case(wsp: Workspace, judge: Judge, audit: Audit, entry: str, fn: Callable[[], Any], p: str, base_kind: str,
             absolute_capable: bool, call: Optional[Callable[[str], Callable[[], Any]]] = None,
             ignore_rules: Sequence[str] = ()) -> Tuple[str, List[Dict[str, Any]]]:
    """One call under audit. Returns (outcome class, list of problems). With `call` (string -> thunk) a failing
    string is shrunk component-wise (delta debugging) before it is reported."""
    outcome, problems = _run_case(wsp, judge, audit, entry, fn, p, base_kind, absolute_capable)
    problems = [pr for pr in problems if pr["rule"] not in ignore_rules]
    if problems and call is not None:
        rules = {pr["rule"] for pr in problems}
        if rules != {"runaway"}:
            rules.discard("runaway")       # each runaway candidate costs a full time limit: shrink on the cheap symptoms
        best, best_problems = p, problems
        improved = True
        t_end = time.monotonic() + 12.0
        while improved and time.monotonic() < t_end:
            improved = False
            comps = best.split("/")
            for i in range(len(comps)):
                cand = "/".join(comps[:i] + comps[i + 1:])
                if cand == best or (not cand and len(comps) == 1):
                    continue
                if time.monotonic() > t_end:
                    break
                _o, prs = _run_case(wsp, judge, audit, entry, call(cand), cand, base_kind, absolute_capable)
                prs = [pr for pr in prs if pr["rule"] in rules]
                if prs:
                    best, best_problems, improved = cand, prs, True
                    break
        for pr in best_problems:
            pr["shrunk_from"] = p
        problems = best_problems
    for pr in problems:
        pr["workspace"] = wsp.ws
    return outcome, problems


def _run_case(wsp: Workspace, judge: Judge, audit: Audit, entry: str, fn: Callable[[], Any], p: str, base_kind: str,
              absolute_capable: bool, restore: bool = True) -> Tuple[str, List[Dict[str, Any]]]:
    esc = judge.escapes(p, absolute_capable)
    case = {"entry": entry, "path": p, "base": base_kind, "workspace": wsp.ws, "arrangement": wsp.arrangement}
    status, val = bounded.get_guard().run(f"{entry}({p!r})", case, lambda: audit.record(fn))
    problems: List[Dict[str, Any]] = []
    if status == "runaway":
        # the library did not come back within its time / memory limit: that IS the outcome
        audit.on = False
        res, exc, events = None, None, list(audit.events)
        audit.last = (None, None, events)
        outcome = "runaway"
        problems.append({"rule": "runaway", "entry": entry, "path": p, "base": base_kind, "outcome": outcome, "why": val,
                         "os_calls_before_the_limit": len(events)})
    else:
        res, exc, events = val
        outcome = classify_exc(exc)
    bad = judge.touches_outside(events)
    if bad:
        problems.append({"rule": "touch", "entry": entry, "path": p, "base": base_kind, "outcome": outcome, "touched": bad[:4]})
    if "list_files" in entry and isinstance(res, list):
        # what a listing RETURNS: every name, joined to the root, must be an entry under the root
        foreign = []
        for r in res:
            loc = kernel_target(os.path.join(wsp.root, r), follow=False) if isinstance(r, str) else None
            if loc is None or not under(wsp.root, loc):
                foreign.append({"returned": r, "kernel_location": loc})
        if foreign:
            problems.append({"rule": "listed", "entry": entry, "path": p, "base": base_kind, "outcome": outcome, "foreign": foreign[:4]})
    after = wsp.outside_stat()
    if after != wsp.pristine_outside or status == "runaway":
        if after != wsp.pristine_outside:
            problems.append({"rule": "sentinel", "entry": entry, "path": p, "base": base_kind, "outcome": outcome,
                             "changed": pathfs.fingerprint_diff(wsp.pristine_outside, after)[:4]})
        if restore:
            wsp.rebuild_all()
        else:
            wsp.pristine_outside = after       # inside a history: later steps are judged against the state they start from
    elif restore and wsp.inside_dirty():
        wsp.rebuild_root()
    if esc and exc is None and status != "runaway":
        problems.append({"rule": "reject", "entry": entry, "path": p, "base": base_kind, "outcome": outcome,
                         "result": repr(res)[:120]})
    for pr in problems:
        pr["arrangement"] = wsp.arrangement
    return outcome, problems


# ---------------------------------------------------------------------------------------- tampering
def find_current(root: str) -> Tuple[str, Dict[str, Any]]:
    """(metadata file path, parsed JSON) of the table's current metadata, read without the library."""
    md = os.path.join(root, "metadata")
    hint = os.path.join(md, "version-hint.text")
    cands = sorted(f for f in os.listdir(md) if f.endswith(".metadata.json"))
    name = None
    if os.path.exists(hint):
        txt = open(hint).read().strip()
        for f in cands:
            if f == txt or f.startswith(f"v{txt}.") or f.startswith(f"v{txt}-"):
                name = f
    if name is None:
        name = cands[-1]
    path = os.path.join(md, name)
    with open(path) as f:
        return path, json.load(f)


def _avro_rewrite(path: str, edit: Callable[[Dict[str, Any]], None]) -> None:
    import fastavro
    with open(path, "rb") as f:
        rd = fastavro.reader(f)
        schema = rd.writer_schema
        recs = list(rd)
    for r in recs:
        edit(r)
    with open(path, "wb") as f:
        fastavro.writer(f, schema, recs)


def tamper(root: str, what: str, p: str) -> None:
    """Rewrite on-disk table state so that the string p reaches the library from `what`."""
    mpath, meta = find_current(root)
    snap = next(s for s in meta["snapshots"] if s.get("snapshot-id", s.get("snapshot_id")) == meta.get("current-snapshot-id", meta.get("current_snapshot_id")))
    ml_key = "manifest-list" if "manifest-list" in snap else "manifest_list"
    ml_rel = snap[ml_key].lstrip("/")
    ml_path = os.path.join(root, ml_rel)
    if what == "manifest_list_path":
        snap[ml_key] = p
        with open(mpath, "w") as f:
            json.dump(meta, f)
        return
    import fastavro
    with open(ml_path, "rb") as f:
        entries = list(fastavro.reader(f))
    man_rel = entries[0]["manifest_path"].lstrip("/")
    if what == "manifest_path":
        _avro_rewrite(ml_path, lambda r: r.__setitem__("manifest_path", p))
        return
    man_path = os.path.join(root, man_rel)
    if what == "manifest_entry":
        _avro_rewrite(man_path, lambda r: r["data_file"].__setitem__("file_path", p))
        return
    if what.startswith("manifest_entry@"):
        # the entry's NUMBERS as well: recorded size and row count set to a magnitude (a code path keyed on "large file")
        n = int(what.split("@", 1)[1])

        def ed_n(r: Dict[str, Any]) -> None:
            r["data_file"]["file_path"] = p
            r["data_file"]["file_size_in_bytes"] = n
            r["data_file"]["record_count"] = n
        _avro_rewrite(man_path, ed_n)
        return
    if what == "manifest_entry_nochecksum":
        def ed(r: Dict[str, Any]) -> None:
            r["data_file"]["file_path"] = p
            r["data_file"]["checksum"] = None
        _avro_rewrite(man_path, ed)
        return
    if what == "marker_payload":
        d = os.path.join(root, "metadata", "inflight")
        os.makedirs(d, exist_ok=True)
        with open(os.path.join(d, "evil.parquet.inflight"), "w") as f:
            json.dump({"file_path": p}, f)
        return
    raise ValueError(what)


# ---------------------------------------------------------------------------------------- histories
# The arrangement CHANGES between two uses of the same string through the same long-lived handle.
def _shadow(wsp: Workspace) -> None:
    """Outside copies of the root's directories: what an outward link put in their place leads to (same names inside,
    so that a read through the link SUCCEEDS and really returns foreign content)."""
    for name in ("data", "metadata"):
        src = os.path.join(wsp.root, name)
        dst = os.path.join(wsp.ws, "out", "shadow_" + name)
        if os.path.isdir(src) and not os.path.lexists(dst):
            shutil.copytree(src, dst, symlinks=True)


def history_workspace(ws: str, with_table: bool) -> Workspace:
    return Workspace(ws, with_table=with_table, spec_fn=pathfs.acyclic_spec, post_build=_shadow)


def _plant_parquet(wsp: Workspace) -> None:
    """Table workspaces: the outside target of the file link data/imported.parquet becomes a VALID parquet file with the
    table's own schema (a copy of the fixture table's data file), so that a read through the link really succeeds and
    returns foreign rows instead of failing on the file format."""
    dst = os.path.join(wsp.ws, "out", "pq", "leak.parquet")
    if not wsp.with_table or not os.path.isdir(os.path.dirname(dst)):
        return
    d = os.path.join(wsp.root, "data")
    for n in sorted(os.listdir(d)):
        p = os.path.join(d, n)
        if os.path.isfile(p) and not os.path.islink(p) and os.path.getsize(p) > 12:
            with open(p, "rb") as f:
                body = f.read()
            if body[:4] == b"PAR1" and body[-4:] == b"PAR1":
                with open(dst, "wb") as f:
                    f.write(body)
                return


def session_workspace(ws: str, with_table: bool) -> Workspace:
    """The file-link arrangement (pathfs.filelink_spec): nothing changes between the steps of a session."""
    return Workspace(ws, with_table=with_table, spec_fn=pathfs.filelink_spec, post_build=_plant_parquet)


def _swap_for_link(path: str, target: str) -> None:
    if os.path.lexists(path):
        os.rename(path, path + ".moved-aside")
    os.symlink(target, path)


def mutate(wsp: Workspace, name: str) -> None:
    """Arrangement changes inside the root (the root itself and everything outside keep their content)."""
    r, out = wsp.root, os.path.join(wsp.ws, "out")
    if name == "dir->outlink:data":
        _swap_for_link(os.path.join(r, "data"), os.path.join(out, "shadow_data"))
    elif name == "dir->outlink:metadata":
        _swap_for_link(os.path.join(r, "metadata"), os.path.join(out, "shadow_metadata"))
    elif name == "subdir->outlink:data/part":
        _swap_for_link(os.path.join(r, "data", "part"), os.path.join(out, "shadow_data", "part"))
    elif name == "dir->siblinglink:data":
        _swap_for_link(os.path.join(r, "data"), "../" + pathfs.SIB_NAME + "/data")
    elif name == "files->outlinks:data":
        # every regular file directly in data/ becomes a link to its outside copy
        d = os.path.join(r, "data")
        for n in sorted(os.listdir(d)):
            p = os.path.join(d, n)
            if os.path.isfile(p) and not os.path.islink(p):
                _swap_for_link(p, os.path.join(out, "shadow_data", n))
    elif name == "outlink->dir:data/ext":
        # the reverse direction: a rejected outward link becomes a real directory (a cached REJECTION would be stale too)
        p = os.path.join(r, "data", "ext")
        os.remove(p)
        os.makedirs(p)
        with open(os.path.join(p, "secret.txt"), "wb") as f:
            f.write(b"NOW-INSIDE")
    elif name.startswith("remove:"):
        # a file inside the root disappears (e.g. the version hint: the next refresh LISTS metadata/ to recover)
        p = os.path.join(r, name[len("remove:"):])
        if os.path.lexists(p):
            os.remove(p)
    else:
        raise ValueError(name)
    wsp.rebaseline()


MUTATIONS = ["dir->outlink:data", "files->outlinks:data", "subdir->outlink:data/part", "dir->siblinglink:data", "dir->outlink:metadata",
             "outlink->dir:data/ext"]


def table_ops() -> Dict[str, Callable[[Any], Any]]:
    """Operations of one long-lived Table object."""
    def batches(t: Any) -> Any:
        return sum(b.num_rows for b in t.scan_batches(verify_checksums=False))

    def records(t: Any) -> Any:
        return sum(1 for _ in t.iter_records(verify_checksums=False))
    return {
        "scan": lambda t: len(t.scan()),
        "scan_noverify": lambda t: len(t.scan(verify_checksums=False)),
        "scan_filter_noverify": lambda t: len(t.scan(filter={"k": (">", 0)}, verify_checksums=False)),
        "scan_batches_noverify": batches,
        "iter_records_noverify": records,
        "row_count": lambda t: t.row_count(),
        "append_records": lambda t: t.append_records([{"k": 9}]),
        "garbage_collect": lambda t: t.garbage_collect(grace_period_ms=0),
        "garbage_collect_default": lambda t: t.garbage_collect(),          # default grace period: young files survive
        "refresh": lambda t: t.refresh(),
    }


def table_path_ops() -> Dict[str, Callable[[Any, str], Any]]:
    """Operations of one long-lived Table object that take a path string."""
    def append_files(t: Any, p: str) -> Any:
        from datashard.data_structures import DataFile, FileFormat
        tx = t.new_transaction()
        tx.begin()
        try:
            tx.append_files([DataFile(file_path=p, file_format=FileFormat.PARQUET, partition_values={}, record_count=1, file_size_in_bytes=1)])
            return tx.commit()
        finally:
            if tx.is_active():
                tx.rollback()
    return {"append_files": append_files}


def make_handle(kind: str, base: str) -> Any:
    if kind == "storage":
        from datashard.storage_backend import LocalStorageBackend
        return LocalStorageBackend(base)
    if kind == "dfm":
        return make_dfm(base)
    if kind == "table":
        from datashard import load_table
        return load_table(base)
    raise ValueError(kind)


def handle_call(kind: str, handle: Any, entry: str, p: str) -> Callable[[], Any]:
    if entry.startswith("storage."):
        # the handle's own storage object (a Table / DataFileManager shares ONE backend with everything it does)
        st = handle if kind == "storage" else handle.storage
        fs = storage_entry_points()[entry[len("storage."):]]
        return lambda: fs(st, p)
    if entry.startswith("dfm.") and kind == "table":
        fd = dfm_entry_points()[entry[len("dfm."):]]
        return lambda: fd(handle.file_manager.data_file_manager, p)
    if kind == "table" and entry in table_path_ops():
        fp = table_path_ops()[entry]
        return lambda: fp(handle, p)
    if kind == "storage":
        f = storage_entry_points()[entry]
        return lambda: f(handle, p)
    if kind == "dfm":
        f = dfm_entry_points()[entry]
        return lambda: f(handle, p)
    f2 = table_ops()[entry]
    return lambda: f2(handle)


def run_history(wsp: Workspace, judge: Judge, audit: Audit, kind: str, base_kind: str, steps: Sequence[Sequence[str]]) -> Tuple[List[str], List[Dict[str, Any]]]:
    """steps: ["call", entry, path] | ["mutate", name].  ONE handle for the whole history.  Every call is judged like a
    single audited call, against the arrangement current at that moment.  The workspace is rebuilt afterwards."""
    base = wsp.root if base_kind == "direct" else wsp.lnroot
    outcomes: List[str] = []
    problems: List[Dict[str, Any]] = []
    status, handle = bounded.get_guard().run(f"open {kind} handle", {"entry": f"history:{kind}", "path": "", "base": base_kind}, lambda: make_handle(kind, base), soft_s=20)
    if status != "ok":
        wsp.rebuild_all()
        return [f"handle:{status}"], ([{"rule": "runaway", "entry": f"history:{kind}:open", "path": "", "base": base_kind, "outcome": "runaway", "why": handle,
                                        "os_calls_before_the_limit": 0, "arrangement": wsp.arrangement}] if status == "runaway" else [])
    try:
        for i, st in enumerate(steps):
            if st[0] == "mutate":
                mutate(wsp, st[1])
                outcomes.append("mutated")
                continue
            _c, entry, p = st
            p = p.replace("<ws>", wsp.ws)
            o, prs = _run_case(wsp, judge, audit, f"history:{kind}:{entry}", handle_call(kind, handle, entry, p), p, base_kind,
                               absolute_capable=(kind != "storage" and not entry.startswith("storage.")), restore=False)
            if (kind == "table" and p == "-") or entry.endswith("delete_file"):
                # table operations without a string have nothing to reject; the collector / rollback treat paths best-effort
                prs = [pr for pr in prs if pr["rule"] != "reject"]
            outcomes.append(o)
            for pr in prs:
                pr["step"] = i
                problems.append(pr)
    finally:
        wsp.rebuild_all()
    for pr in problems:
        pr["history"] = {"handle": kind, "base": base_kind, "steps": [list(s) for s in steps], "outcomes": list(outcomes)}
        pr["workspace"] = wsp.ws
    return outcomes, problems
