"""What a process holds of a table handle AFTER os.fork(): an image of the parent's handle.

A worker forked from a process that had already opened the table (pre-forking server, multiprocessing's 'fork' start
method) goes on using the handle it INHERITED: every attribute of the handle and of the objects behind it has, in the
child, the value it had in the parent at the moment of the fork -- identifiers drawn in a constructor, counters, caches --
and from then on the two evolve apart.  Only the OUTSIDE WORLD is common to parent and children (the object store, and in
this harness the scheduler that owns the virtual clock).

`fork_image(handle, world)` makes that image inside ONE process, so that forked committers can be stepped by the
cooperative scheduler (harness/lib/sched.py) at request granularity like any other actor: a deep copy of the object graph
in which the objects of `world` stay shared and every thread lock is a new, free lock (the thread that held it does not
exist in the child).  `real_fork_probe` below checks the image against the real os.fork() on the one thing properties judge
across processes: the names of the objects each process writes.
"""
from __future__ import annotations

import _thread
import copy
import copyreg
import os
import pickle
import select
import threading
from typing import Any, Callable, Iterable, List, Optional

_LOCK_TYPES = (_thread.LockType, _thread.RLock)


def fork_image(handle: Any, world: Iterable[Any]) -> Any:
    memo = {id(w): w for w in world if w is not None}
    saved = {t: copyreg.dispatch_table.get(t) for t in _LOCK_TYPES}
    copyreg.pickle(_thread.LockType, lambda _l: (_thread.allocate_lock, ()))
    copyreg.pickle(_thread.RLock, lambda _l: (threading.RLock, ()))
    try:
        return copy.deepcopy(handle, memo)
    finally:
        for t, old in saved.items():
            if old is None:
                copyreg.dispatch_table.pop(t, None)
            else:
                copyreg.dispatch_table[t] = old


def real_fork_probe(nchildren: int, body: Callable[[int], Any], timeout_s: float = 60.0) -> List[Optional[Any]]:
    """Run `body(i)` in `nchildren` processes created by the real os.fork() from THIS process (which holds whatever
    handles the caller created beforehand) and return what each child reported (pickled through a pipe; None: the child
    died or did not answer in time).  The children share no memory with each other or with the parent after the fork: an
    in-memory object store is private to each of them, so they cannot disturb one another -- what they report (e.g. the
    names of the objects they wrote) is compared by the caller."""
    import warnings
    procs = []
    for i in range(nchildren):
        r, w = os.pipe()
        with warnings.catch_warnings():
            warnings.simplefilter("ignore", DeprecationWarning)
            pid = os.fork()
        if pid == 0:
            code = 0
            try:
                os.close(r)
                try:
                    out = ("ok", body(i))
                except BaseException as e:      # noqa: BLE001 - reported to the parent
                    out = ("raised", type(e).__name__ + ": " + str(e)[:300])
                data = pickle.dumps(out)
                while data:
                    n = os.write(w, data)
                    data = data[n:]
                os.close(w)
            except BaseException:               # noqa: BLE001
                code = 1
            finally:
                os._exit(code)
        os.close(w)
        procs.append((pid, r))
    out: List[Optional[Any]] = []
    for pid, r in procs:
        buf = b""
        alive = True
        while alive:
            ready, _, _ = select.select([r], [], [], timeout_s)
            if not ready:
                break
            chunk = os.read(r, 1 << 16)
            if not chunk:
                alive = False
            buf += chunk
        os.close(r)
        if alive:
            try:
                os.kill(pid, 9)
            except OSError:
                pass
        try:
            os.waitpid(pid, 0)
        except OSError:
            pass
        try:
            out.append(pickle.loads(buf) if buf and not alive else None)
        except Exception:       # noqa: BLE001
            out.append(None)
    return out
