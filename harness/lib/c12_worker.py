"""Bounded, parallel execution of DataShard operations for the C12 check.

Every operation of the library under test (table creation, appends, the 12 scan variants, the filter
front end) runs in a CHILD process -- never in the check itself -- so that a change which makes the
library loop, block or allocate without bound becomes a REPORTED outcome and never a stuck check:

  Pool     N persistent child interpreters (address space limited with RLIMIT_AS).  `Pool.map(jobs)` runs the
           jobs (function name in harness.props.c12 + picklable arguments) on the children, each with its own
           wall-clock deadline; a child that misses the deadline or dies is killed and replaced, and the job's
           result is ("timeout", seconds) / ("died", returncode) instead of ("ok", value) / ("raised", text).
  time_limit  SIGALRM deadline around the few pure-Python front-end calls the correspondences make in-process.

Run as a module (`python -m harness.lib.c12_worker`) this file is the child: length-prefixed pickles on
stdin/stdout; anything the library prints goes to stderr.  (Same protocol as harness/lib/c11_worker.py.)
"""
from __future__ import annotations

import atexit
import os
import pickle
import select
import signal
import struct
import subprocess
import sys
import time
from contextlib import contextmanager
from typing import Any, List, Optional, Tuple

MEM_LIMIT = int(os.environ.get("C12_WORKER_MEM", str(8 << 30)))      # bytes of address space per child
NWORKERS = int(os.environ.get("C12_WORKERS", "6"))


class LibraryHang(BaseException):
    """Not an Exception: neither the library's nor the harness' `except Exception` may swallow the deadline."""


@contextmanager
def time_limit(seconds: float, what: str = ""):
    def on_alarm(_sig, _frm):
        raise LibraryHang(what)

    old = signal.signal(signal.SIGALRM, on_alarm)
    signal.setitimer(signal.ITIMER_REAL, seconds)
    try:
        yield
    finally:
        signal.setitimer(signal.ITIMER_REAL, 0)
        signal.signal(signal.SIGALRM, old)


class _Child:
    def __init__(self) -> None:
        self.p: Optional[subprocess.Popen] = None
        self.buf = b""
        self.job: Optional[int] = None
        self.deadline = 0.0
        self.timeout = 0.0

    def start(self) -> None:
        self.p = subprocess.Popen([sys.executable, "-u", "-m", "harness.lib.c12_worker"],
                                  stdin=subprocess.PIPE, stdout=subprocess.PIPE, env=dict(os.environ))
        os.set_blocking(self.p.stdout.fileno(), False)
        self.buf = b""

    def alive(self) -> bool:
        return self.p is not None and self.p.poll() is None

    def kill(self) -> Optional[int]:
        rc = None
        if self.p is not None:
            try:
                self.p.kill()
                rc = self.p.wait(timeout=10)
            except Exception:                        # noqa: BLE001
                pass
        self.p = None
        self.buf = b""
        return rc

    def send(self, idx: int, fn: str, args: Tuple[Any, ...], timeout: float) -> bool:
        if not self.alive():
            self.start()
        msg = pickle.dumps((fn, args))
        data = struct.pack("<Q", len(msg)) + msg
        try:
            # requests are small compared with the pipe buffer only sometimes: write in a blocking way, the
            # child reads its whole request before it starts working, and it writes nothing before that
            self.p.stdin.write(data)
            self.p.stdin.flush()
        except (BrokenPipeError, OSError):
            return False
        self.job, self.timeout, self.deadline = idx, timeout, time.time() + timeout
        return True

    def poll_result(self) -> Optional[Tuple[str, Any]]:
        """Read what is available; a complete answer -> result, else None. Raises EOFError when the child is gone."""
        fd = self.p.stdout.fileno()
        while True:
            try:
                chunk = os.read(fd, 1 << 20)
            except BlockingIOError:
                break
            if not chunk:
                raise EOFError
            self.buf += chunk
        if len(self.buf) >= 8:
            n = struct.unpack("<Q", self.buf[:8])[0]
            if len(self.buf) >= 8 + n:
                body, self.buf = self.buf[8:8 + n], self.buf[8 + n:]
                return pickle.loads(body)
        return None


class Pool:
    def __init__(self, n: int = NWORKERS) -> None:
        self.children = [_Child() for _ in range(max(1, n))]
        self.restarts = 0
        self.timeouts = 0
        self.slowest = 0.0
        atexit.register(self.close)

    def close(self) -> None:
        for c in self.children:
            c.kill()

    MAX_TIMEOUTS = 4          # circuit breaker: after this many deadlines missed, no further job is started

    def tripped(self) -> bool:
        return self.timeouts >= self.MAX_TIMEOUTS

    def map(self, jobs: List[Tuple[str, Tuple[Any, ...], float]]) -> List[Tuple[str, Any]]:
        """jobs: (function name in harness.props.c12, args, timeout seconds) -> results in job order:
        ("ok", value) | ("raised", text) | ("timeout", seconds) | ("died", returncode) | ("skipped", None)
        ("skipped": the circuit breaker tripped -- the library hangs, the check must still end soon)"""
        results: List[Optional[Tuple[str, Any]]] = [None] * len(jobs)
        nxt = 0
        started = {}
        while True:
            if self.tripped():
                while nxt < len(jobs):
                    results[nxt] = ("skipped", None)
                    nxt += 1
            for c in self.children:
                if c.job is None and nxt < len(jobs):
                    fn, args, timeout = jobs[nxt]
                    if c.send(nxt, fn, args, timeout):
                        started[nxt] = time.time()
                    else:
                        rc = c.kill()
                        self.restarts += 1
                        results[nxt] = ("died", rc)
                    nxt += 1
            busy = [c for c in self.children if c.job is not None]
            if not busy:
                if nxt >= len(jobs):
                    break
                continue
            now = time.time()
            wait = max(0.0, min(c.deadline for c in busy) - now)
            fds = [c.p.stdout.fileno() for c in busy if c.p is not None]
            if fds:
                select.select(fds, [], [], min(wait, 1.0))
            for c in busy:
                try:
                    res = c.poll_result()
                except EOFError:
                    rc = c.kill()
                    self.restarts += 1
                    results[c.job] = ("died", rc)
                    c.job = None
                    continue
                if res is not None:
                    results[c.job] = res
                    self.slowest = max(self.slowest, time.time() - started.get(c.job, time.time()))
                    c.job = None
                elif time.time() > c.deadline:
                    c.kill()
                    self.restarts += 1
                    self.timeouts += 1
                    results[c.job] = ("timeout", c.timeout)
                    c.job = None
        return [r if r is not None else ("died", None) for r in results]

    def call(self, fn: str, args: Tuple[Any, ...], timeout: float) -> Tuple[str, Any]:
        return self.map([(fn, args, timeout)])[0]


def _child_main() -> int:
    import resource
    out = os.fdopen(os.dup(1), "wb")
    os.dup2(2, 1)                                   # the library may print: keep the protocol channel clean
    try:
        resource.setrlimit(resource.RLIMIT_AS, (MEM_LIMIT, MEM_LIMIT))
    except (ValueError, OSError):
        pass
    inp = sys.stdin.buffer
    from harness.props import c12                   # noqa: WPS433 - the functions that may be requested
    while True:
        head = inp.read(8)
        if len(head) < 8:
            return 0
        fn, args = pickle.loads(inp.read(struct.unpack("<Q", head)[0]))
        try:
            res = ("ok", getattr(c12, fn)(*args))
        except BaseException as e:                  # noqa: BLE001 - report, keep serving
            import traceback
            res = ("raised", f"{type(e).__name__}: {e}\n{traceback.format_exc()[-1500:]}")
        data = pickle.dumps(res)
        out.write(struct.pack("<Q", len(data)) + data)
        out.flush()


if __name__ == "__main__":
    sys.exit(_child_main())
