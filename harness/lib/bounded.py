"""Bounding library calls made in-process by a check: time and memory limits per operation.

A change in the library under test can make an operation loop or allocate without bound (an os.walk that
follows a symlink cycle, a retry loop that never gives up).  Such a call must become a REPORTED outcome,
never a stuck check.  Three layers:

  soft   signal.setitimer(ITIMER_REAL): after `soft_s` seconds SIGALRM's handler raises `Runaway` in the
         main thread -- provided the operation has really been WORKING that long: on a machine that is busy
         with other checks a healthy call can take several wall-clock seconds while consuming little CPU time,
         so when the process used less than half of `soft_s` of CPU time since the call began the timer is
         re-armed (up to `PATIENCE` x `soft_s` of wall time; a loop that sleeps or waits is ended then).  Runaway derives from BaseException, so the library's `except Exception` handlers
         cannot swallow it.  Interrupts Python-level loops and (via EINTR) blocking system calls.
  memory a watchdog thread samples the resident set size; when an operation has grown it by more than
         `mem_mb` the thread sends SIGALRM itself (same handler, reason "memory").
  hard   if the operation is still running `hard_s` seconds after it started (a loop in C code that never
         returns to the interpreter), the watchdog calls `on_hard(label, payload)` -- the check records the
         violation, writes its evidence -- and terminates the process with exit status 1.
  external  (Guard.start_external) a forked monitor process reads the current operation from shared memory; when
         the operation outlives `hard_s` + grace although the in-process layers should have ended it (C code
         holding the interpreter lock), or the process's resident set passes `rss_cap_mb`, the monitor itself
         reports (callback run in the monitor) and kills the check.

Usage:   guard = Guard(soft_s=3, hard_s=40, mem_mb=1500, on_hard=...); guard.start()
         out = guard.run(label, payload, fn)      # -> ("ok", value) | ("raised", exc) | ("runaway", reason)
"""
from __future__ import annotations

import json
import mmap
import os
import signal
import struct
import threading
import time
from typing import Any, Callable, Optional, Tuple


class Runaway(BaseException):
    """Raised inside a bounded operation that exceeded its time or memory limit."""


def rss_mb() -> float:
    try:
        with open("/proc/self/statm") as f:
            return int(f.read().split()[1]) * (os.sysconf("SC_PAGE_SIZE") / 1048576.0)
    except Exception:                      # noqa: BLE001
        return 0.0


class Guard:
    def __init__(self, soft_s: float = 3.0, hard_s: float = 40.0, mem_mb: float = 1500.0,
                 on_hard: Optional[Callable[[str, Any, str], None]] = None):
        self.soft_s, self.hard_s, self.mem_mb, self.on_hard = soft_s, hard_s, mem_mb, on_hard
        self._active: Optional[Tuple[str, Any, float, float]] = None     # label, payload, t0, rss0
        self._armed = False
        self._reason = "time"
        self._thread: Optional[threading.Thread] = None
        self._stop = threading.Event()
        self.runaways = 0
        self.slowest = (0.0, "")

    # ---------------------------------------------------------------- lifecycle
    def start(self) -> "Guard":
        if threading.current_thread() is threading.main_thread():
            signal.signal(signal.SIGALRM, self._on_alarm)
        if self._thread is None:
            self._thread = threading.Thread(target=self._watch, name="bounded-watchdog", daemon=True)
            self._thread.start()
        return self

    def stop(self) -> None:
        self._stop.set()
        signal.setitimer(signal.ITIMER_REAL, 0)

    # ---------------------------------------------------------------- external monitor process
    def start_external(self, report: Callable[[str, Any, str], None], grace_s: float = 15.0, rss_cap_mb: float = 12000.0) -> None:
        """Fork the monitor. `report(label, payload, why)` runs IN THE MONITOR (keep it to plain file / stdout work).
        Call before heavy native libraries start threads."""
        if getattr(self, "_shm", None) is not None:
            return
        self._shm = mmap.mmap(-1, 1 << 16)               # anonymous, shared with the forked monitor
        self._shm_write(False, 0.0, "", None)
        parent = os.getpid()
        pid = os.fork()
        if pid != 0:
            self._monitor_pid = pid
            return
        # ---- monitor process
        try:
            signal.signal(signal.SIGALRM, signal.SIG_DFL)
            while True:
                time.sleep(0.5)
                if os.getppid() != parent:
                    os._exit(0)
                active, t0, label, payload = self._shm_read()
                why = None
                if active and time.monotonic() - t0 > self.hard_s + grace_s:
                    why = f"still running after {time.monotonic() - t0:.0f}s and not interruptible from inside the process"
                else:
                    try:
                        with open(f"/proc/{parent}/statm") as f:
                            rss = int(f.read().split()[1]) * (os.sysconf("SC_PAGE_SIZE") / 1048576.0)
                    except Exception:                      # noqa: BLE001
                        os._exit(0)
                    if rss > rss_cap_mb:
                        why = f"resident set {rss:.0f} MB passed the cap of {rss_cap_mb:.0f} MB"
                if why is not None:
                    try:
                        report(label or "(between library calls)", payload, why)
                    finally:
                        try:
                            os.kill(parent, signal.SIGKILL)
                        finally:
                            os._exit(1)
        except BaseException:                              # noqa: BLE001
            os._exit(0)

    def _shm_write(self, active: bool, t0: float, label: str, payload: Any) -> None:
        shm = getattr(self, "_shm", None)
        if shm is None:
            return
        try:
            body = json.dumps({"label": label, "payload": payload}, default=repr).encode()[: (1 << 16) - 32]
        except Exception:                                  # noqa: BLE001
            body = b"{}"
        shm.seek(0)
        shm.write(struct.pack("<?dI", active, t0, len(body)) + body)

    def _shm_read(self) -> Tuple[bool, float, str, Any]:
        shm = self._shm
        shm.seek(0)
        head = shm.read(struct.calcsize("<?dI"))
        active, t0, n = struct.unpack("<?dI", head)
        try:
            d = json.loads(shm.read(n).decode() or "{}")
        except Exception:                                  # noqa: BLE001
            d = {}
        return active, t0, d.get("label", ""), d.get("payload")

    # ---------------------------------------------------------------- signal + watchdog
    PATIENCE = 8.0      # a call that is not burning CPU gets this many soft limits of wall time

    def _on_alarm(self, _sig: int, _frm: Any) -> None:
        if self._armed:
            if self._reason == "time":
                soft = getattr(self, "_soft_now", self.soft_s)
                wall = time.monotonic() - getattr(self, "_t0_now", time.monotonic())
                cpu = time.process_time() - getattr(self, "_cpu0_now", time.process_time())
                if cpu < 0.5 * soft and wall < self.PATIENCE * soft:
                    signal.setitimer(signal.ITIMER_REAL, soft)          # starved, not looping: wait on
                    return
            self._armed = False
            raise Runaway(self._reason)

    def _watch(self) -> None:
        while not self._stop.wait(0.1):
            act = self._active
            if act is None:
                continue
            label, payload, t0, rss0 = act
            el = time.monotonic() - t0
            if el > self.hard_s:
                try:
                    if self.on_hard is not None:
                        self.on_hard(label, payload, f"still running after {el:.0f}s (not interruptible)")
                finally:
                    os._exit(1)
            if self._armed and rss_mb() - rss0 > self.mem_mb:
                self._reason = "memory"
                os.kill(os.getpid(), signal.SIGALRM)

    # ---------------------------------------------------------------- the bounded call
    def run(self, label: str, payload: Any, fn: Callable[[], Any], soft_s: Optional[float] = None) -> Tuple[str, Any]:
        t0 = time.monotonic()
        self._reason = "time"
        self._active = (label, payload, t0, rss_mb())
        self._shm_write(True, t0, label, payload)
        self._soft_now = soft_s if soft_s is not None else self.soft_s
        self._t0_now, self._cpu0_now = t0, time.process_time()
        self._armed = True
        signal.setitimer(signal.ITIMER_REAL, self._soft_now)
        try:
            try:
                val = fn()
                out: Tuple[str, Any] = ("ok", val)
            finally:
                # disarm BEFORE anything else so that a late alarm cannot fire in harness code
                self._armed = False
                signal.setitimer(signal.ITIMER_REAL, 0)
        except Runaway as r:
            self.runaways += 1
            out = ("runaway", f"{r.args[0] if r.args else 'time'} limit exceeded after {time.monotonic() - t0:.1f}s")
        except Exception as e:             # noqa: BLE001 - the outcome is data
            out = ("raised", e)
        finally:
            self._armed = False
            signal.setitimer(signal.ITIMER_REAL, 0)
            self._active = None
            shm = getattr(self, "_shm", None)
            if shm is not None:
                shm.seek(0)
                shm.write(b"\x00")                         # active := False (payload left in place)
        el = time.monotonic() - t0
        if el > self.slowest[0]:
            self.slowest = (el, label)
        return out


_GUARD: Optional[Guard] = None


def get_guard() -> Guard:
    """The process-wide guard (default limits); a check may replace its limits / on_hard before use."""
    global _GUARD
    if _GUARD is None:
        _GUARD = Guard().start()
    return _GUARD
