"""OS-call tracing of the DataShard library (DESIGN.md section 3.2 `ostrace.py`), used by C16.

Two independent ways to obtain the sequence of file-system calls an operation performs:

  InProcessTracer   replaces the names `os`, `tempfile` and `pq` in the namespaces of the library's
                    modules by forwarding proxies that record open / write / fsync / close /
                    replace / rename / remove / unlink / makedirs / mkdir, tempfile.mkstemp,
                    tempfile.NamedTemporaryFile and pq.ParquetWriter (whose C++ writes are invisible
                    to Python: a synthetic write with the bytes found in the file beyond those
                    already recorded is emitted when the writer is closed AND right before every
                    fsync of the file while the writer is open -- an fsync persists what the file
                    holds at that instant, so bytes the writer adds later, e.g. the parquet footer
                    written by close(), are a separate later write).  Nothing in /repo is edited.
  strace_run        runs a command under `strace -f -y -xx` and parses the log; this also sees
                    pyarrow's own write(2) calls.

Both produce the same RAW event format (list of dicts, absolute paths):
  {"op": "open",   "path": p, "flags": ["O_CREAT", ...]}
  {"op": "write",  "path": p, "data": bytes}            (appending write)
  {"op": "pwrite", "path": p, "data": bytes, "offset": n}
  {"op": "fsync",  "path": p}                            (file or directory; see "isdir")
  {"op": "rename", "path": a, "path2": b}
  {"op": "unlink", "path": p}
  {"op": "mkdir",  "path": p}
  {"op": "mark",   "label": s}                           (operation boundary written by the driver)
  {"op": "other",  "call": name, "path": p}              (a call kind nobody expected: never dropped)

`canonicalise` projects a raw trace on the alphabet of coq/Model/Durable.v (projection rules in its
docstring).  The mutation switches exist only for the oracle's sensitivity self-test.

Fault injection (InProcessTracer(fault={"index": k[, "kind": "short_write"]})): the k-th durability call of
the run (temp creation, write, descriptor opened for an fsync, fsync, rename -- lock files excluded) raises
OSError(EIO) instead of being executed, or, for a write with kind short_write, transfers only half of the
bytes and returns that count.  Every durability call is listed in .faultlog, so a fault-free probe run
enumerates the fault points of a scenario.
"""
from __future__ import annotations

import os
import re
import subprocess
import sys
import tempfile
import threading
import time
from typing import Any, Callable, Dict, List, Optional, Tuple

_FLAG_NAMES = ["O_WRONLY", "O_RDWR", "O_CREAT", "O_EXCL", "O_TRUNC", "O_APPEND", "O_DIRECTORY", "O_TMPFILE"]


def _flag_list(flags: int) -> List[str]:
    out = []
    for n in _FLAG_NAMES:
        v = getattr(os, n, None)
        if v is None:
            continue
        if n == "O_TMPFILE":
            if flags & v == v:
                out.append(n)
        elif flags & v:
            out.append(n)
    if not (flags & (os.O_WRONLY | os.O_RDWR)):
        out.append("O_RDONLY")
    return out


# ------------------------------------------------------------------------------------------------
# in-process concurrency: several writer threads of ONE process, scheduled at the directory-fsync / rename boundaries
# ------------------------------------------------------------------------------------------------
class ThreadSched:
    """Deterministic scheduling of writer threads at the os.fsync(directory) / os.replace boundaries.

    A schedule is a list of HOLDS [thread index, k]: the k-th directory fsync of that thread is slow -- after the kernel
    call was made and before it returns to the library, the thread is parked until ANOTHER thread has renamed a file
    into the same directory (then a short grace period, so that the other thread reaches whatever it does next), or all
    other threads have finished, or `timeout` seconds have passed (the other threads are blocked behind a lock this
    thread holds: the interleaving does not exist).  With `gate`, the threads other than the first hold's thread start
    only when that hold is reached.  Nothing here judges anything: the interleaved trace is what the oracle reads."""

    def __init__(self, nthreads: int, holds: List[List[int]], timeout: float = 2.0, grace: float = 0.05, gate: bool = True):
        self.n = nthreads
        self.holds = {(int(t), int(k)) for t, k in holds}
        self.first = (int(holds[0][0]) if holds else None)
        self.timeout, self.grace, self.gate = timeout, grace, gate
        self.cv = threading.Condition()
        self.ids: Dict[int, int] = {}
        self.dirsyncs: Dict[int, int] = {}
        self.renames: List[Tuple[int, str]] = []
        self.done: set = set()
        self.first_hold = threading.Event()
        self.log: List[Dict[str, Any]] = []

    def register(self, tid: int) -> None:
        self.ids[threading.get_ident()] = tid

    def tid(self) -> Optional[int]:
        return self.ids.get(threading.get_ident())

    def wait_start(self, tid: int) -> None:
        if self.gate and self.first is not None and tid != self.first:
            deadline = time.time() + 4 * self.timeout
            while not self.first_hold.wait(0.05):
                if self.first in self.done or time.time() > deadline:
                    break

    def finished(self, tid: int) -> None:
        with self.cv:
            self.done.add(tid)
            self.cv.notify_all()

    def on_rename(self, dirpath: str) -> None:
        t = self.tid()
        if t is None:
            return
        with self.cv:
            self.renames.append((t, dirpath))
            self.cv.notify_all()

    def in_dir_fsync(self, dirpath: str) -> None:
        t = self.tid()
        if t is None:
            return
        k = self.dirsyncs.get(t, 0)
        self.dirsyncs[t] = k + 1
        if (t, k) not in self.holds:
            return
        hit, why = False, "timeout"
        deadline = time.time() + self.timeout
        with self.cv:
            start = len(self.renames)
            self.first_hold.set()
            while True:
                if any(tt != t and d == dirpath for tt, d in self.renames[start:]):
                    hit, why = True, "rename-landed"
                    break
                if len(self.done | {t}) >= self.n:
                    why = "others-finished"
                    break
                left = deadline - time.time()
                if left <= 0:
                    break
                self.cv.wait(left)
        if hit:
            time.sleep(self.grace)
        self.log.append({"thread": t, "dir_fsync": k, "dir": dirpath, "released": why})


# ------------------------------------------------------------------------------------------------
# in-process interception
# ------------------------------------------------------------------------------------------------
class InProcessTracer:
    """with InProcessTracer(root, mutate=...) as t: ... ; t.events"""

    def __init__(self, root: str, mutate: Optional[str] = None, fault: Optional[Dict[str, Any]] = None):
        self.root = os.path.realpath(root)
        self.events: List[Dict[str, Any]] = []
        self.fds: Dict[int, str] = {}
        self.writers: Dict[str, Any] = {}       # path -> open _WriterProxy (C++ writes, made visible at fsync / close)
        self.mutate = mutate
        self._saved: List[Tuple[Any, str, Any]] = []
        # fault injection: the `index`-th durability call (counted over the whole run) raises OSError(EIO)
        # instead of being executed; every durability call is logged so that a probe run enumerates them
        self.fault = fault
        self.faultlog: List[Dict[str, Any]] = []
        # several threads of the traced process: a call and its record are made atomic (the recorded order is the order in
        # which the kernel received the entry-changing calls); `sched` parks threads at the scheduling boundaries
        self.lock = threading.RLock()
        self.sched: Optional[ThreadSched] = None

    def durability_call(self, call: str, module: str, path: Any, isdir: bool = False) -> Optional[str]:
        """Called BEFORE a call that a publish sequence depends on (temp creation, write, descriptor for
        fsync, fsync, rename).  Raises the injected fault when this is the chosen call."""
        if module == "file_lock":
            return                      # lock files: property C19; a fault there only makes acquire() retry
        i = len(self.faultlog)
        try:
            rel = os.path.relpath(self._abs(path), self.root)
        except Exception:
            rel = str(path)
        self.faultlog.append({"i": i, "call": call, "module": module, "path": rel, "isdir": bool(isdir)})
        if self.fault is not None and self.fault.get("index") == i:
            import errno
            self.faultlog[-1]["injected"] = True
            if self.fault.get("kind") == "short_write" and call == "write":
                # POSIX short write: write(2) transfers fewer bytes than asked and says so in its return value
                self.faultlog[-1]["call"] = "short-write"
                self.emit(op="mark", label=f"fault:{i}:short-write:{rel}")
                return "short"
            self.emit(op="mark", label=f"fault:{i}:{call}:{rel}")
            raise OSError(errno.EIO, f"injected fault at durability call #{i} ({call} {rel})")
        return None

    # -- recording
    def _abs(self, p: Any) -> str:
        return os.path.abspath(os.fspath(p))

    def emit(self, **ev: Any) -> None:
        if self.sched is not None:
            t = self.sched.tid()
            if t is not None:
                ev["tid"] = t
        with self.lock:
            self.events.append(ev)

    def mark(self, label: str) -> None:
        self.emit(op="mark", label=label)

    def on_open(self, fd: int, path: str, flags: int) -> None:
        p = self._abs(path)
        self.fds[fd] = p
        self.emit(op="open", path=p, flags=_flag_list(flags))

    def on_fsync(self, fd: int, issued_at: Optional[int] = None) -> None:
        p = self.fds.get(fd)
        if p is None:
            self.emit(op="other", call="fsync-unknown-fd", path=str(fd))
        else:
            w = self.writers.get(p)
            if w is not None:
                w.flush_seen()          # what the file holds NOW is what this fsync persists
            isdir = os.path.isdir(p)
            with self.lock:
                if isdir and issued_at is not None and issued_at < len(self.events):
                    # calls of OTHER threads were recorded between the issue of this directory fsync and its return: it
                    # persists the entries the directory had when it was ISSUED (raw index issued_at), and it has
                    # returned only now
                    self.emit(op="fsync", path=p, isdir=True, issued_at=issued_at)
                else:
                    self.emit(op="fsync", path=p, isdir=isdir)

    # -- patching
    def __enter__(self) -> "InProcessTracer":
        import importlib
        import pkgutil
        import datashard
        for mi in pkgutil.iter_modules(datashard.__path__):      # lock / collector modules are imported lazily
            if mi.name != "__main__":
                try:
                    importlib.import_module("datashard." + mi.name)
                except Exception:
                    pass
        mods = [m for n, m in list(sys.modules.items()) if n.startswith("datashard.") and m is not None]
        for m in mods:
            short = m.__name__.rsplit(".", 1)[-1]
            if getattr(m, "os", None) is os:
                self._patch(m, "os", _OsProxy(self, short))
            if getattr(m, "tempfile", None) is tempfile:
                self._patch(m, "tempfile", _TempfileProxy(self, short))
            pq = getattr(m, "pq", None)
            if pq is not None and getattr(pq, "__name__", "") == "pyarrow.parquet":
                self._patch(m, "pq", _PqProxy(self, pq))
        return self

    def _patch(self, mod: Any, name: str, value: Any) -> None:
        self._saved.append((mod, name, getattr(mod, name)))
        setattr(mod, name, value)

    def __exit__(self, *exc: Any) -> None:
        for mod, name, old in reversed(self._saved):
            setattr(mod, name, old)
        self._saved = []


class _OsProxy:
    def __init__(self, tracer: InProcessTracer, module: str):
        self._t = tracer
        self._m = module

    def __getattr__(self, name: str) -> Any:
        return getattr(os, name)

    def open(self, path: Any, flags: int, mode: int = 0o777, *, dir_fd: Any = None) -> int:
        self._t.durability_call("open", self._m, path, os.path.isdir(path))
        with self._t.lock:       # descriptor numbers are reused across threads: number -> path must change atomically
            fd = os.open(path, flags, mode) if dir_fd is None else os.open(path, flags, mode, dir_fd=dir_fd)
            self._t.on_open(fd, path, flags)
        return fd

    def write(self, fd: int, data: Any) -> int:
        if self._t.durability_call("write", self._m, self._t.fds.get(fd, str(fd))) == "short" and len(data) > 1:
            data = bytes(data)[: len(data) // 2]
        n = os.write(fd, data)
        p = self._t.fds.get(fd)
        if p is None:
            self._t.emit(op="other", call="write-unknown-fd", path=str(fd))
        else:
            self._t.emit(op="write", path=p, data=bytes(data[:n]))
        return n

    def _skip_fsync(self, fd: int) -> bool:
        mu = self._t.mutate
        if not mu:
            return False
        p = self._t.fds.get(fd, "")
        isdir = os.path.isdir(p)
        if mu == "drop_data_fsync":
            return self._m == "data_operations" and not isdir
        if mu == "drop_meta_fsync":
            return self._m == "storage_backend" and not isdir
        if mu == "drop_dir_fsync":
            return isdir
        if mu == "drop_data_dir_fsync":
            return self._m == "data_operations" and isdir
        return False

    def fsync(self, fd: int) -> None:
        if self._skip_fsync(fd):
            return
        self._t.durability_call("fsync", self._m, self._t.fds.get(fd, str(fd)), os.path.isdir(self._t.fds.get(fd, "")))
        if self._t.mutate == "dir_fsync_eio" and self._m == "data_operations" and os.path.isdir(self._t.fds.get(fd, "")):
            import errno
            raise OSError(errno.EIO, "injected: directory fsync failed")     # fault variant (the library swallows it)
        isdir = os.path.isdir(self._t.fds.get(fd, ""))
        with self._t.lock:
            issued_at = len(self._t.events)
        os.fsync(fd)
        if isdir and self._t.sched is not None:
            self._t.sched.in_dir_fsync(self._t.fds.get(fd, ""))      # a slow directory fsync (scheduling boundary)
        self._t.on_fsync(fd, issued_at if isdir else None)

    def fdatasync(self, fd: int) -> None:
        if self._skip_fsync(fd):
            return
        self._t.durability_call("fsync", self._m, self._t.fds.get(fd, str(fd)), os.path.isdir(self._t.fds.get(fd, "")))
        os.fdatasync(fd)
        self._t.on_fsync(fd)

    def close(self, fd: int) -> None:
        with self._t.lock:
            self._t.fds.pop(fd, None)
            os.close(fd)

    def replace(self, a: Any, b: Any, **kw: Any) -> None:
        self._t.durability_call("rename", self._m, b)
        with self._t.lock:
            os.replace(a, b, **kw)
            self._t.emit(op="rename", path=self._t._abs(a), path2=self._t._abs(b))
        if self._t.sched is not None:
            self._t.sched.on_rename(os.path.dirname(self._t._abs(b)))

    def rename(self, a: Any, b: Any, **kw: Any) -> None:
        self._t.durability_call("rename", self._m, b)
        with self._t.lock:
            os.rename(a, b, **kw)
            self._t.emit(op="rename", path=self._t._abs(a), path2=self._t._abs(b))
        if self._t.sched is not None:
            self._t.sched.on_rename(os.path.dirname(self._t._abs(b)))

    def remove(self, p: Any, **kw: Any) -> None:
        with self._t.lock:
            os.remove(p, **kw)
            self._t.emit(op="unlink", path=self._t._abs(p))

    def unlink(self, p: Any, **kw: Any) -> None:
        with self._t.lock:
            os.unlink(p, **kw)
            self._t.emit(op="unlink", path=self._t._abs(p))

    def mkdir(self, p: Any, mode: int = 0o777, **kw: Any) -> None:
        os.mkdir(p, mode, **kw)
        self._t.emit(op="mkdir", path=self._t._abs(p))

    def makedirs(self, name: Any, mode: int = 0o777, exist_ok: bool = False) -> None:
        p = self._t._abs(name)
        missing = []
        q = p
        while q and not os.path.isdir(q):
            missing.append(q)
            nq = os.path.dirname(q)
            if nq == q:
                break
            q = nq
        os.makedirs(name, mode, exist_ok=exist_ok)
        for d in reversed(missing):
            self._t.emit(op="mkdir", path=d)

    def truncate(self, p: Any, length: int) -> None:
        os.truncate(p, length)
        self._t.emit(op="other", call="truncate", path=self._t._abs(p))

    def ftruncate(self, fd: int, length: int) -> None:
        os.ftruncate(fd, length)
        self._t.emit(op="other", call="ftruncate", path=self._t.fds.get(fd, str(fd)))

    def link(self, a: Any, b: Any, **kw: Any) -> None:
        os.link(a, b, **kw)
        self._t.emit(op="other", call="link", path=self._t._abs(b))

    def symlink(self, a: Any, b: Any, **kw: Any) -> None:
        os.symlink(a, b, **kw)
        self._t.emit(op="other", call="symlink", path=self._t._abs(b))


class _TempfileProxy:
    def __init__(self, tracer: InProcessTracer, module: str = "?"):
        self._t = tracer
        self._m = module

    def __getattr__(self, name: str) -> Any:
        return getattr(tempfile, name)

    def mkstemp(self, *a: Any, **kw: Any) -> Tuple[int, str]:
        self._t.durability_call("create", self._m, os.path.join(kw.get("dir") or ".", "<temp>" + str(kw.get("suffix") or "")))
        with self._t.lock:
            fd, path = tempfile.mkstemp(*a, **kw)
            self._t.on_open(fd, path, os.O_RDWR | os.O_CREAT | os.O_EXCL)
        return fd, path

    def NamedTemporaryFile(self, *a: Any, **kw: Any) -> Any:
        self._t.durability_call("create", self._m, os.path.join(kw.get("dir") or ".", "<temp>" + str(kw.get("suffix") or "")))
        with self._t.lock:
            f = tempfile.NamedTemporaryFile(*a, **kw)
            if kw.get("delete", True):
                self._t.emit(op="other", call="NamedTemporaryFile(delete=True)", path=self._t._abs(f.name))
            self._t.on_open(f.fileno(), f.name, os.O_RDWR | os.O_CREAT | os.O_EXCL)
        return f


class _PqProxy:
    def __init__(self, tracer: InProcessTracer, pq: Any):
        self._t = tracer
        self._pq = pq

    def __getattr__(self, name: str) -> Any:
        return getattr(self._pq, name)

    def ParquetWriter(self, where: Any, schema: Any, **kw: Any) -> Any:
        return _WriterProxy(self._t, self._pq, where, schema, kw)


class _WriterProxy:
    def __init__(self, tracer: InProcessTracer, pq: Any, where: Any, schema: Any, kw: Dict[str, Any]):
        self._t = tracer
        self._path = tracer._abs(where) if isinstance(where, (str, bytes, os.PathLike)) and not kw.get("filesystem") else None
        self._w = pq.ParquetWriter(where, schema, **kw)
        self._closed = False
        self._seen = 0
        if self._path is not None:
            # arrow opens the path O_WRONLY|O_CREAT|O_TRUNC
            tracer.emit(op="open", path=self._path, flags=["O_WRONLY", "O_CREAT", "O_TRUNC"])
            tracer.writers[self._path] = self
        else:
            tracer.emit(op="other", call="ParquetWriter(non-local)", path=str(where))

    def __getattr__(self, name: str) -> Any:
        return getattr(self._w, name)

    def flush_seen(self, final: bool = False) -> None:
        """Record the bytes arrow has written to the file since the last record (append-only)."""
        try:
            with open(self._path, "rb") as f:
                f.seek(self._seen)
                data = f.read()
        except OSError:
            return
        if data or (final and self._seen == 0):
            self._t.emit(op="write", path=self._path, data=data, synthetic=True)
            self._seen += len(data)

    def close(self) -> None:
        self._w.close()
        if not self._closed and self._path is not None:
            self._closed = True
            self.flush_seen(final=True)
            if self._t.writers.get(self._path) is self:
                del self._t.writers[self._path]

    def __enter__(self) -> "_WriterProxy":
        return self

    def __exit__(self, *exc: Any) -> None:
        self.close()


# ------------------------------------------------------------------------------------------------
# strace
# ------------------------------------------------------------------------------------------------
STRACE_CALLS = ("open,openat,creat,write,pwrite64,writev,pwritev,fsync,fdatasync,sync_file_range,rename,renameat,renameat2,"
                "unlink,unlinkat,mkdir,mkdirat,truncate,ftruncate,link,linkat,symlink,symlinkat,fallocate")

MARK_DIR = "/dev/null/@@c16-mark:"     # os.mkdir(MARK_DIR + label) fails (ENOTDIR) but shows up in the log


def strace_run(argv: List[str], log_path: str, env: Optional[Dict[str, str]] = None, timeout: int = 300) -> subprocess.CompletedProcess:
    cmd = ["strace", "-f", "-y", "-xx", "-s", "4194304", "-e", "trace=" + STRACE_CALLS, "-o", log_path] + argv
    return subprocess.run(cmd, capture_output=True, text=True, env=env, timeout=timeout)


_LINE = re.compile(r"^(\d+)\s+(.*)$")
_RESUMED = re.compile(r"^<\.\.\. (\w+) resumed>(.*)$")
_CALL = re.compile(r"^(\w+)\((.*)\)\s+=\s+(-?\d+|\?)(.*)$", re.S)
_FDPATH = re.compile(r"^(\d+)<(.*?)>$")


def _split_args(s: str) -> List[str]:
    out, cur, depth, in_str, i = [], [], 0, False, 0
    while i < len(s):
        ch = s[i]
        if in_str:
            cur.append(ch)
            if ch == "\\":
                i += 1
                cur.append(s[i])
            elif ch == '"':
                in_str = False
        elif ch == '"':
            in_str = True
            cur.append(ch)
        elif ch in "<([{":
            depth += 1
            cur.append(ch)
        elif ch in ">)]}":
            depth -= 1
            cur.append(ch)
        elif ch == "," and depth == 0:
            out.append("".join(cur).strip())
            cur = []
        else:
            cur.append(ch)
        i += 1
    if cur:
        out.append("".join(cur).strip())
    return out


def _unhex(lit: str) -> bytes:
    # "\x41\x42"... (with -xx every byte is \xHH)
    m = re.match(r'^"((?:\\x[0-9a-f]{2})*)"(\.\.\.)?$', lit)
    if not m:
        raise ValueError(f"unparsed strace string {lit[:60]!r}")
    if m.group(2):
        raise ValueError("strace string truncated (raise -s)")
    return bytes.fromhex(m.group(1).replace("\\x", ""))


def _fd_path(arg: str) -> Optional[str]:
    m = _FDPATH.match(arg)
    if not m:
        return None
    p = m.group(2)
    if "\\x" in p:      # with -xx the annotation is hex-escaped as well
        p = re.sub(r"\\x([0-9a-f]{2})", lambda h: chr(int(h.group(1), 16)), p).encode("latin-1").decode("utf-8", "surrogateescape")
    return p


def _at_path(dirarg: str, lit: str) -> str:
    p = _unhex(lit).decode("utf-8", "surrogateescape")
    if os.path.isabs(p):
        return os.path.normpath(p)
    base = _fd_path(dirarg.replace("AT_FDCWD", "0", 1)) if dirarg.startswith("AT_FDCWD") else _fd_path(dirarg)
    return os.path.normpath(os.path.join(base or "/", p))


def parse_strace(log_text: str, root: str) -> List[Dict[str, Any]]:
    """Raw events for paths under `root` (plus the driver's marks), successful calls only."""
    root = os.path.realpath(root)
    pending: Dict[str, str] = {}
    events: List[Dict[str, Any]] = []

    def under(p: Optional[str]) -> bool:
        return p is not None and (p == root or p.startswith(root + "/"))

    for line in log_text.splitlines():
        m = _LINE.match(line)
        if not m:
            continue
        pid, rest = m.group(1), m.group(2)
        if rest.endswith("<unfinished ...>"):
            pending[pid] = rest[: -len("<unfinished ...>")]
            continue
        r = _RESUMED.match(rest)
        if r:
            rest = pending.pop(pid, r.group(1) + "(") + r.group(2)
        c = _CALL.match(rest)
        if not c:
            continue            # signals, exits
        name, argstr, ret = c.group(1), c.group(2), c.group(3)
        args = _split_args(argstr)
        if name in ("mkdir", "mkdirat"):
            lit = args[0] if name == "mkdir" else args[1]
            p = _unhex(lit).decode("utf-8", "surrogateescape")
            if p.startswith(MARK_DIR):
                events.append({"op": "mark", "label": p[len(MARK_DIR):]})
                continue
        if ret == "?" or int(ret) < 0:
            continue
        if name in ("open", "openat", "creat"):
            if name == "openat":
                p, flags = _at_path(args[0], args[1]), args[2]
            elif name == "open":
                p, flags = os.path.normpath(_unhex(args[0]).decode("utf-8", "surrogateescape")), args[1]
            else:
                p, flags = os.path.normpath(_unhex(args[0]).decode("utf-8", "surrogateescape")), "O_WRONLY|O_CREAT|O_TRUNC"
            if under(p):
                fl = [f for f in flags.split("|") if f in _FLAG_NAMES or f == "O_RDONLY"]
                events.append({"op": "open", "path": p, "flags": fl})
        elif name in ("write", "pwrite64"):
            p = _fd_path(args[0])
            if under(p):
                data = _unhex(args[1])[: int(ret)]
                if name == "write":
                    events.append({"op": "write", "path": p, "data": data})
                else:
                    events.append({"op": "pwrite", "path": p, "data": data, "offset": int(args[3])})
        elif name in ("fsync", "fdatasync"):
            p = _fd_path(args[0])
            if under(p):
                events.append({"op": "fsync", "path": p, "isdir": os.path.isdir(p)})
        elif name in ("rename", "renameat", "renameat2"):
            if name == "rename":
                a = os.path.normpath(_unhex(args[0]).decode("utf-8", "surrogateescape"))
                b = os.path.normpath(_unhex(args[1]).decode("utf-8", "surrogateescape"))
            else:
                a, b = _at_path(args[0], args[1]), _at_path(args[2], args[3])
            if under(a) or under(b):
                events.append({"op": "rename", "path": a, "path2": b})
        elif name in ("unlink", "unlinkat"):
            p = os.path.normpath(_unhex(args[0]).decode("utf-8", "surrogateescape")) if name == "unlink" else _at_path(args[0], args[1])
            if under(p):
                events.append({"op": "unlink", "path": p})
        elif name in ("mkdir", "mkdirat"):
            p = os.path.normpath(_unhex(args[0]).decode("utf-8", "surrogateescape")) if name == "mkdir" else _at_path(args[0], args[1])
            if under(p):
                events.append({"op": "mkdir", "path": p})
        else:
            # writev, truncate, link, ... : report when it touches the table
            cand = None
            for a in args[:2]:
                cand = _fd_path(a) or cand
                if a.startswith('"'):
                    try:
                        cand = os.path.normpath(_unhex(a).decode("utf-8", "surrogateescape"))
                    except ValueError:
                        pass
            if under(cand):
                events.append({"op": "other", "call": name, "path": cand})
    return events


# ------------------------------------------------------------------------------------------------
# canonicalisation: raw trace -> alphabet of coq/Model/Durable.v
# ------------------------------------------------------------------------------------------------
POINTER = "metadata.version-hint.text"
DIRS = {"": 0, "metadata": 1, "metadata/inflight": 2, "data": 3, "metadata/manifests": 4}


class Namer:
    """Final table-relative paths -> (dir number, name number), by order of first appearance.
    The pointer is (0, 0), as Durable.PTR demands."""

    def __init__(self) -> None:
        self.dirs = dict(DIRS)
        self.names: Dict[str, Tuple[int, int]] = {POINTER: (0, 0)}
        self.n = 0

    def dir(self, rel: str) -> int:
        # in-flight markers are keyed by the whole table-relative path of the file they protect (metadata/inflight/data/x.inflight,
        # metadata/inflight/metadata/manifests/y.inflight): every directory below metadata/inflight is the model's ONE marker
        # directory.  Markers are bystanders of C16's statement (nothing the pointer reaches); that a marker's own directory entry
        # is durable is not claimed here (C06 is about markers), and directory creation is outside the alphabet as before.
        if rel.startswith("metadata/inflight/"):
            return self.dirs["metadata/inflight"]
        if rel not in self.dirs:
            self.dirs[rel] = max(self.dirs.values()) + 1
        return self.dirs[rel]

    def final(self, rel: str) -> Tuple[int, int]:
        if rel not in self.names:
            self.n += 1
            self.names[rel] = (self.dir(os.path.dirname(rel)), self.n)
        return self.names[rel]

    def fresh(self, rel_dir: str) -> Tuple[int, int]:
        self.n += 1
        return (self.dir(rel_dir), self.n)


def canonicalise(raw: List[Dict[str, Any]], root: str, namer: Namer,
                 tokens_for: Callable[[str, bytes], List[Any]]) -> Dict[str, Any]:
    """Project a raw trace on the model's alphabet.

    Projection rules (part of the model's definition):
      * anything under <root>/.locks/ is dropped (lock files: property C19);
      * `open` without O_CREAT is dropped (reads, descriptors opened only to fsync);
      * `open` with O_CREAT|O_EXCL of a non-existing path is Create; the path is a TEMP `T d n` when
        it is later renamed to the final name numbered (d, n) or never renamed; every other path
        is a final name `P d n`;
      * `open` with O_CREAT (no O_EXCL) or O_TRUNC of an existing EMPTY file is dropped (arrow
        re-opens the NamedTemporaryFile by name); of a non-existing path it is Create of a final
        name (never accepted by the discipline); of an existing non-empty file it is `other`;
      * adjacent writes to one file are merged into one Write whose content is the file's token
        list [Raw length; Ref r1; ...] when the burst is the file's whole content, [Raw length]
        otherwise; pwrite at the current end of file is a write, elsewhere `other`;
      * fsync of a directory is FsyncDir; mkdir is Mkdir (kept for `disciplined`, removed before
        the comparison with trace_of: directory creation is outside the property);
      * `other` is never dropped: it is returned in "unknown" and makes the correspondence fail.
    Returns {"calls": [...], "raw_index": [...], "unknown": [...], "dropped": {...}, "marks": {...},
    "published": [...]} where call k was completed by raw event raw_index[k], marks maps a label to the
    number of calls before it, and published lists every rename target with the bytes it received.
    """
    root = os.path.realpath(root)

    def rel(p: str) -> str:
        return os.path.relpath(p, root) if p != root else ""

    def is_lock(p: Optional[str]) -> bool:
        return p is not None and p.startswith(root) and (rel(p) == ".locks" or rel(p).startswith(".locks/"))

    dropped = {"locks": sum(1 for ev in raw if is_lock(ev.get("path"))), "open_nocreat": 0, "reopen_empty": 0}
    kept_index = [k for k, ev in enumerate(raw) if not is_lock(ev.get("path"))]
    raw_all, raw = raw, [raw[k] for k in kept_index]

    # pass 1: find each created file's final name and its content when it gets that name
    exists: Dict[str, int] = {}          # path -> inode
    size: Dict[int, bytearray] = {}
    created_excl: Dict[int, str] = {}    # inode -> path it was created under
    final_of: Dict[int, str] = {}        # inode -> rel final path it is renamed to
    content_at_rename: Dict[int, bytes] = {}
    nxt = 0
    for ev in raw:
        op = ev["op"]
        p = ev.get("path")
        if op == "open" and "O_CREAT" in ev["flags"] and p not in exists:
            exists[p] = nxt
            size[nxt] = bytearray()
            if "O_EXCL" in ev["flags"]:
                created_excl[nxt] = p
            nxt += 1
        elif op in ("write", "pwrite") and p in exists:
            size[exists[p]] += ev["data"]
        elif op == "rename" and p in exists:
            i = exists.pop(p)
            exists[ev["path2"]] = i
            if i in created_excl and i not in final_of:
                final_of[i] = rel(ev["path2"])
                content_at_rename[i] = bytes(size[i])
        elif op == "unlink":
            exists.pop(p, None)

    # pass 2: emit
    calls: List[Any] = []
    raw_index: List[int] = []
    unknown: List[Any] = []
    marks: Dict[str, int] = {}
    exists = {}
    data: Dict[int, bytearray] = {}
    cname: Dict[int, Any] = {}           # inode -> canonical path of the name it currently has
    nxt = 0
    burst: Optional[Dict[str, Any]] = None
    published: List[Dict[str, Any]] = []

    def flush() -> None:
        nonlocal burst
        if burst is None:
            return
        i = burst["inode"]
        whole = content_at_rename.get(i)
        b = bytes(burst["data"])
        if whole is not None and burst["start"] == 0 and b == whole:
            toks = tokens_for(final_of[i], whole)
        else:
            toks = [("Raw", len(b))]
        calls.append(("Write", burst["cpath"], toks))
        raw_index.append(burst["last"])
        burst = None

    def cpath_final(p: str) -> Any:
        d, n = namer.final(rel(p))
        return ("P", d, n)

    for k, ev in enumerate(raw):
        op = ev["op"]
        p = ev.get("path")
        if op == "mark":
            flush()
            marks[ev["label"]] = len(calls)
            continue
        if op in ("write", "pwrite"):
            if p not in exists:
                unknown.append({"raw": k, "what": "write to a file the trace never created", "path": rel(p)})
                continue
            i = exists[p]
            if op == "pwrite" and ev["offset"] != len(data[i]):
                unknown.append({"raw": k, "what": "pwrite not at end of file", "path": rel(p)})
                continue
            if burst is not None and burst["inode"] != i:
                flush()
            if burst is None:
                burst = {"inode": i, "cpath": cname[i], "start": len(data[i]), "data": bytearray(), "last": k}
            burst["data"] += ev["data"]
            burst["last"] = k
            data[i] += ev["data"]
            continue
        flush()
        if op == "open":
            fl = ev["flags"]
            if "O_CREAT" not in fl and "O_TRUNC" not in fl:
                dropped["open_nocreat"] += 1
            elif p in exists:
                if len(data[exists[p]]) == 0 and "O_EXCL" not in fl:
                    dropped["reopen_empty"] += 1
                else:
                    unknown.append({"raw": k, "what": "O_CREAT/O_TRUNC open of an existing non-empty file", "path": rel(p)})
            elif "O_CREAT" in fl:
                i = nxt
                nxt += 1
                exists[p] = i
                data[i] = bytearray()
                if "O_EXCL" in fl:
                    if i in final_of:
                        d, n = namer.final(final_of[i])
                    else:
                        d, n = namer.fresh(os.path.dirname(rel(p)))
                    cname[i] = ("T", d, n)
                else:
                    cname[i] = cpath_final(p)
                calls.append(("Create", cname[i]))
                raw_index.append(k)
            else:
                unknown.append({"raw": k, "what": "O_TRUNC open of a missing file", "path": rel(p)})
        elif op == "fsync":
            if ev.get("isdir"):
                calls.append(("FsyncDir", namer.dir(rel(p))))
                raw_index.append(k)
            elif p in exists:
                calls.append(("Fsync", cname[exists[p]]))
                raw_index.append(k)
            else:
                unknown.append({"raw": k, "what": "fsync of a file the trace never created", "path": rel(p)})
        elif op == "rename":
            q = ev["path2"]
            if p in exists:
                i = exists.pop(p)
                src = cname[i]
                exists[q] = i
                cname[i] = cpath_final(q)
                calls.append(("Rename", src, cname[i]))
                raw_index.append(k)
                published.append({"rel": rel(q), "bytes": bytes(data[i]), "call": len(calls) - 1, "cpath": cname[i]})
            else:
                unknown.append({"raw": k, "what": "rename of a file the trace never created", "path": rel(p)})
        elif op == "unlink":
            if p in exists:
                i = exists.pop(p)
                calls.append(("Unlink", cname[i]))
            else:
                calls.append(("Unlink", cpath_final(p)))
            raw_index.append(k)
        elif op == "mkdir":
            calls.append(("Mkdir", namer.dir(rel(p))))
            raw_index.append(k)
        else:
            unknown.append({"raw": k, "what": "call outside the alphabet: " + str(ev.get("call")), "path": rel(p) if p and p.startswith(root) else str(p)})
    flush()
    raw_index = [kept_index[k] for k in raw_index]
    for u in unknown:
        u["raw"] = kept_index[u["raw"]]
    return {"calls": calls, "raw_index": raw_index, "unknown": unknown, "dropped": dropped, "marks": marks,
            "published": published}


# ------------------------------------------------------------------------------------------------
# rendering canonical calls as Gallina terms / parsing them back
# ------------------------------------------------------------------------------------------------
def path_coq(p: Any) -> str:
    return f"({p[0]} {p[1]} {p[2]})"


def tokens_coq(toks: List[Any]) -> str:
    return "[" + "; ".join(f"Raw {t[1]}" if t[0] == "Raw" else f"Ref {path_coq(t[1])}" for t in toks) + "]"


def call_coq(c: Any) -> str:
    k = c[0]
    if k == "Write":
        return f"Write {path_coq(c[1])} {tokens_coq(c[2])}"
    if k == "Rename":
        return f"Rename {path_coq(c[1])} {path_coq(c[2])}"
    if k in ("FsyncDir", "Mkdir"):
        return f"{k} {c[1]}"
    return f"{k} {path_coq(c[1])}"


def calls_coq(calls: List[Any]) -> str:
    return "[" + "; ".join(call_coq(c) for c in calls) + "]"


def tokens_from_coq(lst: Any) -> List[Any]:
    return [("Raw", t.args[0]) if t.name == "Raw" else ("Ref", (t.args[0].name, t.args[0].args[0], t.args[0].args[1])) for t in lst]


def call_from_coq(term: Any) -> Any:
    """coqio-parsed constructor application -> the tuple form used here."""
    def path(t: Any) -> Any:
        return (t.name, t.args[0], t.args[1])

    def tok(t: Any) -> Any:
        return ("Raw", t.args[0]) if t.name == "Raw" else ("Ref", path(t.args[0]))
    k = term.name
    if k == "Write":
        return ("Write", path(term.args[0]), [tok(t) for t in term.args[1]])
    if k == "Rename":
        return ("Rename", path(term.args[0]), path(term.args[1]))
    if k in ("FsyncDir", "Mkdir"):
        return (k, term.args[0])
    return (k, path(term.args[0]))
