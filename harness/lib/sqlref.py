"""Independent plain-Python reference for C12: what rows a DataShard filter dict selects under SQL
three-valued semantics.  Deliberately does NOT import datashard (nor pyarrow): it is the judge the scan
APIs are compared with.

A filter is kept in a neutral, JSON-friendly form (so it can be rendered as the Python object the
library receives, as a Gallina term for the model, and stored in replay files):

    flt   = [(column_name, cond), ...]                      (dict items, in order)
    cond  = ("plain", arg) | ("pair", opkey, arg)           (anything but a 2-tuple | a 2-tuple)
    opkey = ("str", s) | ("other", py_scalar)               (the first tuple component)
    arg   = ("val", v) | ("list", [v...]) | ("tuple", [v...])
"""
from __future__ import annotations

import datetime as dt
import math
import struct
from typing import Any, Dict, List, Optional, Tuple

# ---- the documented filter language, written down independently of filters.py -------------------
SPELLINGS: Dict[str, str] = {
    "==": "EQ", "=": "EQ", "eq": "EQ",
    "!=": "NE", "<>": "NE", "ne": "NE",
    "<": "LT", "lt": "LT", "<=": "LE", "le": "LE",
    ">": "GT", "gt": "GT", ">=": "GE", "ge": "GE",
    "in": "IN", "not_in": "NOT_IN", "not in": "NOT_IN", "notin": "NOT_IN",
    "between": "BETWEEN",
    "is_null": "IS_NULL", "isnull": "IS_NULL",
    "is_not_null": "IS_NOT_NULL", "notnull": "IS_NOT_NULL", "isnotnull": "IS_NOT_NULL",
}

COLKIND = {"long": "int", "int": "int", "double": "float", "float": "float", "string": "str", "boolean": "bool",
           "timestamp": "ts", "date": "date", "time": "time",
           # columns without stored bounds; bytes compare lexicographically (Python bytes ordering = memcmp order)
           "binary": "bytes", "fixed": "bytes"}


def pykind(v: Any) -> Optional[str]:
    if v is None:
        return None
    if isinstance(v, bool):
        return "bool"
    if isinstance(v, int):
        return "int"
    if isinstance(v, float):
        return "float"
    if isinstance(v, str):
        return "str"
    if isinstance(v, (bytes, bytearray)):
        return "bytes"
    if isinstance(v, dt.datetime):
        return "ts"
    if isinstance(v, dt.date):
        return "date"
    if isinstance(v, dt.time):
        return "time"
    return "other"


def f32_exact(x: float) -> bool:
    if x != x or abs(x) == math.inf:
        return True
    try:
        return struct.unpack("f", struct.pack("f", x))[0] == x
    except OverflowError:
        return False


def arg_py(arg: Tuple[str, Any]) -> Any:
    tag, v = arg
    if tag == "val":
        return v
    if tag == "list":
        return list(v)
    if tag == "tuple":
        return tuple(v)
    raise ValueError(tag)


def cond_py(cond: Tuple) -> Any:
    if cond[0] == "plain":
        return arg_py(cond[1])
    _, opkey, arg = cond
    return (opkey[1], arg_py(arg))


def filter_py(flt: List[Tuple[str, Tuple]]) -> Dict[str, Any]:
    return {c: cond_py(cd) for c, cd in flt}


class Malformed(Exception):
    """The filter is outside the documented language: every API must raise."""


class Unjudged(Exception):
    """The reference has no opinion (interpretation left to pyarrow); only cross-API agreement is demanded."""


def atoms(flt: List[Tuple[str, Tuple]]) -> List[Tuple[str, str, Any]]:
    """[(column, OP, literal)] with between expanded; raises Malformed / Unjudged."""
    out: List[Tuple[str, str, Any]] = []
    for col, cond in flt:
        if cond[0] == "plain":
            arg = cond[1]
            if arg[0] != "val":
                raise Unjudged("equality with a list literal")
            if arg[1] is None:
                raise Malformed("{col: None}")
            out.append((col, "EQ", arg[1]))
            continue
        _, opkey, arg = cond
        if opkey[0] != "str":
            raise Malformed("operator is not a string")
        op = SPELLINGS.get(opkey[1].lower())
        if op is None:
            raise Malformed(f"unknown operator {opkey[1]!r}")
        if op == "BETWEEN":
            # ("between", (lo, hi)): a pair.  A str / bytes / scalar argument is not one -- unpacking "ab" into the
            # characters 'a', 'b' would be a reinterpretation of the filter
            if arg[0] == "val":
                raise Malformed("between needs (lo, hi), not a " + (type(arg[1]).__name__))
            if len(arg[1]) != 2:
                raise Malformed("between needs exactly (lo, hi)")
            out.append((col, "GE", arg[1][0]))
            out.append((col, "LE", arg[1][1]))
        elif op in ("IS_NULL", "IS_NOT_NULL"):
            # ("is_null", True) is the documented form.  With the flag False the caller asks for the OPPOSITE test (or
            # for nothing the language defines): answering with the test itself reinterprets the filter.  Other flags
            # (None, numbers, ...) are outside the documented language; only cross-API agreement is demanded there.
            if arg[0] != "val":
                raise Unjudged("is_null / is_not_null with a list flag")
            if arg[1] is False:
                raise Malformed(f"{opkey[1]} with the flag False")
            if arg[1] is not True:
                raise Unjudged("is_null / is_not_null with a flag other than True / False")
            out.append((col, op, None))
        elif op in ("IN", "NOT_IN"):
            # the value set is a list / tuple; a scalar is not a set, and a str / bytes "set" would be read as the set
            # of its characters / byte values
            if arg[0] == "val":
                raise Malformed("in / not_in need a list of values, not a " + (type(arg[1]).__name__))
            out.append((col, op, list(arg[1])))
        else:
            if arg[0] != "val":
                raise Unjudged("comparison with a list literal")
            out.append((col, op, arg[1]))
    return out


# judgement classes, weakest wins
EXACT, NUMERIC_CROSS, AGREE_ONLY = 0, 1, 2


def classify(colkind: str, op: str, lit: Any, cells: List[Any]) -> int:
    """How far the reference's answer is authoritative for one atom over a column of type `colkind`."""
    k = COLKIND[colkind]
    if op in ("IS_NULL", "IS_NOT_NULL"):
        return EXACT
    if op in ("IN", "NOT_IN"):
        cls = EXACT
        nan_cell = any(isinstance(c, float) and c != c for c in cells)
        for w in lit:
            if w is None:
                continue
            if pykind(w) != k:
                return AGREE_ONLY                 # pyarrow casts the value set (lossy)
            if isinstance(w, float):
                if w != w and nan_cell:
                    return AGREE_ONLY             # NaN membership: cross-API agreement only
                if colkind == "float" and not f32_exact(w):
                    return AGREE_ONLY
            if isinstance(w, int) and not isinstance(w, bool) and not -2**63 <= w < 2**63:
                return AGREE_ONLY
        return cls
    if lit is None:
        return EXACT                              # comparison with NULL selects nothing
    lk = pykind(lit)
    if lk == k:
        if colkind == "float" and not f32_exact(lit):
            return AGREE_ONLY
        if lk == "int" and not -2**63 <= lit < 2**63:
            return AGREE_ONLY
        if colkind == "int" and not -2**31 <= lit < 2**31:
            return NUMERIC_CROSS                  # literal wider than the column: pyarrow may widen or refuse
        return EXACT
    if {lk, k} == {"int", "float"}:
        if colkind == "float" and lk == "int":
            return AGREE_ONLY
        return NUMERIC_CROSS                      # exact comparison is the SQL meaning; pyarrow may refuse a lossy cast
    return AGREE_ONLY


def tv_cmp(op: str, cell: Any, lit: Any) -> Optional[bool]:
    """SQL three-valued comparison; None = NULL."""
    if cell is None or lit is None:
        return None
    if op == "EQ":
        return cell == lit
    if op == "NE":
        return cell != lit
    if op == "LT":
        return cell < lit
    if op == "LE":
        return cell <= lit
    if op == "GT":
        return cell > lit
    if op == "GE":
        return cell >= lit
    raise ValueError(op)


def atom_true(op: str, cell: Any, lit: Any) -> bool:
    """Is the SQL predicate TRUE on this cell (rows are selected iff TRUE)."""
    if op == "IS_NULL":
        return cell is None
    if op == "IS_NOT_NULL":
        return cell is not None
    if op in ("IN", "NOT_IN"):
        if cell is None:
            return False                          # in / not_in never match NULL
        hit = any(w is not None and cell == w for w in lit)   # NULLs in the set are ignored
        return hit if op == "IN" else not hit
    return tv_cmp(op, cell, lit) is True


def expected_rows(rows: List[Dict[str, Any]], ats: List[Tuple[str, str, Any]], columns: Optional[List[str]]) -> List[Dict[str, Any]]:
    out = []
    for r in rows:
        if all(atom_true(op, r[c], lit) for c, op, lit in ats):
            out.append(dict(r) if columns is None else {c: r[c] for c in columns})
    return out


def canon_row(r: Dict[str, Any]) -> str:
    return repr(sorted((k, repr(v)) for k, v in r.items()))


def canon_rows(rows: List[Dict[str, Any]]) -> List[str]:
    return sorted(canon_row(r) for r in rows)
