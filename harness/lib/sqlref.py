"""Independent plain-Python reference for C12: what rows a DataShard filter dict selects under SQL
three-valued semantics.  Deliberately does NOT import datashard (nor pyarrow): it is the judge the scan
APIs are compared with.

A filter is kept in a neutral, JSON-friendly form (so it can be rendered as the Python object the
library receives, as a Gallina term for the model, and stored in replay files):

    flt   = [(column_name, cond), ...]                      (dict items, in order)
    cond  = ("plain", arg) | ("pair", opkey, arg)           (anything but a 2-tuple | a 2-tuple)
    opkey = ("str", s) | ("other", py_scalar)               (the first tuple component)
    arg   = ("val", v) | ("list", [v...]) | ("tuple", [v...])
"""
from __future__ import annotations

import datetime as dt
import math
import struct
from typing import Any, Dict, List, Optional, Tuple

# ---- the documented filter language, written down independently of filters.py -------------------
SPELLINGS: Dict[str, str] = {
    "==": "EQ", "=": "EQ", "eq": "EQ",
    "!=": "NE", "<>": "NE", "ne": "NE",
    "<": "LT", "lt": "LT", "<=": "LE", "le": "LE",
    ">": "GT", "gt": "GT", ">=": "GE", "ge": "GE",
    "in": "IN", "not_in": "NOT_IN", "not in": "NOT_IN", "notin": "NOT_IN",
    "between": "BETWEEN",
    "is_null": "IS_NULL", "isnull": "IS_NULL",
    "is_not_null": "IS_NOT_NULL", "notnull": "IS_NOT_NULL", "isnotnull": "IS_NOT_NULL",
}

COLKIND = {"long": "int", "int": "int", "double": "float", "float": "float", "string": "str", "boolean": "bool",
           "timestamp": "ts", "date": "date", "time": "time",
           # columns without stored bounds; bytes compare lexicographically (Python bytes ordering = memcmp order)
           "binary": "bytes", "fixed": "bytes"}


def pykind(v: Any) -> Optional[str]:
    if v is None:
        return None
    if isinstance(v, bool):
        return "bool"
    if isinstance(v, int):
        return "int"
    if isinstance(v, float):
        return "float"
    if isinstance(v, str):
        return "str"
    if isinstance(v, (bytes, bytearray)):
        return "bytes"
    if isinstance(v, dt.datetime):
        return "ts"
    if isinstance(v, dt.date):
        return "date"
    if isinstance(v, dt.time):
        return "time"
    return "other"


def f32_exact(x: float) -> bool:
    if x != x or abs(x) == math.inf:
        return True
    try:
        return struct.unpack("f", struct.pack("f", x))[0] == x
    except OverflowError:
        return False


# ---------------------------------------------------------------------------------- value sets of every iterable kind
# An in / not_in value set need not be a list: the library iterates whatever it is given -- possibly more than once
# (expression build, then file pruning).  The argument tag of a condition therefore ranges over the ITERABLE KINDS below;
# "list" / "tuple" are the sequences the documentation shows.  A filter dict holding a one-shot iterator can be used for
# ONE call only and cannot be pickled: `filter_py` returns a picklable recipe (`ValueSet`) in its place and `realise`
# builds a fresh dict -- fresh iterators -- for every single library call.
REITERABLE_KINDS = ["set", "frozenset", "keys", "values", "range", "deque"]    # iterate any number of times
ONE_SHOT_KINDS = ["iter", "gen", "map"]                                        # the second iteration is EMPTY
MAPPING_KINDS = ["dict"]                                                       # iterating yields the KEYS: not a value set
ITERABLE_KINDS = REITERABLE_KINDS + ONE_SHOT_KINDS + MAPPING_KINDS
SEQUENCE_KINDS = ["list", "tuple"]
VALUE_SET_KINDS = SEQUENCE_KINDS + ITERABLE_KINDS


def _is_range(vals: List[Any]) -> bool:
    return all(isinstance(v, int) and not isinstance(v, bool) for v in vals) and vals == list(range(vals[0], vals[0] + len(vals))) if vals else True


def fit_value_set(kind: str, vals: List[Any]) -> Tuple[str, List[Any]]:
    """(kind, values) such that an object of this kind ITERATES exactly `values` (up to order for the hashed kinds): the
    hashed kinds drop duplicates (1 == True == 1.0 are one element), a range holds consecutive ints only."""
    vals = list(vals)
    if kind in ("set", "frozenset", "keys", "dict"):
        return kind, list(dict.fromkeys(vals))
    if kind == "range" and not _is_range(vals):
        return "iter", vals
    return kind, vals


class ValueSet:
    """Picklable recipe of an iterable argument; `make()` returns a FRESH object of the kind."""

    def __init__(self, kind: str, values: List[Any]) -> None:
        self.kind, self.values = kind, list(values)

    def make(self) -> Any:
        import collections
        k, v = self.kind, list(self.values)
        if k == "set":
            return set(v)
        if k == "frozenset":
            return frozenset(v)
        if k == "dict":
            return dict.fromkeys(v, "x")
        if k == "keys":
            return dict.fromkeys(v, "x").keys()
        if k == "values":
            return dict(enumerate(v)).values()
        if k == "range":
            return range(v[0], v[0] + len(v)) if v else range(0)
        if k == "deque":
            return collections.deque(v)
        if k == "iter":
            return iter(v)
        if k == "gen":
            return (x for x in v)
        if k == "map":
            return map(lambda x: x, v)
        raise ValueError(k)

    def __repr__(self) -> str:
        return f"<{self.kind} of {self.values!r}>"


def arg_py(arg: Tuple[str, Any]) -> Any:
    tag, v = arg
    if tag == "val":
        return v
    if tag == "list":
        return list(v)
    if tag == "tuple":
        return tuple(v)
    if tag in ITERABLE_KINDS:
        return ValueSet(tag, v)
    raise ValueError(tag)


def _real(x: Any) -> Any:
    if isinstance(x, ValueSet):
        return x.make()
    if isinstance(x, tuple):
        return tuple(_real(i) for i in x)
    return x


def realise(fpy: Optional[Dict[str, Any]]) -> Optional[Dict[str, Any]]:
    """The dict handed to ONE library call: every recipe replaced by a fresh object of its kind."""
    if fpy is None:
        return None
    return {c: _real(cd) for c, cd in fpy.items()}


def cond_py(cond: Tuple) -> Any:
    if cond[0] == "plain":
        return arg_py(cond[1])
    _, opkey, arg = cond
    return (opkey[1], arg_py(arg))


def filter_py(flt: List[Tuple[str, Tuple]]) -> Dict[str, Any]:
    return {c: cond_py(cd) for c, cd in flt}


class Malformed(Exception):
    """The filter is outside the documented language: every API must raise."""


class Unjudged(Exception):
    """The reference has no opinion (interpretation left to pyarrow); only cross-API agreement is demanded."""


def atoms(flt: List[Tuple[str, Tuple]]) -> List[Tuple[str, str, Any]]:
    """[(column, OP, literal)] with between expanded; raises Malformed / Unjudged."""
    out: List[Tuple[str, str, Any]] = []
    for col, cond in flt:
        if cond[0] == "plain":
            arg = cond[1]
            if arg[0] != "val":
                raise Unjudged("equality with a list literal")
            if arg[1] is None:
                raise Malformed("{col: None}")
            out.append((col, "EQ", arg[1]))
            continue
        _, opkey, arg = cond
        if opkey[0] != "str":
            raise Malformed("operator is not a string")
        op = SPELLINGS.get(opkey[1].lower())
        if op is None:
            raise Malformed(f"unknown operator {opkey[1]!r}")
        if op == "BETWEEN":
            # ("between", (lo, hi)): a pair.  A str / bytes / scalar argument is not one -- unpacking "ab" into the
            # characters 'a', 'b' would be a reinterpretation of the filter
            if arg[0] == "val":
                raise Malformed("between needs (lo, hi), not a " + (type(arg[1]).__name__))
            if arg[0] in ITERABLE_KINDS:
                raise Unjudged("between with an iterable that is not a (lo, hi) sequence")
            if len(arg[1]) != 2:
                raise Malformed("between needs exactly (lo, hi)")
            out.append((col, "GE", arg[1][0]))
            out.append((col, "LE", arg[1][1]))
        elif op in ("IS_NULL", "IS_NOT_NULL"):
            # ("is_null", True) is the documented form.  With the flag False the caller asks for the OPPOSITE test (or
            # for nothing the language defines): answering with the test itself reinterprets the filter.  Other flags
            # (None, numbers, ...) are outside the documented language; only cross-API agreement is demanded there.
            if arg[0] != "val":
                raise Unjudged("is_null / is_not_null with a list flag")
            if arg[1] is False:
                raise Malformed(f"{opkey[1]} with the flag False")
            if arg[1] is not True:
                raise Unjudged("is_null / is_not_null with a flag other than True / False")
            out.append((col, op, None))
        elif op in ("IN", "NOT_IN"):
            # the value set is a list / tuple; a scalar is not a set, and a str / bytes "set" would be read as the set
            # of its characters / byte values
            if arg[0] == "val":
                raise Malformed("in / not_in need a list of values, not a " + (type(arg[1]).__name__))
            # ... a MAPPING is not a set of values either (iterating it yields its keys: the filter would be reinterpreted);
            # every other iterable -- set, frozenset, dict view, range, deque, iterator, generator, map -- IS one: the
            # values it yields, whatever the number of times the library needs to look at them
            if arg[0] in MAPPING_KINDS:
                raise Malformed("in / not_in need a list of values, not a mapping")
            out.append((col, op, list(arg[1])))
        else:
            if arg[0] != "val":
                raise Unjudged("comparison with a list literal")
            out.append((col, op, arg[1]))
    return out


# judgement classes, weakest wins
EXACT, NUMERIC_CROSS, AGREE_ONLY = 0, 1, 2


def classify(colkind: str, op: str, lit: Any, cells: List[Any]) -> int:
    """How far the reference's answer is authoritative for one atom over a column of type `colkind`."""
    k = COLKIND[colkind]
    if op in ("IS_NULL", "IS_NOT_NULL"):
        return EXACT
    if op in ("IN", "NOT_IN"):
        cls = EXACT
        nan_cell = any(isinstance(c, float) and c != c for c in cells)
        for w in lit:
            if w is None:
                continue
            if pykind(w) != k:
                return AGREE_ONLY                 # pyarrow casts the value set (lossy)
            if isinstance(w, float):
                if w != w and nan_cell:
                    return AGREE_ONLY             # NaN membership: cross-API agreement only
                if colkind == "float" and not f32_exact(w):
                    return AGREE_ONLY
            if isinstance(w, int) and not isinstance(w, bool) and not -2**63 <= w < 2**63:
                return AGREE_ONLY
        return cls
    if lit is None:
        return EXACT                              # comparison with NULL selects nothing
    lk = pykind(lit)
    if lk == k:
        if colkind == "float" and not f32_exact(lit):
            return AGREE_ONLY
        if lk == "int" and not -2**63 <= lit < 2**63:
            return AGREE_ONLY
        if colkind == "int" and not -2**31 <= lit < 2**31:
            return NUMERIC_CROSS                  # literal wider than the column: pyarrow may widen or refuse
        return EXACT
    if {lk, k} == {"int", "float"}:
        if colkind == "float" and lk == "int":
            return AGREE_ONLY
        return NUMERIC_CROSS                      # exact comparison is the SQL meaning; pyarrow may refuse a lossy cast
    return AGREE_ONLY


def tv_cmp(op: str, cell: Any, lit: Any) -> Optional[bool]:
    """SQL three-valued comparison; None = NULL."""
    if cell is None or lit is None:
        return None
    if op == "EQ":
        return cell == lit
    if op == "NE":
        return cell != lit
    if op == "LT":
        return cell < lit
    if op == "LE":
        return cell <= lit
    if op == "GT":
        return cell > lit
    if op == "GE":
        return cell >= lit
    raise ValueError(op)


def atom_true(op: str, cell: Any, lit: Any) -> bool:
    """Is the SQL predicate TRUE on this cell (rows are selected iff TRUE)."""
    if op == "IS_NULL":
        return cell is None
    if op == "IS_NOT_NULL":
        return cell is not None
    if op in ("IN", "NOT_IN"):
        if cell is None:
            return False                          # in / not_in never match NULL
        hit = any(w is not None and cell == w for w in lit)   # NULLs in the set are ignored
        return hit if op == "IN" else not hit
    return tv_cmp(op, cell, lit) is True


def expected_rows(rows: List[Dict[str, Any]], ats: List[Tuple[str, str, Any]], columns: Optional[List[str]]) -> List[Dict[str, Any]]:
    out = []
    for r in rows:
        if all(atom_true(op, r[c], lit) for c, op, lit in ats):
            out.append(dict(r) if columns is None else {c: r[c] for c in columns})
    return out


def canon_row(r: Dict[str, Any]) -> str:
    return repr(sorted((k, repr(v)) for k, v in r.items()))


def canon_rows(rows: List[Dict[str, Any]]) -> List[str]:
    return sorted(canon_row(r) for r in rows)
