"""C11 -- explicit, longer-lived transactions (begin / several calls, some of them REJECTED and caught by the
caller / commit, rollback or abandon), including MULTI-FILE append_files whose refused file is not the first.

The convenience wrappers (Table.append_records, Table.append_data) roll the transaction back when a call
raises, so they can never show what a rejected call leaves behind on a transaction that lives on.  Here the
caller keeps the handle: every call either raises -- and must then contribute NOTHING to what a later commit
of that same transaction publishes -- or is accepted and is published exactly once by the commit.

Judgement (independent reader, no model):
  pre-built files          -> come with the statistics a caller may attach to a DataFile (lower_bounds / upper_bounds: none,
                              the true ones, those of other content, too narrow, under other columns' ids, one side only):
                              a CLAIM about the file -- whatever is claimed, every stored value must be found by filtered scans
  rejected call            -> table state unchanged right after the call
  commit                   -> snapshot list grows by one iff some call was accepted; the full scan returns exactly
                              the rows of all accepted calls so far (records: `exact`; pre-built files: their own
                              rows); no data file of a REJECTED append_files call is reachable; filters agree
  failed commit / rollback / abandon -> table state as before the transaction
"""
from __future__ import annotations

import copy
import os
import random
import shutil
from typing import Any, Dict, List, Optional, Tuple

from harness.lib.c11_values import dec_record, enc_record, good_values

# ---------------------------------------------------------------------------------- storage faults during a call
READ_OPS = ("read_file", "read_file_with_etag", "read_json", "exists", "list_files", "open_file", "open_seekable", "get_size", "get_modified_time")
WRITE_OPS = ("write_file", "write_file_cas", "write_json", "delete_file")


def plane_of(path: Any) -> str:
    p = str(path).lstrip("/")
    if p.startswith("metadata/inflight"):
        return "inflight"
    if p.startswith("metadata/manifests"):
        return "manifests"
    if p.startswith("metadata/collecting"):
        return "collecting"                          # announcements of collection runs (garbage_collector.COLLECTING_PATH)
    if p.startswith("metadata.version-hint") or p.startswith("metadata/version-hint") or p.endswith(".metadata.json") or p in ("metadata", "metadata/"):
        return "metadata"
    if p.startswith("data"):
        return "data"
    return "other"


class StorageFaults:
    """Fault windows on a table handle's storage backend (instrumented from outside, per instance).

    spec = {"plane": metadata|inflight|data|manifests|collecting, "ops": read|write|all, "start": "call"|"first-write",
            "count": None (until the call ends) | n}
    While armed, every matching storage operation raises OSError.  "first-write" arms the window only once the
    call has performed its first write of any kind (i.e. after its up-front validation)."""

    def __init__(self, storage: Any) -> None:
        self.spec: Optional[Dict[str, Any]] = None
        self.live = False
        self.left: Optional[int] = None
        self.hits = 0
        for name in READ_OPS + WRITE_OPS:
            orig = getattr(storage, name, None)
            if orig is None:
                continue
            setattr(storage, name, self._wrap(name, orig))

    def _wrap(self, name: str, orig: Any) -> Any:
        def call(path: Any = None, *a: Any, **k: Any) -> Any:
            spec = self.spec
            if spec is not None:
                is_write = name in WRITE_OPS
                if self.live and plane_of(path) == spec["plane"] and spec["ops"] in ("all", "write" if is_write else "read") \
                        and (self.left is None or self.left > 0):
                    if self.left is not None:
                        self.left -= 1
                    self.hits += 1
                    raise OSError(f"injected storage fault: {name}({path!r}) failed")
                if is_write and not self.live and spec.get("start") == "first-write":
                    res = orig(path, *a, **k)
                    self.live = True
                    return res
            return orig(path, *a, **k)
        return call

    def arm(self, spec: Optional[Dict[str, Any]]) -> None:
        self.spec = spec
        self.hits = 0
        if spec is not None:
            self.live = spec.get("start", "call") == "call"
            self.left = spec.get("count")

    def disarm(self) -> int:
        self.spec = None
        self.live = False
        return self.hits


def faults_of(handle: Any) -> StorageFaults:
    inj = getattr(handle, "_c11_faults", None)
    if inj is None:
        inj = StorageFaults(handle.storage)
        handle._c11_faults = inj
    return inj


FAULT_SPECS = [
    {"plane": "metadata", "ops": "read", "start": "call", "count": None},
    {"plane": "metadata", "ops": "read", "start": "call", "count": None},
    {"plane": "metadata", "ops": "read", "start": "first-write", "count": None},
    {"plane": "metadata", "ops": "read", "start": "call", "count": 1},
    {"plane": "metadata", "ops": "read", "start": "call", "count": 2},
    {"plane": "metadata", "ops": "all", "start": "call", "count": None},
    {"plane": "inflight", "ops": "write", "start": "call", "count": None},
    {"plane": "data", "ops": "read", "start": "call", "count": None},
    {"plane": "manifests", "ops": "all", "start": "call", "count": None},
]


# The GC-protection step of append_files for pre-built files (Transaction._protect_adopted_files: marker per file, refusal
# while a collection run is announced, existence re-check, removal of the markers it wrote when anything fails).
# Windows that hit exactly this step -- attached to calls OUTSIDE the main random stream (gen_tx_case draws them from a
# generator of their own), so the histories generated before the step existed stay the same:
PROTECT_SPECS = [
    {"plane": "inflight", "ops": "write", "start": "call", "count": None},       # marker writes (and their removal) fail
    {"plane": "collecting", "ops": "read", "start": "call", "count": None},      # the listing of announced runs fails
    {"plane": "data", "ops": "read", "start": "first-write", "count": None},     # the existence re-check fails
]
# ... and what a collection run may have left under metadata/collecting while the call runs (call["collecting"]):
#   announced  an announcement in force            -> CollectionInProgressError
#   garbage    an announcement that cannot be read -> counts as a run in progress
#   expired    started longer ago than its grace period: no run in progress, the call is not concerned
COLLECTING = ["announced", "garbage", "expired"]


def announce(root: str, how: Optional[str]) -> Optional[str]:
    """Put the announcement `how` of a collection run under metadata/collecting (as GarbageCollector.announce_run would
    have); returns its path (to withdraw it after the call)."""
    import json
    import time
    if not how:
        return None
    d = os.path.join(root, "metadata", "collecting")
    os.makedirs(d, exist_ok=True)
    path = os.path.join(d, "run-c11.json")
    now = time.time() * 1000
    body = {"announced": json.dumps({"started_ms": now, "grace_period_ms": 3600000}),
            "expired": json.dumps({"started_ms": now - 7200000, "grace_period_ms": 3600000}),
            "garbage": "{not json"}[how]
    with open(path, "w") as f:
        f.write(body)
    return path


def prebuilt_markers(root: str) -> set:
    """The in-flight markers under metadata/inflight that do not belong to files the library wrote itself."""
    d = os.path.join(root, "metadata", "inflight")
    out = set()
    # (markers are keyed by the whole table-relative path of the file they protect: metadata/inflight/data/<name>.inflight)
    for base, _dirs, files in os.walk(d):
        for n in files:
            if not n.startswith("auto_"):
                out.add(os.path.relpath(os.path.join(base, n), d))
    return out


# what the caller of append_files claims about a file's content (DataFile.lower_bounds / upper_bounds)
STATS = ["none", "true", "shifted", "narrow", "swapped_ids", "lower_only", "upper_only", "empty"]


def claimed_bounds(fields: List[Dict[str, Any]], rows: List[Dict[str, Any]], stats: Optional[str]) -> Tuple[Optional[Dict[Any, Any]], Optional[Dict[Any, Any]]]:
    """(lower_bounds, upper_bounds) as {field id: value} a caller attaches under the claim `stats`.  Deterministic in
    (fields, rows, stats); rows are the file's rows as stored."""
    if stats in (None, "none"):
        return None, None
    if stats == "empty":
        return {}, {}
    lo: Dict[Any, Any] = {}
    hi: Dict[Any, Any] = {}
    for f in fields:
        if f["type"] in ("binary", "fixed"):
            continue
        vals = [r.get(f["name"]) for r in rows]
        vals = [v for v in vals if v is not None and not (isinstance(v, float) and v != v)]
        if not vals:
            continue
        try:
            mn, mx = min(vals), max(vals)
            above = [g for g in good_values(f["type"]) if not (isinstance(g, float) and g != g) and g > mx]
            below = [g for g in good_values(f["type"]) if not (isinstance(g, float) and g != g) and g < mn]
        except TypeError:
            continue
        if stats == "narrow":
            lo[f["id"]] = hi[f["id"]] = vals[-1]         # the bounds of the LAST row only
        elif stats in ("true", "swapped_ids"):
            lo[f["id"]], hi[f["id"]] = mn, mx
        elif above:                                      # shifted / lower_only / upper_only: bounds of other content
            lo[f["id"]] = hi[f["id"]] = above[0]
        elif below:
            lo[f["id"]] = hi[f["id"]] = below[-1]
    if stats == "swapped_ids":
        ids = [f["id"] for f in fields]
        rot = dict(zip(ids, ids[1:] + ids[:1]))
        lo = {rot[k]: v for k, v in lo.items()}
        hi = {rot[k]: v for k, v in hi.items()}
    if stats == "lower_only":
        return lo, None
    if stats == "upper_only":
        return None, hi
    return lo, hi


# what ELSE the caller of append_files claims about a well-formed file: every other caller-controlled field of DataFile
# that a manifest stores (statistics maps -- keys go through str(k) / int(k) --, checksum, record_count, size, partition)
META = ["sizes_word_key", "nulls_space_key", "values_float_key", "sizes_none_key", "values_bool_key", "stats_true_ids", "stats_other_ids",
        "stats_str_values", "stats_empty", "checksum_other", "checksum_true", "checksum_upper", "checksum_short", "checksum_int",
        "count_high", "count_zero", "count_negative", "count_str", "size_negative", "partition_int_key", "partition_values",
        "added_snapshot"]
# the call-level claim: append_files(files, _statistics_computed_here=True) -- "these statistics need no verification"
TRUSTED_STATS = ["shifted", "narrow", "swapped_ids"]


def meta_kwargs(meta: Optional[str], fields: List[Dict[str, Any]], full: str, nrows: int) -> Dict[str, Any]:
    """DataFile keyword arguments of the claim `meta` (deterministic)."""
    import hashlib
    ids = [f["id"] for f in fields]
    true_sum = hashlib.sha256(open(full, "rb").read()).hexdigest() if os.path.exists(full) else "0" * 64
    return {
        None: {},
        "sizes_word_key": {"column_sizes": {"abc": 1}},
        "nulls_space_key": {"null_value_counts": {"x y": 3}},
        "values_float_key": {"value_counts": {1.5: 3}},
        "sizes_none_key": {"column_sizes": {None: 1, ids[0]: 2}},
        "values_bool_key": {"value_counts": {True: 1}},
        "stats_true_ids": {"column_sizes": {i: 10 for i in ids}, "value_counts": {i: nrows for i in ids}, "null_value_counts": {i: 0 for i in ids}},
        "stats_other_ids": {"column_sizes": {97: 10}, "value_counts": {str(ids[0]): 5}, "null_value_counts": {-3: 7}},
        "stats_str_values": {"column_sizes": {ids[0]: "x"}, "value_counts": {ids[0]: None}},
        "stats_empty": {"column_sizes": {}, "value_counts": {}, "null_value_counts": {}},
        "checksum_other": {"checksum": "00" * 32},
        "checksum_true": {"checksum": true_sum},
        "checksum_upper": {"checksum": true_sum.upper()},
        "checksum_short": {"checksum": "zz"},
        "checksum_int": {"checksum": 12345},
        "count_high": {"record_count": 100},
        "count_zero": {"record_count": 0},
        "count_negative": {"record_count": -4},
        "count_str": {"record_count": "7"},
        "size_negative": {"file_size_in_bytes": -5},
        "partition_int_key": {"partition_values": {1: 1}},
        "partition_values": {"partition_values": {"p": 1, "q": None}},
        "added_snapshot": {"added_snapshot_id": 12345, "sequence_number": 999},
    }[meta]


FILE_KINDS_BAD = ["missing", "avro", "orc_declared", "noncanonical", "reordered", "retyped", "nullability", "extra_col", "garbage"]
ENDS = ["commit", "commit", "commit", "commit", "rollback", "abandon", "commit_fails"]


def _pa_type(t: str):
    import pyarrow as pa
    return {"boolean": pa.bool_(), "int": pa.int32(), "long": pa.int64(), "float": pa.float32(), "double": pa.float64(),
            "date": pa.date32(), "time": pa.time64("us"), "timestamp": pa.timestamp("us"), "string": pa.string(),
            "uuid": pa.string(), "binary": pa.binary(), "fixed": pa.binary()}[t]


def table_footer(fields: List[Dict[str, Any]]):
    """The Arrow schema a data file of this table must carry (written from the property's point of view:
    columns in field order, declared types, nullable unless required) -- independent of the library."""
    import pyarrow as pa
    return pa.schema([pa.field(f["name"], _pa_type(f["type"]), not f.get("required", False)) for f in fields])


# ---------------------------------------------------------------------------------- generation
def gen_file(rng, fields: List[Dict[str, Any]], kind: str, stats: Optional[str] = None) -> Dict[str, Any]:
    if stats is None:
        stats = "none" if rng.random() < 0.5 else rng.choice(STATS)
    out = _gen_file_rows(rng, fields, kind)
    if stats != "none":
        out["stats"] = stats
    return out


def _gen_file_rows(rng, fields: List[Dict[str, Any]], kind: str) -> Dict[str, Any]:
    n = rng.choice([1, 1, 2, 3])
    rows = []
    for _ in range(n):
        r = {}
        for f in fields:
            if not f.get("required", False) and rng.random() < 0.15:
                r[f["name"]] = None
            else:
                r[f["name"]] = rng.choice(good_values(f["type"]))
        rows.append(r)
    return {"kind": kind, "rows": rows}


def gen_tx_case(rng, ntx: int) -> Dict[str, Any]:
    from harness.lib.c11_open import PLAIN_VARIANTS, gen_open
    from harness.props.c11 import BUILD_MODES, KEEPS_SID, VARIANTS, gen_records, make_variant, mk_fields
    fields = mk_fields(rng, rng.choice([1, 2, 2, 3]))
    txs = []
    for _ in range(ntx):
        calls = []
        for _ in range(rng.choice([1, 2, 2, 3, 4])):
            if rng.random() < 0.55:
                nfiles = rng.choice([1, 2, 2, 3, 4])
                files = [gen_file(rng, fields, "good") for _ in range(nfiles)]
                if rng.random() < 0.55:
                    # one refused entry, at ANY position (first, middle, last)
                    k = rng.randrange(nfiles)
                    kind = rng.choice(FILE_KINDS_BAD)
                    if kind == "reordered" and len(fields) < 2:
                        kind = "retyped"
                    files[k]["kind"] = kind
                calls.append({"op": "files", "files": files})
            else:
                while True:
                    vname = rng.choice(VARIANTS[:14] + ["omitted", "identical", "identical"] * 4)
                    v = make_variant(rng, fields, vname)
                    if v is not None:
                        break
                arg, sid = v
                build = "fresh" if arg is None or rng.random() < 0.5 else rng.choice(BUILD_MODES[1:])
                if build in KEEPS_SID:
                    sid = 1
                calls.append({"op": "records", "variant": vname, "arg": arg, "sid": sid, "build": build,
                              "records": gen_records(rng, arg if arg is not None else fields, 0.15)})
        for c in calls:
            if rng.random() < 0.2:
                c["fault"] = copy.deepcopy(rng.choice(FAULT_SPECS))
        txs.append({"handle": rng.choice(["A", "A", "B", "fresh"]), "calls": calls, "end": rng.choice(ENDS)})
        # handle provenance (harness/lib/c11_open.py): the transaction's handle is (re-)obtained right before it
        if rng.random() < 0.35:
            txs[-1]["open"] = gen_open(rng, fields)
            # ... and a pre-built file may carry exactly the layout that handle was configured with
            if txs[-1]["open"].get("variant") in PLAIN_VARIANTS and all(isinstance(f["type"], str) for f in txs[-1]["open"]["arg"]):
                for c in calls:
                    if c["op"] == "files" and rng.random() < 0.5:
                        k = rng.randrange(len(c["files"]))
                        c["files"][k] = gen_file(rng, txs[-1]["open"]["arg"], "layout")
                        c["files"][k]["layout"] = copy.deepcopy(txs[-1]["open"]["arg"])
        if rng.random() < 0.1:
            txs[-1]["also_open"] = gen_open(rng, fields)
    seed = rng.getrandbits(30)
    # the protection step of append_files: windows / announcements on calls that have no window yet, drawn from a
    # generator of their own (the main stream -- and with it every history above -- is as it was without them)
    r2 = random.Random(seed ^ 0x5EED)
    for tx in txs:
        for c in tx["calls"]:
            if c.get("fault") or r2.random() >= (0.3 if c["op"] == "files" else 0.08):
                continue
            if r2.random() < 0.5:
                c["fault"] = copy.deepcopy(r2.choice(PROTECT_SPECS))
            else:
                c["collecting"] = r2.choice(COLLECTING)
    # the other caller-supplied fields of pre-built DataFiles (META) and the call-level "statistics computed here" claim:
    # again from a generator of their own
    r3 = random.Random(seed ^ 0xC1A1)
    for tx in txs:
        for c in tx["calls"]:
            if c["op"] != "files":
                continue
            for f in c["files"]:
                if f["kind"] in ("good", "layout") and r3.random() < 0.3:
                    f["meta"] = r3.choice(META)
            if r3.random() < 0.15:
                c["trusted"] = True
                good = [f for f in c["files"] if f["kind"] == "good"]
                if good and not any(f.get("stats") in TRUSTED_STATS for f in good):
                    r3.choice(good)["stats"] = r3.choice(TRUSTED_STATS)
    return {"kind": "tx", "fields": fields, "txs": txs, "seed": seed}


def tx_case_json(case: Dict[str, Any]) -> Dict[str, Any]:
    out = {"kind": "tx", "fields": case["fields"], "seed": case.get("seed", 0), "txs": []}
    for tx in case["txs"]:
        calls = []
        for c in tx["calls"]:
            if c["op"] == "files":
                calls.append({"op": "files", **({"trusted": True} if c.get("trusted") else {}),
                              "files": [{"kind": f["kind"], "rows": [enc_record(r) for r in f.get("rows", [])],
                                                        **({"stats": f["stats"]} if f.get("stats") else {}),
                                                        **({"meta": f["meta"]} if f.get("meta") else {}),
                                                        **({"ref": list(f["ref"])} if f.get("ref") else {}),
                                                        **({"layout": f["layout"]} if f.get("layout") else {})} for f in c["files"]]})
            else:
                calls.append({"op": "records", "variant": c["variant"], "arg": c["arg"], "sid": c["sid"], "build": c.get("build", "fresh"),
                              "records": [enc_record(r) for r in c["records"]]})
            if c.get("fault"):
                calls[-1]["fault"] = c["fault"]
            if c.get("collecting"):
                calls[-1]["collecting"] = c["collecting"]
        out["txs"].append({"handle": tx["handle"], "end": tx["end"], "calls": calls, **{k: tx[k] for k in ("open", "also_open") if tx.get(k)}})
    return out


def tx_case_unjson(j: Dict[str, Any]) -> Dict[str, Any]:
    out = {"kind": "tx", "fields": j["fields"], "seed": j.get("seed", 0), "txs": []}
    for tx in j["txs"]:
        calls = []
        for c in tx["calls"]:
            if c["op"] == "files":
                calls.append({"op": "files", **({"trusted": True} if c.get("trusted") else {}),
                              "files": [{"kind": f["kind"], "rows": [dec_record(r) for r in f.get("rows", [])],
                                                        **({"stats": f["stats"]} if f.get("stats") else {}),
                                                        **({"meta": f["meta"]} if f.get("meta") else {}),
                                                        **({"ref": list(f["ref"])} if f.get("ref") else {}),
                                                        **({"layout": f["layout"]} if f.get("layout") else {})} for f in c["files"]]})
            else:
                calls.append({"op": "records", "variant": c["variant"], "arg": c["arg"], "sid": c["sid"], "build": c.get("build", "fresh"),
                              "records": [dec_record(r) for r in c["records"]]})
            if c.get("fault"):
                calls[-1]["fault"] = c["fault"]
            if c.get("collecting"):
                calls[-1]["collecting"] = c["collecting"]
        out["txs"].append({"handle": tx["handle"], "end": tx["end"], "calls": calls, **{k: tx[k] for k in ("open", "also_open") if tx.get(k)}})
    return out


# ---------------------------------------------------------------------------------- materialising pre-built files
def build_file(root: str, fields: List[Dict[str, Any]], spec: Dict[str, Any], name: str) -> Tuple[Any, str, List[Dict[str, Any]], Any, Any]:
    """Write the pre-built file `spec` under data/ and return (DataFile, table-relative path, rows as a reader
    sees them, footer as [(name, type, nullable)] or None when there is no readable parquet footer, the (lower,
    upper) bounds the DataFile claims)."""
    import pyarrow as pa
    import pyarrow.parquet as pq
    from datashard.data_structures import DataFile, FileFormat
    kind = spec["kind"]
    base = table_footer(fields)
    footer = base
    if kind == "layout":
        # a file written with the layout of another schema (e.g. the one a handle was configured with)
        footer = table_footer(spec["layout"])
    elif kind == "reordered":
        footer = pa.schema(list(base)[1:] + list(base)[:1])
    elif kind == "retyped":
        f0 = base.field(0)
        footer = pa.schema([pa.field(f0.name, pa.string() if not pa.types.is_string(f0.type) else pa.int64(), f0.nullable)] + list(base)[1:])
    elif kind == "nullability":
        f0 = base.field(0)
        footer = pa.schema([pa.field(f0.name, f0.type, not f0.nullable)] + list(base)[1:])
    elif kind == "extra_col":
        footer = pa.schema(list(base) + [pa.field("zz", pa.int64(), True)])
    ddir = os.path.join(root, "data")
    os.makedirs(ddir, exist_ok=True)
    ext = {"avro": ".avro", "orc_declared": ".orc"}.get(kind, ".parquet")
    rel = f"data/{name}{ext}"
    full = os.path.join(root, rel)
    fmt = {"avro": FileFormat.AVRO, "orc_declared": FileFormat.ORC}.get(kind, FileFormat.PARQUET)
    rows_seen: List[Dict[str, Any]] = []
    foot: Any = None
    if kind == "missing":
        size = 1
    elif kind == "avro":
        import fastavro
        with open(full, "wb") as fo:
            fastavro.writer(fo, {"type": "record", "name": "r", "fields": [{"name": "x", "type": "long"}]}, [{"x": 1}])
        size = os.path.getsize(full)
    elif kind in ("orc_declared", "garbage"):
        with open(full, "wb") as fo:
            fo.write(b"ORC" + b"\x00" * 64)
        size = os.path.getsize(full)
    else:
        cols = []
        for fl in footer:
            if fl.name == "zz":
                cols.append(pa.array([1] * len(spec["rows"]), fl.type))
            elif kind == "retyped" and fl.name == base.field(0).name:
                cols.append(pa.array(["s" if pa.types.is_string(fl.type) else 1] * len(spec["rows"]), fl.type))
            elif kind == "nullability" and fl.name == base.field(0).name and not fl.nullable:
                good = [r.get(fl.name) for r in spec["rows"]]
                fill = next((g for g in good if g is not None), None)
                if fill is None:
                    fill = good_values(next(f["type"] for f in fields if f["name"] == fl.name))[0]
                cols.append(pa.array([g if g is not None else fill for g in good], fl.type))
            else:
                cols.append(pa.array([r.get(fl.name) for r in spec["rows"]], fl.type))
        tbl = pa.Table.from_arrays(cols, schema=footer)
        pq.write_table(tbl, full)
        size = os.path.getsize(full)
        rows_seen = pq.read_table(full).to_pylist()
        foot = [(fl.name, str(fl.type), fl.nullable) for fl in footer]
    path = "/" + rel
    if kind == "noncanonical":
        path = f"/data//{name}{ext}"
    claim_lo, claim_hi = claimed_bounds(spec.get("layout") or fields, rows_seen, spec.get("stats")) if foot is not None else (None, None)
    kw: Dict[str, Any] = dict(file_path=path, file_format=fmt, partition_values={}, record_count=max(1, len(spec["rows"])), file_size_in_bytes=size,
                              lower_bounds=copy.deepcopy(claim_lo), upper_bounds=copy.deepcopy(claim_hi))
    kw.update(meta_kwargs(spec.get("meta"), spec.get("layout") or fields, full, len(rows_seen)))
    df = DataFile(**kw)
    return df, rel, rows_seen, foot, (claim_lo, claim_hi)


# ---------------------------------------------------------------------------------- running a tx case on the real library
def run_tx_case(case: Dict[str, Any], root: str, filters_per_col: int = 1) -> Dict[str, Any]:
    from datashard import create_table, load_table
    from datashard.data_structures import Schema
    from harness.lib.c11_open import observe_cache, open_label, open_real
    from harness.props.c11 import OPS, _eval_filter, _judge_rows, _same_rows, build_schema, declared_type, observe, same_table_state
    rng = random.Random(case.get("seed", 0))
    shutil.rmtree(root, ignore_errors=True)
    fields = case["fields"]
    table = create_table(root, Schema(schema_id=1, fields=copy.deepcopy(fields)))
    handles: Dict[str, Any] = {"A": table}
    violations: List[Tuple[str, str]] = []
    trace: List[Dict[str, Any]] = []
    supplied: List[Tuple[Dict[str, str], Dict[str, Any]]] = []
    opaque = {f["name"]: "opaque" for f in fields}
    alive: List[Any] = []
    for ti, tx in enumerate(case["txs"]):
        h = tx["handle"]
        tev: Dict[str, Any] = {"tx": ti, "handle": h, "end": tx["end"], "calls": []}
        extra = None
        if tx.get("also_open"):
            extra, why = open_real(tx["also_open"], root, fields, handles.get("A"))
            alive.append(extra)
            tev["also_open"] = open_label(tx["also_open"]) + (f" raised {why}" if why else "")
            tev["also_open_failed"] = bool(why)
        if tx.get("open"):
            handle, why = open_real(tx["open"], root, fields, handles.get(h) if h != "fresh" else None)
            tev["open"] = open_label(tx["open"]) + (f" raised {why}" if why else "")
            tev["open_failed"] = bool(why)
            if h != "fresh":
                handles[h] = handle
        elif h == "fresh":
            handle = load_table(root)
        else:
            if h not in handles:
                handles[h] = load_table(root)
            handle = handles[h]
        before_tx = observe(root)
        inj = faults_of(handle)
        t = handle.new_transaction().begin()
        pending: List[Tuple[Dict[str, str], Dict[str, Any]]] = []
        rejected_paths: List[str] = []
        any_accepted = False
        built: Dict[Tuple[int, int], Any] = {}          # the pre-built files of this transaction, by (call, position)
        for ci, call in enumerate(tx["calls"]):
            b = observe(root)
            cev: Dict[str, Any] = {"op": call["op"], "fault": call.get("fault"), "collecting": call.get("collecting")}
            mine: List[Tuple[Dict[str, str], Dict[str, Any]]] = []
            paths: List[str] = []
            announced = None
            marks_before = prebuilt_markers(root)
            try:
                if call["op"] == "files":
                    dfs = []
                    cev["files"] = []
                    for fi, spec in enumerate(call["files"]):
                        if spec["kind"] == "again":     # a file an earlier call of this transaction was given, once more
                            df, rel, rows_seen, foot, claim = built[tuple(spec["ref"])]
                        else:
                            df, rel, rows_seen, foot, claim = build_file(root, fields, spec, f"pre_{ti}_{ci}_{fi}")
                        built[(ci, fi)] = (df, rel, rows_seen, foot, claim)
                        dfs.append(df)
                        paths.append(rel)
                        cev["files"].append({"kind": spec["kind"], "footer": foot, "rows": rows_seen, "path": rel, "claim": claim,
                                             "stats": spec.get("stats", "none"), "meta": spec.get("meta"), **({"ref": list(spec["ref"])} if spec.get("ref") else {})})
                        mine += [(opaque if set(r) == set(opaque) else {k: "opaque" for k in r}, r) for r in rows_seen]
                    announced = announce(root, call.get("collecting"))
                    b = observe(root)               # the files were put there by the caller, before the call
                    inj.arm(call.get("fault"))
                    if call.get("trusted"):         # a caller claiming that the statistics need no verification
                        cev["trusted"] = True
                        t.append_files(dfs, _statistics_computed_here=True)
                    else:
                        t.append_files(dfs)
                else:
                    arg = call["arg"]
                    schema = build_schema(call.get("build", "fresh"), call["sid"], arg, fields, handle) if arg is not None else None
                    announced = announce(root, call.get("collecting"))
                    inj.arm(call.get("fault"))
                    t.append_data(records=copy.deepcopy(call["records"]), schema=schema)
                    eff = arg if arg is not None else fields
                    types = {f["name"]: declared_type(f["type"]) for f in eff}
                    mine = [(types, r) for r in call["records"]]
                    cev["variant"] = call["variant"]
                cev["fault_hits"] = inj.disarm()
                cev["outcome"] = "accepted"
                any_accepted = True
                pending += mine
            except Exception as e:                   # noqa: BLE001 - the caller catches and carries on
                cev["fault_hits"] = inj.disarm()
                cev["outcome"] = "rejected"
                cev["error"] = type(e).__name__
                cev["message"] = str(e)[:160]
                rejected_paths += [p for p, sp in zip(paths, call.get("files", [])) if sp.get("kind") != "again"]
                diff = same_table_state(b, observe(root))
                if diff:
                    violations.append((f"tx-call-trace:{call['op']}", f"tx {ti} call {ci}: {call['op']} raised {cev['error']} but {diff}"))
            if announced:
                os.remove(announced)                  # the collection run is over
            # (for the correspondence with the model only -- markers are no table content:) the in-flight markers of
            # pre-built files this call left behind
            cev["marks"] = len(prebuilt_markers(root) - marks_before)
            tev["calls"].append(cev)
        # ---- end of the transaction
        committed = False
        if tx["end"] in ("commit", "commit_fails"):
            if tx["end"] == "commit_fails":
                def failing_commit(*a, **k):
                    raise RuntimeError("injected commit failure (before the commit point)")
                handle.metadata_manager.commit = failing_commit
            try:
                t.commit()
                committed = True
                tev["commit"] = "ok"
            except Exception as e:                   # noqa: BLE001
                tev["commit"] = f"raised {type(e).__name__}"
            finally:
                if tx["end"] == "commit_fails":
                    del handle.metadata_manager.commit
        elif tx["end"] == "rollback":
            t.rollback()
            tev["commit"] = "rolled back"
        else:
            tev["commit"] = "abandoned"
        after = observe(root)
        label = ",".join(f"{c['op']}:{c['outcome']}" + ("(under storage fault)" if c.get("fault") else "") for c in tev["calls"])
        if committed:
            supplied += pending
            want_snaps = len(before_tx["snapshots"]) + (1 if any_accepted else 0)
            leaked = [p for p in rejected_paths if p in after["reachable"]]
            if leaked:
                violations.append(("tx-rejected-append-published:files",
                                   f"tx {ti} [{label}] committed: data file(s) {leaked} of an append_files call that RAISED are reachable from the new snapshot"))
            elif len(after["snapshots"]) != want_snaps:
                violations.append(("tx-snapshots", f"tx {ti} [{label}] committed: {len(after['snapshots'])} snapshots, expected {want_snaps} "
                                                   f"({'some' if any_accepted else 'no'} call was accepted)"))
        else:
            diff = same_table_state(before_tx, after)
            if diff:
                violations.append((f"tx-reject-trace:{tx['end']}", f"tx {ti} [{label}] ended with '{tev['commit']}' but {diff}"))
        tev["nsnaps"] = len(after["snapshots"])
        tev["files"] = [{"schema": f["schema"], "rows": f["rows"], "lo": f["lo"], "hi": f["hi"], "path": f["path"], "meta": f.get("meta")} for f in after["files"]]
        tev["store"] = len([x for x in after["store"] if x.startswith("auto_")])
        tev["cache"] = observe_cache(handle)
        tev["cache_extra"] = observe_cache(extra) if extra is not None else None
        # ---- scans
        fresh = load_table(root)
        try:
            got = fresh.scan()
        except Exception as e:                       # noqa: BLE001
            got = None
            metas = sorted({f["meta"] for c in tev["calls"] if c.get("outcome") == "accepted" for f in c.get("files", []) if f.get("meta")})
            violations.append(("tx-scan-raises" + (":prebuilt-claims" if metas else ""),
                               f"tx {ti} [{label}]: full scan raises {type(e).__name__}: {str(e)[:200]}"
                               + (f" (accepted pre-built files of this transaction came with caller-supplied {metas})" if metas else "")))
        tev["scan"] = "raises" if got is None else len(got)
        if got is not None and not violations:
            # the count-only read of the same content (Table.row_count: "instead of len(table.scan())")
            metas = sorted({f["meta"] for c in tev["calls"] if c.get("outcome") == "accepted" for f in c.get("files", []) if f.get("meta")})
            try:
                n = fresh.row_count()
                if n != len(got):
                    violations.append(("tx-row-count" + (":prebuilt-claims" if metas else ""),
                                       f"tx {ti} [{label}]: row_count() is {n!r}, the full scan returns {len(got)} rows"
                                       + (f" (accepted pre-built files came with caller-supplied {metas})" if metas else "")))
            except Exception as e:                   # noqa: BLE001
                violations.append(("tx-row-count-raises", f"tx {ti} [{label}]: row_count() raises {type(e).__name__}: {str(e)[:160]}"))
        if got is not None and not violations:
            try:                                     # "later scans": also through the handle that ran the transaction
                got_h = handle.scan()
                if not _same_rows(got_h, got):
                    violations.append(("tx-scan-differs-through-handle", f"tx {ti} [{label}]: the full scan through the transaction's handle "
                                       f"({tev.get('open', 'default')}) returns {got_h!r:.200}, a newly loaded handle returns {got!r:.200}"))
            except Exception as e:                   # noqa: BLE001
                violations.append(("tx-scan-raises-through-handle", f"tx {ti} [{label}]: the full scan through the transaction's handle "
                                   f"({tev.get('open', 'default')}) raises {type(e).__name__}: {str(e)[:160]}"))
        if got is not None and not violations:
            bad = _judge_rows(supplied, got)
            if bad:
                violations.append((f"tx-rows:{bad[0]}", f"tx {ti} [{label}] ended with '{tev['commit']}': {bad[1]}"))
            else:
                for col in sorted({k for r in got for k in r}):
                    present = [r[col] for r in got if r.get(col) is not None and not (isinstance(r[col], float) and r[col] != r[col])]
                    distinct = []
                    for v in present:
                        if not any(type(v) is type(w) and v == w for w in distinct):
                            distinct.append(v)
                    probes = [(rng.choice(OPS), rng.choice(present)) for _ in range(filters_per_col if present else 0)]
                    probes += [("==", v) for v in distinct[:6]]          # every stored value must be found again
                    for op, lit in probes:
                        try:
                            want = _eval_filter(got, col, op, lit)
                            res = fresh.scan(filter={col: (op, lit)})
                        except TypeError:
                            continue
                        except Exception as e:       # noqa: BLE001
                            violations.append(("tx-filter-raises", f"tx {ti}: scan(filter={col} {op} {lit!r:.80}) raises {type(e).__name__}: {str(e)[:160]}"))
                            break
                        tev["filters"] = tev.get("filters", 0) + 1
                        if not _same_rows(res, want):
                            claims = sorted({f.get("stats", "none") for c in tev["calls"] for f in c.get("files", [])} - {"none"})
                            flagged = any(c.get("trusted") for c in tev["calls"])
                            violations.append(("tx-mis-filter" + (":prebuilt-bounds-computed-here-flag" if claims and flagged else ":prebuilt-bounds" if claims else ""),
                                               f"tx {ti}: scan(filter={col} {op} {lit!r:.80}) returns {len(res)} rows, the full scan holds {len(want)} matching rows"
                                               + (f" (pre-built files of this transaction came with caller-supplied bounds: {claims})" if claims else "")))
                            break
        # what the manifests of the current snapshot STORE about each file besides its bounds, read without the library:
        # statistics keys that are no integers make every read of the table raise, a checksum that is not the file's makes
        # scans raise, the record counts are what row_count() sums
        import re
        for f in after["files"]:
            m = f.get("meta") or {}
            wrong = []
            if any(not re.fullmatch(r"-?[0-9]+", str(k)) for k in m.get("stat_keys", [])):
                wrong.append(f"statistics keys {m['stat_keys']!r:.80}")
            if m.get("checksum") is not None and m.get("sha256") is not None and m["checksum"] != m["sha256"]:
                wrong.append(f"checksum {m['checksum']!r:.40} (the file's SHA-256 is {m['sha256'][:16]}...)")
            if f["schema"] and m.get("count") != len(f["rows"]):
                wrong.append(f"record_count {m.get('count')!r} (the file holds {len(f['rows'])} rows)")
            if wrong and committed and not violations:
                violations.append(("tx-stored-claim:prebuilt-claims", f"tx {ti} [{label}] committed: the manifest entry of {f['path']} stores "
                                                                     + "; ".join(wrong) + " -- an unverified caller claim"))
                break
        trace.append(tev)
        if violations:
            break
    return {"violations": violations, "trace": trace}


# ---------------------------------------------------------------------------------- shrinking
def shrink_tx(case: Dict[str, Any], fails) -> Dict[str, Any]:
    """Greedy: drop transactions, calls, files of a call, records / rows, while `fails(case)` stays true."""
    cur = copy.deepcopy(case)
    budget = 60

    def attempts(c: Dict[str, Any]):
        for i in range(len(c["txs"])):
            if len(c["txs"]) > 1:
                d = copy.deepcopy(c)
                del d["txs"][i]
                yield d
        for i, tx in enumerate(c["txs"]):
            for k in ("also_open", "open"):
                if tx.get(k):
                    d = copy.deepcopy(c)
                    del d["txs"][i][k]
                    yield d
        for i, tx in enumerate(c["txs"]):
            for j in range(len(tx["calls"])):
                if len(tx["calls"]) > 1:
                    d = copy.deepcopy(c)
                    del d["txs"][i]["calls"][j]
                    yield d
        for i, tx in enumerate(c["txs"]):
            for j, call in enumerate(tx["calls"]):
                if call["op"] == "files":
                    for k in range(len(call["files"])):
                        if len(call["files"]) > 1:
                            d = copy.deepcopy(c)
                            del d["txs"][i]["calls"][j]["files"][k]
                            yield d
                    for k, f in enumerate(call["files"]):
                        if f.get("stats"):
                            d = copy.deepcopy(c)
                            del d["txs"][i]["calls"][j]["files"][k]["stats"]
                            yield d
                    for k, f in enumerate(call["files"]):
                        if f.get("meta"):
                            d = copy.deepcopy(c)
                            del d["txs"][i]["calls"][j]["files"][k]["meta"]
                            yield d
                    if call.get("trusted"):
                        d = copy.deepcopy(c)
                        del d["txs"][i]["calls"][j]["trusted"]
                        yield d
                    for k, f in enumerate(call["files"]):
                        if len(f.get("rows", [])) > 1:
                            d = copy.deepcopy(c)
                            d["txs"][i]["calls"][j]["files"][k]["rows"] = f["rows"][:1]
                            yield d
                elif len(call["records"]) > 1:
                    d = copy.deepcopy(c)
                    d["txs"][i]["calls"][j]["records"] = call["records"][:1]
                    yield d
        if len(c["fields"]) > 1 and all(call["op"] == "files" for tx in c["txs"] for call in tx["calls"]) \
                and not any(f["kind"] in ("reordered", "layout") for tx in c["txs"] for call in tx["calls"] for f in call["files"]) \
                and not any(tx.get("open") or tx.get("also_open") for tx in c["txs"]):
            d = copy.deepcopy(c)
            drop = d["fields"].pop()["name"]
            for tx in d["txs"]:
                for call in tx["calls"]:
                    for f in call["files"]:
                        for r in f.get("rows", []):
                            r.pop(drop, None)
            yield d

    changed = True
    while changed and budget > 0:
        changed = False
        for cand in attempts(cur):
            budget -= 1
            if fails(cand):
                cur, changed = cand, True
                break
            if budget <= 0:
                break
    return cur
