"""Deterministic cooperative scheduler for real library code in real threads.

Each *actor* is a real thread.  A thread runs only while it holds the baton; it gives the baton back
when it reaches a *yield point* (a patched primitive: a syscall of datashard.file_lock, a request of the
fake S3 client, a clock read, a sleep) and parks there *before* executing the primitive.  The controller
(the thread that created the Scheduler) decides who runs next:

    sched.start(aid, fn)        run fn in a new actor thread until its first yield point (or its end)
    sched.step(aid, inject)     let the parked actor execute the primitive it is parked at and continue
                                to the next yield point (or the end of fn); `inject` is handed to the
                                primitive (fault injection, jitter ...)
    sched.kill(aid)             the actor is never resumed (process death); unwound at close()

So a schedule -- a list of actor ids, clock advances and injections -- replays exactly: between two
yield points only one thread runs.  The virtual clock is an integer number of milliseconds and moves
only when the controller says so (tick) or when a sleeping actor is resumed (auto-advance to its wake-up
time).  Threads that are not actors (the controller itself) pass straight through patched primitives.
"""
from __future__ import annotations

import threading
from typing import Any, Callable, Dict, List, Optional, Tuple


class ActorKilled(BaseException):
    """Raised inside a killed actor's thread at close() to unwind it (not an Exception on purpose)."""


class Clock:
    def __init__(self, now_ms: int = 0):
        self.now = int(now_ms)

    def tick(self, d_ms: int) -> None:
        self.now += max(0, int(d_ms))

    def advance_to(self, t_ms: int) -> None:
        self.now = max(self.now, int(t_ms))


class Actor:
    def __init__(self, aid: Any):
        self.aid = aid
        self.thread: Optional[threading.Thread] = None
        self.state = "new"            # new | parked | running | done | killed
        self.pending: Optional[Tuple[str, Any]] = None   # (kind, info) of the primitive it is parked at
        self.inject: Any = None
        self.result: Any = None
        self.exc: Optional[BaseException] = None
        self.go = threading.Event()


class Scheduler:
    def __init__(self, clock: Optional[Clock] = None):
        self.clock = clock or Clock()
        self.actors: Dict[Any, Actor] = {}
        self.by_thread: Dict[int, Actor] = {}
        self.back = threading.Event()      # actor -> controller: "I parked / finished"
        self.trace: List[Tuple[Any, ...]] = []   # observations appended by the primitives, in execution order
        self.closed = False

    # ------------------------------------------------------------------ actor side
    def current(self) -> Optional[Actor]:
        return self.by_thread.get(threading.get_ident())

    def yield_point(self, kind: str, info: Any = None) -> Any:
        """Park the calling actor in front of a primitive; returns the controller's injection.
        A non-actor thread passes through (returns None)."""
        a = self.current()
        if a is None or a.state == "unwinding":
            return None
        a.pending = (kind, info)
        a.state = "parked"
        a.go.clear()
        self.back.set()
        a.go.wait()
        if a.state == "killed":
            a.state = "unwinding"
            raise ActorKilled()
        a.state = "running"
        a.pending = None
        inj, a.inject = a.inject, None
        return inj

    def log(self, *obs: Any) -> None:
        a = self.current()
        self.trace.append((a.aid if a else None,) + tuple(obs))

    # ------------------------------------------------------------------ controller side
    def _run_until_back(self, a: Actor) -> None:
        self.back.clear()
        a.go.set()
        if not self.back.wait(timeout=30.0):
            raise RuntimeError(f"actor {a.aid!r} did not reach a yield point within 30 s (pending={a.pending!r})")

    def start(self, aid: Any, fn: Callable[[], Any]) -> Actor:
        """New actor thread running fn; returns when it parks at its first yield point or finishes."""
        old = self.actors.get(aid)
        if old is not None and old.state not in ("done",):
            raise RuntimeError(f"actor {aid!r} is still {old.state}")
        a = Actor(aid)
        self.actors[aid] = a

        def body() -> None:
            self.by_thread[threading.get_ident()] = a
            a.go.wait()
            a.state = "running"
            try:
                a.result = fn()
            except ActorKilled:
                pass
            except BaseException as e:     # the outcome of the call, reported to the controller
                a.exc = e
            finally:
                if a.state != "unwinding":
                    a.state = "done"
                else:
                    a.state = "dead"
                a.pending = None
                self.by_thread.pop(threading.get_ident(), None)
                self.back.set()

        a.thread = threading.Thread(target=body, name=f"coop-{aid}", daemon=True)
        a.thread.start()
        self._run_until_back(a)
        return a

    def step(self, aid: Any, inject: Any = None) -> Actor:
        a = self.actors[aid]
        if a.state != "parked":
            raise RuntimeError(f"actor {aid!r} is {a.state}, cannot step")
        a.inject = inject
        self._run_until_back(a)
        return a

    def kill(self, aid: Any) -> None:
        a = self.actors.get(aid)
        if a is not None and a.state == "parked":
            a.state = "killed"

    def close(self) -> None:
        """Unwind every thread that is still parked."""
        self.closed = True
        for a in list(self.actors.values()):
            if a.state in ("parked", "killed"):
                a.state = "killed"
                self.back.clear()
                a.go.set()
                self.back.wait(timeout=5.0)
        for a in list(self.actors.values()):
            if a.thread is not None:
                a.thread.join(timeout=5.0)
