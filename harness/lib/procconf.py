"""Process-wide configuration of the library as a dimension of generated cases.

The library reads configuration that is not an argument of any call: the levels of Python's `logging` tree (its own
`DataShardLogger.set_level`, the application's `logging.getLogger(...).setLevel`, `logging.disable`) and a handful of
environment variables (`os.getenv` in src/datashard).  A history that is safe under the defaults must be safe under every
such configuration, so a case carries a list of CONFIGURATION EVENTS (the alphabet of coq/Model/LogConf.v `conf_ev`):

    ["set_level", l]      DataShardLogger.set_level(l)            (library logger and each of its handlers)
    ["lib_level", l]      logging.getLogger("datashard").setLevel(l)
    ["mod_level", l]      every logger "datashard.<module>" .setLevel(l)          (0 = NOTSET: inherit)
    ["root_level", l]     logging.getLogger().setLevel(l)
    ["disable", l]        logging.disable(l)
    ["env", name, value]  os.environ[name] = value   (value None: unset)
    ["tz", zone]          os.environ["TZ"] = zone; time.tzset()   (zone None: unset -- the system zone)

The TIME ZONE of the process is configuration of the same kind: nothing a table stores or a query answers may depend on it
(timestamp columns hold naive datetimes), yet datetime.fromtimestamp / time.localtime / mktime read it.  `TZ_CHOICES` are
POSIX TZ strings (they need no tzdata); `timezone(zone)` is the context manager for one zone.

`applied(events)` establishes the library's own defaults (nothing disabled, library logger at its default level, module
loggers NOTSET, root WARNING, listed environment variables as the harness found them), applies the events in order, and
restores everything it touched on exit, so that later cases of the same worker process are unaffected.  Log records are
still formatted by the library's handler (lazy `%s` arguments, `__str__` of logged objects run as in production) but
written to a sink instead of stderr.
"""
from __future__ import annotations

import contextlib
import logging
import os
import random
import time
from typing import Any, Dict, Iterator, List, Optional, Sequence, Tuple

LIB = "datashard"
LEVELS = [0, 10, 20, 30, 40, 50]
#: environment variables the library consults that are NOT part of a table's location (those are the spelling dimension)
ENV_CHOICES: Dict[str, List[Optional[str]]] = {
    "DATASHARD_VERIFY_CHECKSUMS": [None, "false", "true", "0"],
    "DATASHARD_S3_USE_CONDITIONAL_WRITES": [None, "false", "true"],
}

#: POSIX TZ strings: UTC, zones west and east of it, with and without daylight saving, whole / half-hour / beyond-12h offsets
TZ_CHOICES: List[Optional[str]] = ["UTC", "EST5EDT,M3.2.0,M11.1.0", "CET-1CEST,M3.5.0,M10.5.0/3", "IST-5:30", "PST8PDT,M3.2.0,M11.1.0",
                                   "NZST-12NZDT,M9.5.0,M4.1.0/3", "<-11>11", "<+1345>-13:45"]


def set_tz(zone: Optional[str]) -> None:
    if zone is None:
        os.environ.pop("TZ", None)
    else:
        os.environ["TZ"] = str(zone)
    time.tzset()


@contextlib.contextmanager
def timezone(zone: Optional[str], keep: bool = False) -> Iterator[None]:
    """Run the body with the process in `zone` (keep=True: leave the process as it is); the previous TZ is restored."""
    if keep:
        yield
        return
    old = os.environ.get("TZ")
    try:
        set_tz(zone)
        yield
    finally:
        set_tz(old)


def draw_tz(rng: random.Random, non_utc: float = 0.5) -> Optional[str]:
    return rng.choice(TZ_CHOICES[1:]) if rng.random() < non_utc else "UTC"


#: named configurations every campaign covers (name -> events); "default" is the library as imported
NAMED: Dict[str, List[List[Any]]] = {
    "default": [],
    "debug": [["set_level", 10]],
    "warning": [["set_level", 30]],
    "critical": [["set_level", 50]],
    "mod-debug": [["mod_level", 10]],
    "app-root-debug": [["lib_level", 0], ["root_level", 10]],
    "app-disable-info": [["set_level", 10], ["disable", 20]],
    "checksums-off": [["env", "DATASHARD_VERIFY_CHECKSUMS", "false"]],
    "debug+env": [["set_level", 10], ["env", "DATASHARD_VERIFY_CHECKSUMS", "0"], ["env", "DATASHARD_S3_USE_CONDITIONAL_WRITES", "false"]],
}
#: how often each named configuration is drawn (the default and DEBUG most often)
WEIGHTS = {"default": 5, "debug": 5, "warning": 1, "critical": 1, "mod-debug": 2, "app-root-debug": 2, "app-disable-info": 1,
           "checksums-off": 1, "debug+env": 2}


class _Sink:
    def write(self, _s: str) -> int:
        return 0

    def flush(self) -> None:
        pass


def library_env_vars(src_root: Optional[str] = None) -> List[str]:
    """Every name the library passes to os.getenv / os.environ (read from its source, so a new one is noticed)."""
    import re
    if src_root is None:
        import datashard
        src_root = os.path.dirname(datashard.__file__)
    names = set()
    for r, _d, fs in os.walk(src_root):
        for f in fs:
            if f.endswith(".py"):
                with open(os.path.join(r, f), encoding="utf-8") as fh:
                    txt = fh.read()
                names.update(re.findall(r"os\.(?:getenv|environ\.get)\(\s*[\"']([A-Z0-9_]+)[\"']", txt))
                names.update(re.findall(r"os\.environ\[\s*[\"']([A-Z0-9_]+)[\"']\s*\]", txt))
    return sorted(names)


def _lib_logger() -> logging.Logger:
    from datashard.logging_config import DataShardLogger
    return DataShardLogger.get_logger()


def _module_loggers() -> List[logging.Logger]:
    import datashard  # noqa: F401 - importing creates the module loggers
    import datashard.garbage_collector  # noqa: F401
    out = []
    for name, lg in sorted(logging.root.manager.loggerDict.items()):
        if name.startswith(LIB + ".") and isinstance(lg, logging.Logger):
            out.append(lg)
    return out


def quiet() -> None:
    """Library log records go to a sink (still formatted)."""
    for h in _lib_logger().handlers:
        if isinstance(h, logging.StreamHandler):
            h.setStream(_Sink())


def apply_event(ev: Sequence[Any]) -> None:
    kind = ev[0]
    if kind == "set_level":
        from datashard.logging_config import DataShardLogger
        DataShardLogger.set_level(int(ev[1]))
    elif kind == "lib_level":
        logging.getLogger(LIB).setLevel(int(ev[1]))
    elif kind == "mod_level":
        for lg in _module_loggers():
            lg.setLevel(int(ev[1]))
    elif kind == "root_level":
        logging.getLogger().setLevel(int(ev[1]))
    elif kind == "disable":
        logging.disable(int(ev[1]))
    elif kind == "env":
        if ev[2] is None:
            os.environ.pop(ev[1], None)
        else:
            os.environ[ev[1]] = str(ev[2])
    elif kind == "tz":
        set_tz(ev[1])
    else:
        raise ValueError(f"unknown configuration event {ev!r}")


def snapshot() -> Dict[str, Any]:
    lib = _lib_logger()
    return {"disable": logging.root.manager.disable, "root": logging.getLogger().level, "lib": lib.level,
            "handlers": [(h, h.level) for h in lib.handlers], "mods": [(lg, lg.level) for lg in _module_loggers()],
            "env": {k: os.environ.get(k) for k in ENV_CHOICES}, "tz": os.environ.get("TZ")}


def restore(snap: Dict[str, Any]) -> None:
    logging.disable(snap["disable"])
    logging.getLogger().setLevel(snap["root"])
    _lib_logger().setLevel(snap["lib"])
    for h, lv in snap["handlers"]:
        h.setLevel(lv)
    for lg, lv in snap["mods"]:
        lg.setLevel(lv)
    for k, v in snap["env"].items():
        if v is None:
            os.environ.pop(k, None)
        else:
            os.environ[k] = v
    if "tz" in snap and snap["tz"] != os.environ.get("TZ"):
        set_tz(snap["tz"])


def baseline() -> None:
    """The library as a fresh process imports it: nothing disabled, its logger and handlers at the level _setup_logging gives
    them, module loggers inheriting, root at Python's default."""
    logging.disable(logging.NOTSET)
    logging.getLogger().setLevel(logging.WARNING)
    lib = _lib_logger()
    lib.setLevel(library_default_level())
    for h in lib.handlers:
        h.setLevel(library_default_level())
    for lg in _module_loggers():
        lg.setLevel(logging.NOTSET)


_DEFAULT_LEVEL: Optional[int] = None


def library_default_level() -> int:
    """The level DataShardLogger._setup_logging gives the library logger (observed in a fresh interpreter state)."""
    global _DEFAULT_LEVEL
    if _DEFAULT_LEVEL is None:
        import ast
        import inspect
        from datashard import logging_config
        lvl = None
        for n in ast.walk(ast.parse(inspect.getsource(logging_config))):
            if (isinstance(n, ast.Call) and isinstance(n.func, ast.Attribute) and n.func.attr == "setLevel"
                    and isinstance(n.func.value, ast.Name) and n.func.value.id == "logger" and n.args
                    and isinstance(n.args[0], ast.Attribute) and isinstance(n.args[0].value, ast.Name) and n.args[0].value.id == "logging"):
                lvl = getattr(logging, n.args[0].attr)
                break
        _DEFAULT_LEVEL = int(lvl) if lvl is not None else logging.INFO
    return _DEFAULT_LEVEL


@contextlib.contextmanager
def applied(events: Sequence[Sequence[Any]]) -> Iterator[None]:
    snap = snapshot()
    try:
        quiet()
        baseline()
        for ev in events:
            apply_event(ev)
        yield
    finally:
        restore(snap)


def observe(logger_name: str = LIB + ".garbage_collector") -> Dict[str, Any]:
    """What the configuration amounts to for one module logger (recorded in the evidence, compared with Model/LogConf.v)."""
    lg = logging.getLogger(logger_name)
    return {"effective": lg.getEffectiveLevel(), "enabled": [lg.isEnabledFor(lv) for lv in LEVELS[1:]]}


def random_events(rng: random.Random, n: Optional[int] = None) -> List[List[Any]]:
    """An arbitrary configuration history (what an application may have done before / while it uses the library)."""
    out: List[List[Any]] = []
    for _ in range(rng.randint(1, 4) if n is None else n):
        r = rng.random()
        if r < 0.35:
            out.append(["set_level", rng.choice(LEVELS[1:])])
        elif r < 0.5:
            out.append(["lib_level", rng.choice(LEVELS)])
        elif r < 0.65:
            out.append(["mod_level", rng.choice(LEVELS)])
        elif r < 0.75:
            out.append(["root_level", rng.choice(LEVELS)])
        elif r < 0.85:
            out.append(["disable", rng.choice([0, 10, 20, 30])])
        else:
            k = rng.choice(sorted(ENV_CHOICES))
            out.append(["env", k, rng.choice(ENV_CHOICES[k])])
    return out


def draw(rng: random.Random, index: int) -> Tuple[str, List[List[Any]]]:
    """Configuration of the index-th case: the named ones in rotation by weight, every seventh case an arbitrary history."""
    if index % 7 == 6:
        return "random", random_events(rng)
    ring = [n for n in NAMED for _ in range(WEIGHTS[n])]
    name = ring[(index * 7 + index // len(ring)) % len(ring)]
    return name, [list(e) for e in NAMED[name]]
