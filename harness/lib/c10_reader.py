"""Independent reader for a DataShard table on a local directory (used by the C10 oracles).

Does not import datashard: metadata JSON via `json`, manifest lists / manifests via `fastavro`,
data files via `pyarrow.parquet`.  Everything is addressed from an explicitly named metadata file,
so it does not depend on the version pointer.
"""
from __future__ import annotations

import json
import os
import re
from typing import Any, Dict, List, Optional, Tuple

import fastavro
import pyarrow.parquet as pq

HINT = "metadata.version-hint.text"
NAME_RE = re.compile(r"^v([0-9]+)(?:-([0-9a-f]{8}))?\.metadata\.json$")


def _rel(p: str) -> str:
    return p.lstrip("/")


def read_metadata(root: str, name: str) -> Dict[str, Any]:
    with open(os.path.join(root, "metadata", name), "rb") as f:
        return json.loads(f.read().decode("utf-8"))


def snapshot_ids(meta: Dict[str, Any]) -> List[int]:
    return [s["snapshot_id"] for s in meta["snapshots"]]


def data_files_of(root: str, meta: Dict[str, Any], snapshot_id: Optional[int] = None) -> List[str]:
    sid = meta["current_snapshot_id"] if snapshot_id is None else snapshot_id
    if sid is None or sid == -1:
        return []
    snap = next(s for s in meta["snapshots"] if s["snapshot_id"] == sid)
    out: List[str] = []
    with open(os.path.join(root, _rel(snap["manifest_list"])), "rb") as f:
        manifests = [r["manifest_path"] for r in fastavro.reader(f)]
    for m in manifests:
        with open(os.path.join(root, _rel(m)), "rb") as f:
            for rec in fastavro.reader(f):
                if rec.get("status") == 2:      # deleted entry
                    continue
                out.append(_rel(rec["data_file"]["file_path"]))
    return out


def rows_of(root: str, meta: Dict[str, Any], snapshot_id: Optional[int] = None) -> List[Tuple]:
    """Sorted row multiset of one snapshot (default: the current one)."""
    rows: List[Tuple] = []
    for p in data_files_of(root, meta, snapshot_id):
        t = pq.read_table(os.path.join(root, p))
        for r in t.to_pylist():
            rows.append(tuple(sorted((k, repr(v)) for k, v in r.items())))
    return sorted(rows)


def canon_rows(rows: List[Dict[str, Any]]) -> List[Tuple]:
    return sorted(tuple(sorted((k, repr(v)) for k, v in r.items())) for r in rows)


def metadata_names(root: str) -> List[str]:
    """Metadata files directly in metadata/ (names of the v*.metadata.json form)."""
    d = os.path.join(root, "metadata")
    if not os.path.isdir(d):
        return []
    return sorted(n for n in os.listdir(d) if NAME_RE.match(n) and os.path.isfile(os.path.join(d, n)))


def pointer_bytes(root: str) -> Optional[bytes]:
    try:
        with open(os.path.join(root, HINT), "rb") as f:
            return f.read()
    except FileNotFoundError:
        return None


def state_via(root: str, name: str) -> Dict[str, Any]:
    """uuid / snapshot list / rows of every snapshot, read through the named metadata file."""
    meta = read_metadata(root, name)
    return {
        "name": name,
        "uuid": meta["table_uuid"],
        "snapshots": snapshot_ids(meta),
        "current": meta["current_snapshot_id"],
        "rows": rows_of(root, meta),
    }
