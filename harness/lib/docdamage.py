"""Structured damage of metadata-plane DOCUMENTS (used by C07).

A file of the metadata plane is a document: the table metadata is a JSON object, a manifest list / manifest is an Avro
container (writer schema + records) or, in the legacy format, a JSON object.  Besides damage of the BYTES (truncation,
garbage, flips: harness/props/c07.py) a document can be damaged in its STRUCTURE and still be perfectly good JSON / Avro:

    drop      a key is gone                                   (a section lost by a writer, a merge, a hand edit)
    null      the key is there, its value is null
    retype    the value is of another type -- for every other JSON type an empty and a non-empty representative
              (0, 7, false, true, "", "x", [], [1], {}, {"a": 1})
    empty     a list / object / string emptied IN PLACE (same type): a well-formed document that says something else
              -- recorded, not judged by itself (a manifest list with zero records is what an empty snapshot looks like);
              judged when the document contradicts ITSELF afterwards (the check's `dangling_current`: a metadata file
              whose current_snapshot_id names none of the snapshots it still lists)
    drop-item an element of an array is gone (first / last): likewise
    zero-records   (Avro) the container holds no records: likewise

at EVERY key path of the document (first and last element of every array).  The operations are independent of what any
reader does with the keys: nothing here imports datashard.

  json_ops / apply_json_op       operations on a JSON value
  avro_ops / apply_avro_op       the same on an Avro container (schema and records are changed together so that the file
                                 stays a valid container: a dropped field is dropped from the writer schema, a nulled
                                 field becomes a union with null, a retyped field gets the representative's type)
  to_legacy_json                 a manifest list / manifest re-written in the legacy JSON format
  jv                             a JSON value as a term of coq/Model/Doc.v `jv`
"""
from __future__ import annotations

import copy
import io
import json
import random
from typing import Any, Dict, Iterator, List, Optional, Sequence, Tuple

import fastavro

# keys through which reachability flows (every operation is applied there even in the quick tier)
FOCUS = {"snapshots", "manifest_list", "manifest_path", "file_path", "data_file", "manifests", "files", "current_snapshot_id"}

REPS: List[Tuple[str, Any]] = [("num", 0), ("num", 7), ("bool", False), ("bool", True), ("str", ""), ("str", "x"),
                               ("list", []), ("list", [1]), ("dict", {}), ("dict", {"a": 1})]


def jtype(v: Any) -> str:
    if v is None:
        return "null"
    if isinstance(v, bool):
        return "bool"
    if isinstance(v, (int, float)):
        return "num"
    if isinstance(v, str):
        return "str"
    if isinstance(v, list):
        return "list"
    if isinstance(v, dict):
        return "dict"
    return "other"


def json_paths(v: Any, pre: Tuple[Any, ...] = ()) -> Iterator[Tuple[Tuple[Any, ...], Any]]:
    """Every key path below v (not v itself); arrays: first and last element."""
    if isinstance(v, dict):
        for k in v:
            yield pre + (k,), v[k]
            yield from json_paths(v[k], pre + (k,))
    elif isinstance(v, list) and v:
        for i in sorted({0, len(v) - 1}):
            yield pre + (i,), v[i]
            yield from json_paths(v[i], pre + (i,))


def is_focus(path: Sequence[Any]) -> bool:
    last = [p for p in path if isinstance(p, str)][-1:]
    return bool(last) and last[0] in FOCUS


def json_ops(doc: Any, full: bool, rng: random.Random) -> List[Dict[str, Any]]:
    """The structured-damage operations on `doc`.  full=False: every operation on the FOCUS paths, and on every other path
    drop + null + one retype chosen by `rng` (+ empty)."""
    ops: List[Dict[str, Any]] = []
    for path, v in json_paths(doc):
        p = list(path)
        if isinstance(path[-1], str):
            ops.append({"op": "drop", "path": p})
        else:
            ops.append({"op": "drop-item", "path": p})
        if v is not None:
            ops.append({"op": "null", "path": p})
        reps = [(t, r) for t, r in REPS if t != jtype(v)]
        if not (full or is_focus(path)):
            reps = [reps[rng.randrange(len(reps))]]
        for _t, r in reps:
            ops.append({"op": "retype", "path": p, "value": copy.deepcopy(r)})
        if isinstance(v, (list, dict, str)) and len(v) > 0:
            ops.append({"op": "empty", "path": p})
    return ops


def apply_json_op(doc: Any, op: Dict[str, Any]) -> Any:
    d = copy.deepcopy(doc)
    cur = d
    for k in op["path"][:-1]:
        cur = cur[k]
    k = op["path"][-1]
    if op["op"] in ("drop", "drop-item"):
        del cur[k]
    elif op["op"] == "null":
        cur[k] = None
    elif op["op"] == "retype":
        cur[k] = copy.deepcopy(op["value"])
    elif op["op"] == "empty":
        cur[k] = type(cur[k])()
    else:
        raise ValueError(op)
    return d


def dangling_current(doc: Any) -> bool:
    """A table-metadata document that contradicts itself: its current_snapshot_id is set (not null, not -1 = "no snapshot
    yet") and is the snapshot_id of none of the snapshots it lists.  Independent of datashard."""
    if not isinstance(doc, dict) or "current_snapshot_id" not in doc or not isinstance(doc.get("snapshots"), list):
        return False
    cur = doc["current_snapshot_id"]
    if cur is None or cur == -1:
        return False
    return not any(isinstance(sn, dict) and "snapshot_id" in sn and sn["snapshot_id"] == cur for sn in doc["snapshots"])


def op_label(op: Dict[str, Any]) -> str:
    lab = op["op"]
    if lab == "drop-item":
        lab += ":first" if op["path"][-1] == 0 else ":last"
    if lab == "retype":
        v = op["value"]
        lab += "-to-" + (("empty-" if v in ("", [], {}) else "") + jtype(v) + (f"-{json.dumps(v)}" if jtype(v) in ("num", "bool") else ""))
    if op.get("which") == "last":
        lab += ":last-record"
    return lab


def path_label(path: Sequence[Any]) -> str:
    """The path with array indices blanked (stable across rebuilds of the same table)."""
    return "/".join("*" if isinstance(p, int) else str(p) for p in path)


# ------------------------------------------------------------------------------------------ Avro containers
AVRO_REPS: List[Tuple[Any, Any]] = [("long", 0), ("long", 7), ("boolean", False), ("string", ""), ("string", "x"),
                                    ({"type": "array", "items": "long"}, []), ({"type": "array", "items": "long"}, [1]),
                                    ({"type": "map", "values": "long"}, {}), ({"type": "map", "values": "long"}, {"a": 1})]


def avro_load(bs: bytes) -> Tuple[Dict[str, Any], List[Dict[str, Any]]]:
    rd = fastavro.reader(io.BytesIO(bs))
    recs = list(rd)
    return json.loads(json.dumps(rd.writer_schema)), recs


def _base_kind(t: Any) -> str:
    if isinstance(t, list):
        ks = [_base_kind(x) for x in t if x != "null"]
        return ks[0] if ks else "null"
    if isinstance(t, dict):
        return {"array": "array", "map": "map", "record": "record"}.get(t.get("type"), str(t.get("type")))
    return {"int": "long", "long": "long", "float": "double", "double": "double"}.get(t, str(t))


def avro_field_paths(schema: Dict[str, Any], pre: Tuple[str, ...] = ()) -> Iterator[Tuple[Tuple[str, ...], Dict[str, Any]]]:
    for f in schema["fields"]:
        p = pre + (f["name"],)
        yield p, f
        t = f["type"]
        if isinstance(t, dict) and t.get("type") == "record":
            yield from avro_field_paths(t, p)


def _find(schema: Dict[str, Any], path: Sequence[str]) -> Tuple[Dict[str, Any], Dict[str, Any]]:
    s = schema
    for i, k in enumerate(path):
        f = next(x for x in s["fields"] if x["name"] == k)
        if i == len(path) - 1:
            return s, f
        s = f["type"]
    raise KeyError(path)


def _holder(rec: Dict[str, Any], path: Sequence[str]) -> Dict[str, Any]:
    for k in path[:-1]:
        rec = rec[k]
    return rec


def avro_ops(schema: Dict[str, Any], recs: List[Dict[str, Any]], full: bool, rng: random.Random) -> List[Dict[str, Any]]:
    ops: List[Dict[str, Any]] = [{"op": "zero-records", "path": []}]
    for path, f in avro_field_paths(schema):
        p = list(path)
        ops.append({"op": "drop", "path": p})
        ops.append({"op": "null", "path": p, "which": "all"})
        if len(recs) >= 2:
            ops.append({"op": "null", "path": p, "which": "last"})
        reps = [i for i, (t, _v) in enumerate(AVRO_REPS) if _base_kind(t) != _base_kind(f["type"])]
        if not (full or is_focus(path)):
            reps = [reps[rng.randrange(len(reps))]]
        for i in reps:
            ops.append({"op": "retype", "path": p, "rep": i, "value": AVRO_REPS[i][1]})
        if _base_kind(f["type"]) == "string":
            ops.append({"op": "empty", "path": p})
    return ops


def apply_avro_op(schema: Dict[str, Any], recs: List[Dict[str, Any]], op: Dict[str, Any]) -> Optional[bytes]:
    """The container with the operation applied, or None when such a container cannot be written."""
    s2, r2 = copy.deepcopy(schema), copy.deepcopy(recs)
    path = op["path"]
    if op["op"] == "zero-records":
        r2 = []
    else:
        parent, fld = _find(s2, path)
        which = r2[-1:] if op.get("which") == "last" else r2
        if op["op"] == "drop":
            parent["fields"].remove(fld)
            for r in r2:
                _holder(r, path).pop(path[-1], None)
        elif op["op"] == "null":
            if not (isinstance(fld["type"], list) and "null" in fld["type"]):
                fld["type"] = ["null"] + (fld["type"] if isinstance(fld["type"], list) else [fld["type"]])
            fld.pop("default", None)
            for r in which:
                _holder(r, path)[path[-1]] = None
        elif op["op"] == "retype":
            fld["type"] = copy.deepcopy(AVRO_REPS[op["rep"]][0])
            fld.pop("default", None)
            for r in r2:
                _holder(r, path)[path[-1]] = copy.deepcopy(AVRO_REPS[op["rep"]][1])
        elif op["op"] == "empty":
            for r in r2:
                _holder(r, path)[path[-1]] = ""
        else:
            raise ValueError(op)
    bio = io.BytesIO()
    try:
        fastavro.writer(bio, fastavro.parse_schema(s2), r2)
    except Exception:  # noqa: BLE001 - e.g. a record type emptied of its last field
        return None
    return bio.getvalue()


# ------------------------------------------------------------------------------------------ legacy JSON format
def to_legacy_json(kind: str, recs: List[Dict[str, Any]]) -> bytes:
    """A manifest list / manifest in the legacy JSON format the readers still accept (FileManager's JSON fallback)."""
    if kind == "list":
        keys = ("manifest_path", "manifest_length", "partition_spec_id", "added_snapshot_id", "added_data_files_count",
                "existing_data_files_count", "deleted_data_files_count", "content")
        return json.dumps({"manifests": [{k: r[k] for k in keys} for r in recs]}).encode()
    files = []
    for r in recs:
        d = r["data_file"]
        files.append({"file_path": d["file_path"], "file_format": d["file_format"], "partition_values": d["partition"]["values"],
                      "record_count": d["record_count"], "file_size_in_bytes": d["file_size_in_bytes"], "checksum": d.get("checksum")})
    return json.dumps({"files": files}).encode()


# ------------------------------------------------------------------------------------------ coq/Model/Doc.v terms
def _coq_str(s: str) -> str:
    from harness.lib.coqio import coq_string
    return coq_string(s)


def jv(v: Any) -> str:
    """A JSON value (as json.loads / fastavro hand it to the library) as a term of Model/Doc.v `jv`."""
    if v is None:
        return "JNull"
    if isinstance(v, bool):
        return "(JBool true)" if v else "(JBool false)"
    if isinstance(v, int):
        return f"(JNum ({v})%Z)"
    if isinstance(v, float):
        return f"(JNum ({int(v)})%Z)" if v == int(v) else "(JOther)"
    if isinstance(v, str):
        return f"(JStr {_coq_str(v)})"
    if isinstance(v, (list, tuple)):
        return "(JArr [" + "; ".join(jv(x) for x in v) + "])"
    if isinstance(v, dict):
        return "(JObj [" + "; ".join(f"({_coq_str(str(k))}, {jv(x)})" for k, x in v.items()) + "])"
    return "(JOther)"
