"""Process topologies for the cooperative scheduler (harness/lib/sched.py).

The actors of sched.Scheduler are threads of ONE process.  What a lock on the local filesystem means depends on the
process a handle lives in (a BSD flock belongs to the open file description; a POSIX record lock belongs to the process
and is dropped when the process closes ANY descriptor of the file), so "separate handles" and "separate processes" are
different writers (property C01 names both).  Here a case places its actors in OS processes:

    case["procs"] = [[0, 1], [2]]     actor indices per process; process 0 is the harness process itself, every
                                      other group runs in a worker process (fresh interpreter, multiprocessing 'spawn')

The schedule stays ONE deterministic sequence of actor names at the same yield points as in-process runs: a worker hosts
a sched.Scheduler of its own for its actors, with the library patched exactly as in the harness process; the parent's
ProcScheduler steps a remote actor by one request over a pipe ("run actor X to its next yield point"), receives the
storage-log entries and lock-layer entries that step produced and the states of the worker's actors, and merges them into
its own log in execution order.  The virtual clock is the parent's (sent with every step).  Blocking on the metadata lock
and its release cross the process boundary through the log (`LockRel` seen in a worker's entries unblocks everybody).

`run_case` mirrors protocol.run_case for the local backend (same template table, same CaseResult), so the same oracles,
projections and choosers apply to its results.
"""
from __future__ import annotations

import multiprocessing as mp
import os
import shutil
from typing import Any, Callable, Dict, List, Optional, Tuple

from . import protocol as P
from . import sched as S

STEP_TIMEOUT_S = 90.0


# ------------------------------------------------------------------------------------------------- worker side
def _states(sc: S.Scheduler) -> Dict[str, Dict[str, Any]]:
    out = {}
    for n, a in sc.actors.items():
        st: Dict[str, Any] = {"state": a.state, "pending": a.pending, "blocked_on": a.blocked_on}
        if a.state == "done":
            if a.error is not None:
                st["error"] = (type(a.error).__name__, str(a.error)[:300])
            else:
                st["result"] = a.result if isinstance(a.result, (str, int, float, bool, type(None), list, tuple)) else repr(a.result)
        out[n] = st
    return out


def _clean(entries: List[dict]) -> List[dict]:
    out = []
    for e in entries:
        e = dict(e)
        e.pop("after_exc", None)
        out.append(e)
    return out


def worker_main(conn: Any) -> None:
    """Serve cases until told to quit.  One case at a time: ("case", ...) ("step", ...)* ("end",)."""
    import contextlib
    import logging
    logging.disable(logging.ERROR)
    sc: Optional[S.Scheduler] = None
    stack: Optional[contextlib.ExitStack] = None
    pending: List[int] = []         # indices of entries shipped before their operation had returned (actor parked inside it)
    while True:
        try:
            msg = conn.recv()
        except (EOFError, OSError):
            break
        cmd = msg[0]
        try:
            if cmd == "quit":
                break
            if cmd == "case":
                _c, root, specs, shared, clock_ms, fine_locks, lock_mode = msg
                import datashard
                from datashard.storage_backend import LocalStorageBackend
                sc = S.Scheduler()
                sc.fine_locks = fine_locks                       # type: ignore[attr-defined]
                sc.yield_filter = P.protocol_yield_filter
                sc.clock_ms = clock_ms
                P._CURRENT[0] = sc
                the_sc = sc

                def factory(tp: str) -> Any:
                    return S.instrument_backend(the_sc, LocalStorageBackend(tp), lock_mode=lock_mode)
                stack = contextlib.ExitStack()
                stack.enter_context(S.patched(sc, factory, shared_rlock=True))
                pending = []
                shared_table = datashard.load_table(root) if shared else None
                for name, op, style in specs:
                    sc.spawn(name, P.make_actor(root, op, shared_table, style))
                conn.send(("ok", _states(sc), os.getpid()))
            elif cmd == "step":
                _c, name, clock_ms = msg
                assert sc is not None
                sc.clock_ms = clock_ms
                a = sc.actors[name]
                if a.state == "blocked":
                    a.state = "parked"          # the parent saw what it waits for being released (possibly in another process)
                n0, l0 = len(sc.log), len(sc.locklog)
                try:
                    sc.step(name)
                except S.Deadlock as e:
                    conn.send(("deadlock", str(e)))
                    continue
                # entries shipped earlier whose operation has returned meanwhile (an actor parked INSIDE an operation, e.g. at
                # the flock inside a lock attempt): their final content is sent again, by index
                updates = [(i, _clean([sc.log[i]])[0]) for i in pending if sc.log[i].get("result") is not None]
                pending = [i for i in pending if sc.log[i].get("result") is None] + \
                          [i for i in range(n0, len(sc.log)) if sc.log[i].get("result") is None]
                conn.send(("ok", _clean(sc.log[n0:]), list(sc.locklog[l0:]), _states(sc), n0, updates))
            elif cmd == "end":
                if sc is not None:
                    sc.kill_remaining()
                if stack is not None:
                    stack.close()
                sc, stack = None, None
                conn.send(("ok",))
            else:
                conn.send(("error", f"unknown command {cmd!r}"))
        except BaseException as e:      # noqa: BLE001 - reported to the parent, which treats it as a harness failure
            import traceback
            try:
                conn.send(("error", traceback.format_exc()[-1500:] or repr(e)))
            except Exception:           # noqa: BLE001
                break


class WorkerDied(Exception):
    pass


class Worker:
    def __init__(self, index: int):
        self.index = index
        ctx = mp.get_context("spawn")
        self.conn, child = ctx.Pipe()
        self.process = ctx.Process(target=worker_main, args=(child,), name=f"procsched-worker-{index}", daemon=True)
        self.process.start()
        child.close()
        self.pid: Optional[int] = None

    def call(self, msg: tuple, timeout: float = STEP_TIMEOUT_S) -> tuple:
        try:
            self.conn.send(msg)
            if not self.conn.poll(timeout):
                raise S.Deadlock(f"worker process {self.index} did not answer {msg[0]!r} within {timeout:.0f}s")
            r = self.conn.recv()
        except (EOFError, OSError, BrokenPipeError) as e:
            raise WorkerDied(f"worker process {self.index} died during {msg[0]!r}: {e!r}")
        if r[0] == "error":
            raise WorkerDied(f"worker process {self.index} failed during {msg[0]!r}: {r[1]}")
        return r

    def alive(self) -> bool:
        return self.process.is_alive()

    def stop(self) -> None:
        try:
            self.conn.send(("quit",))
        except Exception:       # noqa: BLE001
            pass
        self.process.join(2)
        if self.process.is_alive():
            self.process.kill()
            self.process.join(2)


class Pool:
    """Worker processes, started on demand and reused from case to case (a case's lock file is its own: nothing a
    process holds survives the case)."""

    def __init__(self) -> None:
        self.workers: List[Worker] = []

    def get(self, n: int) -> List[Worker]:
        self.workers = [w for w in self.workers if w.alive()]
        while len(self.workers) < n:
            self.workers.append(Worker(len(self.workers)))
        return self.workers[:n]

    def discard(self, w: Worker) -> None:
        w.stop()
        self.workers = [x for x in self.workers if x is not w]

    def close(self) -> None:
        for w in self.workers:
            w.stop()
        self.workers = []


# ------------------------------------------------------------------------------------------------- parent side
class RemoteError(Exception):
    """What an actor in a worker process raised (type name kept for the outcome)."""

    def __init__(self, tname: str, text: str):
        super().__init__(text)
        self.tname = tname


class ProcScheduler(S.Scheduler):
    def __init__(self) -> None:
        super().__init__()
        self.remote: Dict[str, Worker] = {}
        self.shipped: Dict[int, Dict[int, dict]] = {}      # per worker: its log index -> the entry object in self.log

    def spawn_remote(self, name: str, worker: Worker, st: Dict[str, Any]) -> S.Actor:
        a = S.Actor(name, lambda: None)
        self.actors[name] = a
        self.order.append(name)
        self.remote[name] = worker
        a.state = st["state"]
        a.pending = st["pending"]
        return a

    def step(self, name: str) -> None:
        w = self.remote.get(name)
        if w is None:
            return super().step(name)
        a = self.actors[name]
        if a.state != "parked":
            raise ValueError(f"actor {name} not enabled (state {a.state})")
        a.state = "running"
        r = w.call(("step", name, self.clock_ms))
        if r[0] == "deadlock":
            raise S.Deadlock(r[1])
        _ok, entries, lockentries, states, n0, updates = r
        mine = self.shipped.setdefault(id(w), {})
        for i, new in updates:
            mine[i].update(new)                  # same dict object as in self.log: completed in place
        for k, e in enumerate(entries):
            mine[n0 + k] = e
        self.log.extend(entries)
        self.locklog.extend(lockentries)
        a.trace.extend((e["op"], e["path"]) for e in entries)
        for n, st in states.items():
            b = self.actors[n]
            if n != name and not (b.state == "blocked" and st["state"] == "parked"):
                continue                         # other actors of that process: only "what it waited for was released there"
            b.state, b.pending, b.blocked_on = st["state"], st["pending"], st["blocked_on"]
            if st["state"] == "done":
                b.result = st.get("result")
                b.error = RemoteError(*st["error"]) if "error" in st else None
        for e in entries:
            if e["op"] == "LockRel":
                self.unblock_all(e["path"])
        if self.step_hook:
            self.step_hook(a)


    def kill_worker(self, w: Worker) -> None:
        """SIGKILL a worker process: no handler of its actors runs, the kernel closes its descriptors (and with them drops
        whatever lock one of its handles held).  Its actors end as killed; everybody waiting for a lock looks again."""
        pid = w.pid
        w.process.kill()
        w.process.join(10)
        entry = {"actor": None, "pid": pid, "handle": None, "prim": "kill", "fd": None, "ok": True, "known": True}
        self.locklog.append(entry)
        for n, ww in self.remote.items():
            if ww is w:
                a = self.actors[n]
                if a.state != "done":
                    self.log.append({"actor": n, "op": "ProcessKilled", "path": "", "phase": (), "clock": self.clock_ms, "result": None})
                    a.state = "done"
                    a.pending = None
                    a.error = RemoteError("ProcessKilled", f"process {pid} was killed")
        for a in self.actors.values():
            if a.state == "blocked":
                a.state = "parked"


def groups_of(case: Dict[str, Any]) -> List[List[int]]:
    n = len(case["ops"])
    procs = [list(g) for g in (case.get("procs") or [list(range(n))])]
    if sorted(i for g in procs for i in g) != list(range(n)):
        raise ValueError(f"procs {procs} is not a partition of the {n} actors")
    return procs


def proc_of(case: Dict[str, Any]) -> Dict[str, int]:
    return {f"A{i}": k for k, g in enumerate(groups_of(case)) for i in g}


def run_case(scratch: str, case: Dict[str, Any], chooser_factory: Callable[[S.Scheduler], Callable], pool: Pool,
             tag: str = "p", kill: Optional[Dict[str, Any]] = None) -> P.CaseResult:
    """protocol.run_case for the local backend with the actors placed in processes (case['procs']).
    kill = {"actor": name, "when": pred(op, path)}: that actor is run until it is parked before an operation matching
    `when`; then its (worker) process is killed, and the schedule goes on with the others."""
    import datashard
    from datashard.data_structures import Schema
    from datashard.storage_backend import LocalStorageBackend

    if case.get("backend", "local") != "local":
        raise ValueError("process topologies are a local-filesystem matter (object-store locks are objects, not kernel state)")
    root = os.path.join(scratch, tag)
    shutil.rmtree(root, ignore_errors=True)
    res = P.CaseResult()
    sc = ProcScheduler()
    sc.fine_locks = "all" if case.get("fine_locks") == "all" else bool(case.get("fine_locks", False))      # type: ignore[attr-defined]
    P._CURRENT[0] = sc
    sc.yield_filter = P.protocol_yield_filter
    lock_mode = case.get("lock", "real")
    clock = case.get("clock", "tick")
    nsnap = case.get("initial_snapshots", 2)
    shared = case.get("topology", "separate") == "shared"
    groups = groups_of(case)
    workers = pool.get(len(groups) - 1)
    schema = Schema(schema_id=1, fields=[{"id": 1, "name": "x", "type": "long", "required": False}])

    def factory(tp: str) -> Any:
        return S.instrument_backend(sc, LocalStorageBackend(tp), lock_mode=lock_mode)

    template = os.path.join(scratch, f"template-local-{nsnap}")
    started: List[Worker] = []
    with S.patched(sc, factory, shared_rlock=True):
        if not os.path.exists(template):
            t0 = datashard.create_table(template, schema)
            for i in range(nsnap):
                sc.clock_ms += 10
                t0.append_records([{"x": -(i + 1)}])
        shutil.copytree(template, root)
        sc.clock_ms = 1_700_000_000_000 + 10 * nsnap + (0 if clock == "frozen" else 10)
        sc.log.clear()
        sc.locklog.clear()
        res.initial = P.read_table_independent(root)
        ops = []
        for op in case["ops"]:
            op = dict(op)
            if op["kind"] == "delete_snapshot":
                order = res.initial["log_order"]
                op["id"] = {"old": order[0], "current": res.initial["current"]}.get(op.get("which"), op.get("id"))
            ops.append(op)
        try:
            # actors are registered in index order whatever process they live in (choosers' "first enabled" is A0 < A1 < ...)
            remote_states: Dict[str, Dict[str, Any]] = {}
            for k, g in enumerate(groups[1:]):
                w = workers[k]
                r = w.call(("case", root, [(f"A{i}", ops[i], ops[i].get("style", "with")) for i in g], shared, sc.clock_ms,
                            sc.fine_locks, lock_mode))      # type: ignore[attr-defined]
                started.append(w)
                w.pid = r[2]
                for n, st in r[1].items():
                    remote_states[n] = (w, st)              # type: ignore[assignment]
            shared_table = datashard.load_table(root) if (shared and groups[0]) else None
            for i in range(len(ops)):
                name = f"A{i}"
                if name in remote_states:
                    w, st = remote_states[name]             # type: ignore[misc]
                    sc.spawn_remote(name, w, st)
                else:
                    sc.spawn(name, P.make_actor(root, ops[i], shared_table, ops[i].get("style", "with")))
            nsteps = [0]

            def hook(_a: S.Actor) -> None:
                nsteps[0] += 1
                if clock == "tick":
                    sc.clock_ms += 1
                elif clock == "coarse" and nsteps[0] % 7 == 0:
                    sc.clock_ms += 1
            sc.step_hook = hook
            chooser = chooser_factory(sc)
            killed = [kill is None]

            def recording(enabled: List[str], s: S.Scheduler) -> Optional[str]:
                if not killed[0]:
                    ka = kill["actor"]                      # type: ignore[index]
                    if ka in enabled:
                        op, path = s.actors[ka].pending or ("", "")
                        if not kill["when"](op, path):      # type: ignore[index]
                            res.enabled_at.append(list(enabled))
                            return ka
                        w = sc.remote[ka]
                        sc.kill_worker(w)
                        started.remove(w)
                        pool.discard(w)
                        enabled = s.enabled()
                    killed[0] = True
                    if not enabled:
                        return None
                res.enabled_at.append(list(enabled))
                return chooser(enabled, s)
            try:
                res.schedule = sc.run(recording)
            except S.Deadlock as e:
                res.deadlock = str(e)
                sc.kill_remaining()
        except WorkerDied as e:
            res.deadlock = "harness: " + str(e)
            sc.kill_remaining()
            for w in started:
                pool.discard(w)
            started = []
        finally:
            for w in started:
                try:
                    w.call(("end",), timeout=20)
                except (WorkerDied, S.Deadlock):
                    pool.discard(w)
        res.log = sc.log
        res.locklog = list(sc.locklog)                    # type: ignore[attr-defined]
        res.pids = {0: os.getpid(), **{k + 1: w.pid for k, w in enumerate(workers[:len(groups) - 1])}}   # type: ignore[attr-defined]
        for name, a in sc.actors.items():
            if a.error is not None:
                tname = a.error.tname if isinstance(a.error, RemoteError) else type(a.error).__name__
                res.outcomes[name] = ("raised", tname + ": " + str(a.error)[:120])
            else:
                res.outcomes[name] = ("ok", str(a.result))
        try:
            res.final = P.read_table_independent(root)
        except Exception as e:      # noqa: BLE001 - an unreadable final table is itself an oracle failure
            res.final = {"error": repr(e)[:300]}
    return res
