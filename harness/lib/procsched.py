"""Process topologies for the cooperative scheduler (harness/lib/sched.py).

The actors of sched.Scheduler are threads of ONE process.  What a lock on the local filesystem means depends on the
process a handle lives in (a BSD flock belongs to the open file description; a POSIX record lock belongs to the process
and is dropped when the process closes ANY descriptor of the file), so "separate handles" and "separate processes" are
different writers (property C01 names both).  Here a case places its actors in OS processes:

    case["procs"] = [[0, 1], [2]]     actor indices per process; process 0 is the harness process itself, every
                                      other group runs in a worker process (fresh interpreter, multiprocessing 'spawn')

The schedule stays ONE deterministic sequence of actor names at the same yield points as in-process runs: a worker hosts
a sched.Scheduler of its own for its actors, with the library patched exactly as in the harness process; the parent's
ProcScheduler steps a remote actor by one request over a pipe ("run actor X to its next yield point"), receives the
storage-log entries and lock-layer entries that step produced and the states of the worker's actors, and merges them into
its own log in execution order.  The virtual clock is the parent's (sent with every step).  Blocking on the metadata lock
and its release cross the process boundary through the log (`LockRel` seen in a worker's entries unblocks everybody).

PROCESS FAMILIES (case["fork"]).  The workers above are SPAWNED: fresh interpreters that open their own table handles.
The other way a second writer process comes into being is fork(): a parent process opens the table, USES it (its
handle has taken and released the metadata lock at least once), then forks workers which go on using the handle they
INHERITED -- multiprocessing's 'fork' start method, a pre-forking server.  What a forked worker inherits is the handle
object AND every descriptor the parent had open at that moment: parent and child then share the open file description
behind it (Model/ProcLock.v `LFork`), and an flock belongs to the description.

    case["fork"] = {"root": [0], "children": [[1], [2]], "handles": "shared"}
                                      the family's parent process runs actor 0; it forks two workers (after the handles
                                      were used once, before any actor starts) running actors 1 and 2.  "shared": one
                                      table handle opened by the parent, used by every actor of the family (in the
                                      process it lives in: the original or an inherited copy; actors of one process are
                                      threads sharing it).  "own": one handle per actor, all opened and used by the
                                      parent before the fork.
A clean fork-server process (spawned once, never runs library code that starts threads) forks the family's parent for each
case; the parent forks the workers; requests are relayed down the family's pipes, so the harness still steps one actor
at a time and merges one log.  The lock-layer trace carries the parent's lock-file primitives before the fork (actor
"setup") and one `fork` entry per worker.

`run_case` mirrors protocol.run_case for the local backend (same template table, same CaseResult), so the same oracles,
projections and choosers apply to its results.
"""
from __future__ import annotations

import multiprocessing as mp
import os
import shutil
from typing import Any, Callable, Dict, List, Optional, Tuple

from . import protocol as P
from . import sched as S

STEP_TIMEOUT_S = 90.0


# ------------------------------------------------------------------------------------------------- worker side
def _states(sc: S.Scheduler) -> Dict[str, Dict[str, Any]]:
    out = {}
    for n, a in sc.actors.items():
        st: Dict[str, Any] = {"state": a.state, "pending": a.pending, "blocked_on": a.blocked_on}
        if a.state == "done":
            if a.error is not None:
                st["error"] = (type(a.error).__name__, str(a.error)[:300])
            else:
                st["result"] = a.result if isinstance(a.result, (str, int, float, bool, type(None), list, tuple)) else repr(a.result)
        out[n] = st
    return out


def _clean(entries: List[dict]) -> List[dict]:
    out = []
    for e in entries:
        e = dict(e)
        e.pop("after_exc", None)
        out.append(e)
    return out


def worker_main(conn: Any) -> None:
    """Serve cases until told to quit.  One case at a time: ("case", ...) ("step", ...)* ("end",)."""
    import contextlib
    import logging
    logging.disable(logging.ERROR)
    sc: Optional[S.Scheduler] = None
    stack: Optional[contextlib.ExitStack] = None
    pending: List[int] = []         # indices of entries shipped before their operation had returned (actor parked inside it)
    while True:
        try:
            msg = conn.recv()
        except (EOFError, OSError):
            break
        cmd = msg[0]
        try:
            if cmd == "quit":
                break
            if cmd == "case":
                _c, root, specs, shared, clock_ms, fine_locks, lock_mode = msg
                import datashard
                from datashard.storage_backend import LocalStorageBackend
                sc = S.Scheduler()
                sc.fine_locks = fine_locks                       # type: ignore[attr-defined]
                sc.yield_filter = P.protocol_yield_filter
                sc.clock_ms = clock_ms
                P._CURRENT[0] = sc
                the_sc = sc

                def factory(tp: str) -> Any:
                    return S.instrument_backend(the_sc, LocalStorageBackend(tp), lock_mode=lock_mode)
                stack = contextlib.ExitStack()
                stack.enter_context(S.patched(sc, factory, shared_rlock=True))
                pending = []
                shared_table = datashard.load_table(root) if shared else None
                for name, op, style in specs:
                    sc.spawn(name, P.make_actor(root, op, shared_table, style))
                conn.send(("ok", _states(sc), os.getpid()))
            elif cmd == "step":
                _c, name, clock_ms = msg
                assert sc is not None
                conn.send(_serve_step(sc, pending, name, clock_ms))
            elif cmd == "fcase":
                _family_relay(conn, msg)
            elif cmd == "end":
                if sc is not None:
                    sc.kill_remaining()
                if stack is not None:
                    stack.close()
                sc, stack = None, None
                conn.send(("ok",))
            else:
                conn.send(("error", f"unknown command {cmd!r}"))
        except BaseException as e:      # noqa: BLE001 - reported to the parent, which treats it as a harness failure
            import traceback
            try:
                conn.send(("error", traceback.format_exc()[-1500:] or repr(e)))
            except Exception:           # noqa: BLE001
                break



def _serve_step(sc: S.Scheduler, pending: List[int], name: str, clock_ms: int) -> tuple:
    """Run actor `name` of this process to its next yield point; the reply carries what that step logged."""
    sc.clock_ms = clock_ms
    a = sc.actors[name]
    if a.state == "blocked":
        a.state = "parked"          # the parent saw what it waits for being released (possibly in another process)
    n0, l0 = len(sc.log), len(sc.locklog)
    try:
        sc.step(name)
    except S.Deadlock as e:
        return ("deadlock", str(e))
    # entries shipped earlier whose operation has returned meanwhile (an actor parked INSIDE an operation, e.g. at
    # the flock inside a lock attempt): their final content is sent again, by index
    updates = [(i, _clean([sc.log[i]])[0]) for i in pending if sc.log[i].get("result") is not None]
    pending[:] = [i for i in pending if sc.log[i].get("result") is None] + \
                 [i for i in range(n0, len(sc.log)) if sc.log[i].get("result") is None]
    return ("ok", _clean(sc.log[n0:]), list(sc.locklog[l0:]), _states(sc), n0, updates, os.getpid())


# ---- process families: a parent that has used its table handle forks workers which inherit it
def _recv(c: Any, timeout: float, what: str) -> tuple:
    if not c.poll(timeout):
        raise S.Deadlock(f"{what}: no answer within {timeout:.0f}s")
    return c.recv()


def _family_relay(conn: Any, msg: tuple) -> None:
    """Fork-server side: fork the family's parent process for this case and relay the harness's requests to it until the
    case ends.  This process itself stays as it was (single-threaded)."""
    pconn, cconn = mp.Pipe()
    pid = os.fork()
    if pid == 0:
        code = 0
        try:
            pconn.close()
            conn.close()
            _family_root_main(cconn, msg)
        except BaseException:       # noqa: BLE001
            code = 1
        finally:
            os._exit(code)
    cconn.close()
    try:
        m = msg
        while True:
            try:
                r = _recv(pconn, STEP_TIMEOUT_S, f"family parent process {pid}")
            except (EOFError, OSError) as e:
                r = ("error", f"family parent process {pid} died: {e!r}")
            except S.Deadlock as e:
                r = ("error", str(e))
            conn.send(r)
            if m[0] == "end" or r[0] == "error":
                break
            m = conn.recv()
            pconn.send(m)
    finally:
        pconn.close()
        try:
            os.kill(pid, 9)
        except OSError:
            pass
        try:
            os.waitpid(pid, 0)
        except OSError:
            pass


def _family_root_main(conn: Any, msg: tuple) -> None:
    """The family's parent process (forked from the fork server for one case): opens the table handle(s), uses each once
    (a metadata-only commit: the metadata lock is taken and released), forks the workers, then serves its own actors and
    relays the requests for its workers' actors."""
    import contextlib
    import warnings
    warnings.filterwarnings("ignore", category=DeprecationWarning)
    _c, root, handles_mode, names, clock_ms, fine_locks, lock_mode = msg
    import datashard
    from datashard.storage_backend import LocalStorageBackend
    sc = S.Scheduler()
    sc.fine_locks = fine_locks                       # type: ignore[attr-defined]
    sc.log_setup_locks = True                        # type: ignore[attr-defined]
    sc.yield_filter = P.protocol_yield_filter
    sc.clock_ms = clock_ms
    P._CURRENT[0] = sc

    def factory(tp: str) -> Any:
        return S.instrument_backend(sc, LocalStorageBackend(tp), lock_mode=lock_mode)
    stack = contextlib.ExitStack()
    stack.enter_context(S.patched(sc, factory, shared_rlock=True))
    keys = ["*"] if handles_mode == "shared" else list(names)
    handles: Dict[str, Any] = {}
    for k in keys:
        t = datashard.load_table(root)
        with t.new_transaction() as tx:          # the handle is USED before the fork: one metadata-only commit
            tx.expire_snapshots(0)
            tx.commit()
        handles[k] = t
    sc.log.clear()
    conn.send(("ok", list(sc.locklog), os.getpid()))
    shipped_locks = len(sc.locklog)
    pending: List[int] = []
    children: List[Tuple[int, Any]] = []
    child_of: Dict[str, Any] = {}
    while True:
        try:
            m = conn.recv()
        except (EOFError, OSError):
            break
        try:
            if m[0] == "fgo":
                _c, root_specs, child_specs, clock_ms = m
                sc.clock_ms = clock_ms
                states: Dict[str, Dict[str, Any]] = {}
                pids: List[int] = []
                for specs in child_specs:
                    pc, cc = mp.Pipe()
                    cpid = os.fork()
                    if cpid == 0:
                        code = 0
                        try:
                            pc.close()
                            conn.close()
                            for _p, oc in children:
                                oc.close()
                            _family_child_main(cc, sc, root, specs, handles)
                        except BaseException:       # noqa: BLE001
                            code = 1
                        finally:
                            os._exit(code)
                    cc.close()
                    sc.locklog.append({"actor": None, "pid": os.getpid(), "handle": None, "prim": "fork", "child": cpid,
                                       "fd": None, "ok": True, "known": True})
                    r = _recv(pc, STEP_TIMEOUT_S, f"forked worker {cpid}")
                    children.append((cpid, pc))
                    pids.append(cpid)
                    for n, st in r[1].items():
                        states[n] = st
                        child_of[n] = pc
                for name, op, style in root_specs:
                    sc.spawn(name, P.make_actor(root, op, handles.get("*", handles.get(name)), style))
                states.update(_states(sc))
                conn.send(("ok", states, list(sc.locklog[shipped_locks:]), pids))
                shipped_locks = len(sc.locklog)
            elif m[0] == "step":
                _c, name, clock_ms = m
                if name in child_of:
                    child_of[name].send(m)
                    conn.send(_recv(child_of[name], STEP_TIMEOUT_S, f"forked worker running {name}"))
                else:
                    conn.send(_serve_step(sc, pending, name, clock_ms))
            elif m[0] == "end":
                for cpid, pc in children:
                    try:
                        pc.send(("end",))
                        pc.close()
                    except Exception:       # noqa: BLE001
                        pass
                for cpid, _pc in children:
                    try:
                        os.waitpid(cpid, 0)
                    except OSError:
                        pass
                conn.send(("ok",))
                return
            else:
                conn.send(("error", f"unknown family command {m[0]!r}"))
        except BaseException as e:      # noqa: BLE001
            import traceback
            try:
                conn.send(("error", traceback.format_exc()[-1500:] or repr(e)))
            except Exception:           # noqa: BLE001
                return


def _family_child_main(conn: Any, sc: S.Scheduler, root: str, specs: List[tuple], handles: Dict[str, Any]) -> None:
    """A forked worker: the scheduler object, the patched library and the table handles are the copies fork() made; its
    actors run on the INHERITED handles."""
    pending: List[int] = []
    for name, op, style in specs:
        sc.spawn(name, P.make_actor(root, op, handles.get("*", handles.get(name)), style))
    conn.send(("ok", _states(sc), os.getpid()))
    while True:
        try:
            m = conn.recv()
        except (EOFError, OSError):
            return
        if m[0] == "step":
            try:
                conn.send(_serve_step(sc, pending, m[1], m[2]))
            except BaseException as e:      # noqa: BLE001
                import traceback
                conn.send(("error", traceback.format_exc()[-1500:] or repr(e)))
        else:
            return


class WorkerDied(Exception):
    pass


class Worker:
    def __init__(self, index: int):
        self.index = index
        ctx = mp.get_context("spawn")
        self.conn, child = ctx.Pipe()
        self.process = ctx.Process(target=worker_main, args=(child,), name=f"procsched-worker-{index}", daemon=True)
        self.process.start()
        child.close()
        self.pid: Optional[int] = None

    def call(self, msg: tuple, timeout: float = STEP_TIMEOUT_S) -> tuple:
        try:
            self.conn.send(msg)
            if not self.conn.poll(timeout):
                raise S.Deadlock(f"worker process {self.index} did not answer {msg[0]!r} within {timeout:.0f}s")
            r = self.conn.recv()
        except (EOFError, OSError, BrokenPipeError) as e:
            raise WorkerDied(f"worker process {self.index} died during {msg[0]!r}: {e!r}")
        if r[0] == "error":
            raise WorkerDied(f"worker process {self.index} failed during {msg[0]!r}: {r[1]}")
        return r

    def alive(self) -> bool:
        return self.process.is_alive()

    def stop(self) -> None:
        try:
            self.conn.send(("quit",))
        except Exception:       # noqa: BLE001
            pass
        self.process.join(2)
        if self.process.is_alive():
            self.process.kill()
            self.process.join(2)


class Pool:
    """Worker processes, started on demand and reused from case to case (a case's lock file is its own: nothing a
    process holds survives the case)."""

    def __init__(self) -> None:
        self.workers: List[Worker] = []
        self.forkserver: Optional[Worker] = None

    def get_forkserver(self) -> Worker:
        """The process that forks the parent of every process family.  It never runs a case itself, so it stays
        single-threaded (no thread pool of a data-file library was ever started in it) and fork() from it is clean."""
        if self.forkserver is None or not self.forkserver.alive():
            self.forkserver = Worker(1000)
        return self.forkserver

    def get(self, n: int) -> List[Worker]:
        self.workers = [w for w in self.workers if w.alive()]
        while len(self.workers) < n:
            self.workers.append(Worker(len(self.workers)))
        return self.workers[:n]

    def discard(self, w: Worker) -> None:
        w.stop()
        self.workers = [x for x in self.workers if x is not w]
        if self.forkserver is w:
            self.forkserver = None

    def close(self) -> None:
        for w in self.workers:
            w.stop()
        self.workers = []
        if self.forkserver is not None:
            self.forkserver.stop()
            self.forkserver = None


# ------------------------------------------------------------------------------------------------- parent side
class RemoteError(Exception):
    """What an actor in a worker process raised (type name kept for the outcome)."""

    def __init__(self, tname: str, text: str):
        super().__init__(text)
        self.tname = tname


class ProcScheduler(S.Scheduler):
    def __init__(self) -> None:
        super().__init__()
        self.remote: Dict[str, Worker] = {}
        self.shipped: Dict[Any, Dict[int, dict]] = {}      # per worker process: its log index -> the entry object in self.log

    def spawn_remote(self, name: str, worker: Worker, st: Dict[str, Any]) -> S.Actor:
        a = S.Actor(name, lambda: None)
        self.actors[name] = a
        self.order.append(name)
        self.remote[name] = worker
        a.state = st["state"]
        a.pending = st["pending"]
        return a

    def step(self, name: str) -> None:
        w = self.remote.get(name)
        if w is None:
            return super().step(name)
        a = self.actors[name]
        if a.state != "parked":
            raise ValueError(f"actor {name} not enabled (state {a.state})")
        a.state = "running"
        r = w.call(("step", name, self.clock_ms))
        if r[0] == "deadlock":
            raise S.Deadlock(r[1])
        _ok, entries, lockentries, states, n0, updates = r[:6]
        mine = self.shipped.setdefault((id(w), r[6] if len(r) > 6 else 0), {})    # log indices are per PROCESS (a family: several)
        for i, new in updates:
            mine[i].update(new)                  # same dict object as in self.log: completed in place
        for k, e in enumerate(entries):
            mine[n0 + k] = e
        self.log.extend(entries)
        self.locklog.extend(lockentries)
        a.trace.extend((e["op"], e["path"]) for e in entries)
        for n, st in states.items():
            b = self.actors[n]
            if n != name and not (b.state == "blocked" and st["state"] == "parked"):
                continue                         # other actors of that process: only "what it waited for was released there"
            b.state, b.pending, b.blocked_on = st["state"], st["pending"], st["blocked_on"]
            if st["state"] == "done":
                b.result = st.get("result")
                b.error = RemoteError(*st["error"]) if "error" in st else None
        for e in entries:
            if e["op"] == "LockRel":
                self.unblock_all(e["path"])
        if self.step_hook:
            self.step_hook(a)


    def kill_worker(self, w: Worker) -> None:
        """SIGKILL a worker process: no handler of its actors runs, the kernel closes its descriptors (and with them drops
        whatever lock one of its handles held).  Its actors end as killed; everybody waiting for a lock looks again."""
        pid = w.pid
        w.process.kill()
        w.process.join(10)
        entry = {"actor": None, "pid": pid, "handle": None, "prim": "kill", "fd": None, "ok": True, "known": True}
        self.locklog.append(entry)
        for n, ww in self.remote.items():
            if ww is w:
                a = self.actors[n]
                if a.state != "done":
                    self.log.append({"actor": n, "op": "ProcessKilled", "path": "", "phase": (), "clock": self.clock_ms, "result": None})
                    a.state = "done"
                    a.pending = None
                    a.error = RemoteError("ProcessKilled", f"process {pid} was killed")
        for a in self.actors.values():
            if a.state == "blocked":
                a.state = "parked"


def family_of(case: Dict[str, Any]) -> Optional[Dict[str, Any]]:
    """case["fork"] checked: {"root": [...], "children": [[...], ...], "handles": "shared" | "own"} partitions the actors."""
    fam = case.get("fork")
    if not fam:
        return None
    n = len(case["ops"])
    root, children = list(fam.get("root", [])), [list(g) for g in fam.get("children", [])]
    if sorted(root + [i for g in children for i in g]) != list(range(n)) or not children:
        raise ValueError(f"fork {fam} is not a placement of the {n} actors in a parent and at least one forked worker")
    if fam.get("handles", "shared") not in ("shared", "own"):
        raise ValueError(f"fork handles {fam.get('handles')!r}")
    return {"root": root, "children": children, "handles": fam.get("handles", "shared")}


def groups_of(case: Dict[str, Any]) -> List[List[int]]:
    n = len(case["ops"])
    if case.get("fork"):
        return [[], list(range(n))]         # the whole family is reached through one pipe (the fork server's)
    procs = [list(g) for g in (case.get("procs") or [list(range(n))])]
    if sorted(i for g in procs for i in g) != list(range(n)):
        raise ValueError(f"procs {procs} is not a partition of the {n} actors")
    return procs


def proc_of(case: Dict[str, Any]) -> Dict[str, int]:
    return {f"A{i}": k for k, g in enumerate(groups_of(case)) for i in g}


def run_case(scratch: str, case: Dict[str, Any], chooser_factory: Callable[[S.Scheduler], Callable], pool: Pool,
             tag: str = "p", kill: Optional[Dict[str, Any]] = None) -> P.CaseResult:
    """protocol.run_case for the local backend with the actors placed in processes (case['procs']).
    kill = {"actor": name, "when": pred(op, path)}: that actor is run until it is parked before an operation matching
    `when`; then its (worker) process is killed, and the schedule goes on with the others."""
    import datashard
    from datashard.data_structures import Schema
    from datashard.storage_backend import LocalStorageBackend

    if case.get("backend", "local") != "local":
        raise ValueError("process topologies are a local-filesystem matter (object-store locks are objects, not kernel state)")
    root = os.path.join(scratch, tag)
    shutil.rmtree(root, ignore_errors=True)
    res = P.CaseResult()
    sc = ProcScheduler()
    sc.fine_locks = "all" if case.get("fine_locks") == "all" else bool(case.get("fine_locks", False))      # type: ignore[attr-defined]
    P._CURRENT[0] = sc
    sc.yield_filter = P.protocol_yield_filter
    lock_mode = case.get("lock", "real")
    clock = case.get("clock", "tick")
    nsnap = case.get("initial_snapshots", 2)
    shared = case.get("topology", "separate") == "shared"
    groups = groups_of(case)
    fam = family_of(case)
    workers = [pool.get_forkserver()] if fam else pool.get(len(groups) - 1)
    family_pids: Dict[str, Any] = {}
    schema = Schema(schema_id=1, fields=[{"id": 1, "name": "x", "type": "long", "required": False}])

    def factory(tp: str) -> Any:
        return S.instrument_backend(sc, LocalStorageBackend(tp), lock_mode=lock_mode)

    template = os.path.join(scratch, f"template-local-{nsnap}")
    started: List[Worker] = []
    with S.patched(sc, factory, shared_rlock=True):
        if not os.path.exists(template):
            t0 = datashard.create_table(template, schema)
            for i in range(nsnap):
                sc.clock_ms += 10
                t0.append_records([{"x": -(i + 1)}])
        shutil.copytree(template, root)
        sc.clock_ms = 1_700_000_000_000 + 10 * nsnap + (0 if clock == "frozen" else 10)
        sc.log.clear()
        sc.locklog.clear()
        try:
            if fam:
                # the family's parent opens its handle(s) and USES each once (a metadata-only commit, 10 ms after the template's
                # last one) before anything else: the table the actors start from is the one after those commits
                w = workers[0]
                sc.clock_ms = 1_700_000_000_000 + 10 * nsnap + 10
                r = w.call(("fcase", root, fam["handles"], [f"A{i}" for i in range(len(case["ops"]))], sc.clock_ms,
                            sc.fine_locks, lock_mode))      # type: ignore[attr-defined]
                started.append(w)
                w.pid = r[2]
                sc.locklog.extend(r[1])
                sc.clock_ms += 0 if clock == "frozen" else 10
        except (WorkerDied, S.Deadlock) as e:
            res.deadlock = "harness: " + str(e)
            pool.discard(workers[0])
            res.initial = P.read_table_independent(root)
            res.final = dict(res.initial)
            return res
        res.initial = P.read_table_independent(root)
        ops = []
        for op in case["ops"]:
            op = dict(op)
            if op["kind"] == "delete_snapshot":
                order = res.initial["log_order"]
                op["id"] = {"old": order[0], "second": order[min(1, len(order) - 1)], "current": res.initial["current"]}.get(op.get("which"), op.get("id"))
            ops.append(op)
        try:
            # actors are registered in index order whatever process they live in (choosers' "first enabled" is A0 < A1 < ...)
            remote_states: Dict[str, Dict[str, Any]] = {}
            if fam:
                w = workers[0]
                spec = lambda i: (f"A{i}", ops[i], ops[i].get("style", "with"))      # noqa: E731
                r = w.call(("fgo", [spec(i) for i in fam["root"]], [[spec(i) for i in g] for g in fam["children"]], sc.clock_ms))
                sc.locklog.extend(r[2])
                family_pids = {"parent": w.pid, "workers": list(r[3])}
                for n, st in r[1].items():
                    remote_states[n] = (w, st)              # type: ignore[assignment]
            for k, g in enumerate(groups[1:] if not fam else []):
                w = workers[k]
                r = w.call(("case", root, [(f"A{i}", ops[i], ops[i].get("style", "with")) for i in g], shared, sc.clock_ms,
                            sc.fine_locks, lock_mode))      # type: ignore[attr-defined]
                started.append(w)
                w.pid = r[2]
                for n, st in r[1].items():
                    remote_states[n] = (w, st)              # type: ignore[assignment]
            shared_table = datashard.load_table(root) if (shared and groups[0]) else None
            for i in range(len(ops)):
                name = f"A{i}"
                if name in remote_states:
                    w, st = remote_states[name]             # type: ignore[misc]
                    sc.spawn_remote(name, w, st)
                else:
                    sc.spawn(name, P.make_actor(root, ops[i], shared_table, ops[i].get("style", "with")))
            nsteps = [0]

            def hook(_a: S.Actor) -> None:
                nsteps[0] += 1
                if clock == "tick":
                    sc.clock_ms += 1
                elif clock == "coarse" and nsteps[0] % 7 == 0:
                    sc.clock_ms += 1
            sc.step_hook = hook
            chooser = chooser_factory(sc)
            killed = [kill is None]

            def recording(enabled: List[str], s: S.Scheduler) -> Optional[str]:
                if not killed[0]:
                    ka = kill["actor"]                      # type: ignore[index]
                    if ka in enabled:
                        op, path = s.actors[ka].pending or ("", "")
                        if not kill["when"](op, path):      # type: ignore[index]
                            res.enabled_at.append(list(enabled))
                            return ka
                        w = sc.remote[ka]
                        sc.kill_worker(w)
                        started.remove(w)
                        pool.discard(w)
                        enabled = s.enabled()
                    killed[0] = True
                    if not enabled:
                        return None
                res.enabled_at.append(list(enabled))
                return chooser(enabled, s)
            try:
                res.schedule = sc.run(recording)
            except S.Deadlock as e:
                res.deadlock = str(e)
                sc.kill_remaining()
        except WorkerDied as e:
            res.deadlock = "harness: " + str(e)
            sc.kill_remaining()
            for w in started:
                pool.discard(w)
            started = []
        finally:
            for w in started:
                try:
                    w.call(("end",), timeout=20)
                except (WorkerDied, S.Deadlock):
                    pool.discard(w)
        res.log = sc.log
        res.locklog = list(sc.locklog)                    # type: ignore[attr-defined]
        res.pids = {0: os.getpid(), **{k + 1: w.pid for k, w in enumerate(workers[:len(groups) - 1])}}   # type: ignore[attr-defined]
        if fam:
            res.pids = {0: os.getpid(), "family": family_pids}       # type: ignore[attr-defined]
        for name, a in sc.actors.items():
            if a.error is not None:
                tname = a.error.tname if isinstance(a.error, RemoteError) else type(a.error).__name__
                res.outcomes[name] = ("raised", tname + ": " + str(a.error)[:120])
            else:
                res.outcomes[name] = ("ok", str(a.result))
        try:
            res.final = P.read_table_independent(root)
        except Exception as e:      # noqa: BLE001 - an unreadable final table is itself an oracle failure
            res.final = {"error": repr(e)[:300]}
    return res
