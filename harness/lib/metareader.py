"""Independent reader of a DataShard table directory: pointer -> metadata JSON -> manifest lists -> manifests.

Uses only `json`, `os` and `fastavro`; never imports `datashard`.  Manifest files are write-once, so
their decoded content is cached by path for the lifetime of the reader.
"""
from __future__ import annotations

import json
import os
import re
from typing import Any, Dict, List, Optional, Tuple

import fastavro

HINT = "metadata.version-hint.text"
_META_RE = re.compile(r"^v(\d+)(?:-[0-9a-f]{8})?\.metadata\.json$")


class TableReader:
    def __init__(self, root: str):
        self.root = root
        self._avro_cache: Dict[str, List[Dict[str, Any]]] = {}

    # -- pointer / metadata -------------------------------------------------------------------
    def pointer(self) -> Optional[str]:
        """Name of the metadata file the pointer designates (None if there is no pointer)."""
        p = os.path.join(self.root, HINT)
        if not os.path.exists(p):
            return None
        try:
            text = open(p, "rb").read().decode("utf-8").strip()
        except UnicodeDecodeError:
            return None
        if text.isdigit() and text.isascii():
            return f"v{text}.metadata.json"
        return text if _META_RE.match(text) else None

    def versions_on_disk(self) -> List[Tuple[int, str]]:
        """(version, file name) of every metadata version file directly under metadata/."""
        d = os.path.join(self.root, "metadata")
        out = []
        for f in os.listdir(d) if os.path.isdir(d) else []:
            m = _META_RE.match(f)
            if m and os.path.isfile(os.path.join(d, f)):
                out.append((int(m.group(1)), f))
        return out

    def current(self) -> Optional[str]:
        """The current metadata file as the format defines it when the pointer is only a hint: the file the pointer
        names if that file exists; otherwise the highest version on disk (newest modification time among equals)."""
        name = self.pointer()
        if name is not None and os.path.isfile(os.path.join(self.root, "metadata", name)):
            return name
        vs = self.versions_on_disk()
        if not vs:
            return None
        top = max(v for v, _ in vs)
        cands = [f for v, f in vs if v == top]
        return max(cands, key=lambda f: os.path.getmtime(os.path.join(self.root, "metadata", f)))

    def metadata(self, name: Optional[str] = None) -> Dict[str, Any]:
        name = name or self.current()
        if name is None:
            raise FileNotFoundError("no pointer")
        with open(os.path.join(self.root, "metadata", name), "rb") as f:
            return json.loads(f.read().decode("utf-8"))

    def exists(self, rel: str) -> bool:
        return os.path.isfile(os.path.join(self.root, rel.lstrip("/")))

    # -- avro -----------------------------------------------------------------------------------
    def _avro(self, rel: str) -> List[Dict[str, Any]]:
        rel = rel.lstrip("/")
        if rel not in self._avro_cache:
            with open(os.path.join(self.root, rel), "rb") as f:
                self._avro_cache[rel] = list(fastavro.reader(f))
        return self._avro_cache[rel]

    def manifest_list(self, rel: str) -> List[Dict[str, Any]]:
        return self._avro(rel)

    def manifest(self, rel: str) -> List[Dict[str, Any]]:
        return self._avro(rel)

    def snapshot_manifests(self, snapshot: Dict[str, Any]) -> List[Tuple[str, List[Dict[str, Any]]]]:
        """[(manifest path, [entry records])] of a snapshot, in manifest-list order."""
        out = []
        for rec in self.manifest_list(snapshot["manifest_list"]):
            out.append((rec["manifest_path"], self.manifest(rec["manifest_path"])))
        return out


def entry_tuple(rec: Dict[str, Any]) -> Tuple[str, int, Any, Any]:
    """(file_path, status, adding snapshot id, sequence number) of a manifest entry record."""
    seqn = rec.get("file_sequence_number")
    if seqn is None:
        seqn = rec.get("sequence_number")
    return (rec["data_file"]["file_path"], rec["status"], rec.get("snapshot_id"), seqn)
