"""fakes3 -- a strongly consistent, in-memory stand-in for a boto3 S3 *client*.

Shared test double for every property that needs an object store offline (C01/C04/C08/C19/C20).
It implements exactly the client calls the library makes (get_object incl. Range, put_object incl.
IfMatch / IfNoneMatch, head_object, delete_object, list_objects_v2, get_paginator("list_objects_v2"))
with the observable behaviour of AWS S3:

* strong read-after-write consistency, atomic (conditional) PUT, idempotent DELETE;
* ETag = '"<md5 hex>"' of the content (etag_mode="md5", as S3 does for single-part uploads; identical
  content => identical ETag) or a fresh tag per write (etag_mode="unique");
* LastModified from an injectable clock (callable returning epoch seconds; default: a counter that
  advances 1 s per write), optionally truncated to whole seconds as HTTP dates are;
* listing in UTF-8 byte order of the keys, plain string-prefix match, MaxKeys / ContinuationToken /
  StartAfter / Delimiter+CommonPrefixes; the paginator returns pages of `page_size` keys (small by
  default so pagination is exercised);
* errors are botocore.exceptions.ClientError with the response dicts botocore builds:
  GET missing -> NoSuchKey/404, HEAD missing -> "404"/404, failed precondition ->
  PreconditionFailed/412, IfMatch on a missing key -> NoSuchKey/404, unsatisfiable Range ->
  InvalidRange/416, unknown bucket -> NoSuchBucket/404;
* every request is appended to `log` (dicts: op, Bucket, Key/Prefix, Range, IfMatch, IfNoneMatch,
  outcome) -- the observation point for "which requests were issued, how often";
* programmable faults, per request:
      s3.fail(code="SlowDown", when="before"|"after", op=None, key=None, times=1, skip=0, exc=None)
  `before`: the request fails and has NO effect; `after`: the effect is applied (PUT lands, DELETE
  removes) and then the error is raised -- the ambiguous failure an object store can produce.
  `exc` raises an arbitrary exception object/factory instead of a ClientError (EndpointConnectionError,
  ConnectionResetError, KeyboardInterrupt ...).  `plan` is an alternative positional form: a list with
  one entry per upcoming request (None | ("before"|"after", code-or-exception)).
  TRANSIENT_CODES / PERMANENT_CODES list typical S3 codes of each kind (independent of the library).
* `before_request` / `after_request` hooks (callables taking the request dict) let a scheduler park
  the calling thread at request boundaries (e.g. to split a PUT into "sent" and "landed").

Nothing in here knows about any particular property; only the convenience constructor make_s3_backend
imports the library (to run the real S3StorageBackend constructor against the fake).
"""
from __future__ import annotations

import datetime as _dt
import hashlib
import io
import itertools
import re
import threading
from typing import Any, Callable, Dict, Iterator, List, Optional, Tuple, Union

from botocore.exceptions import ClientError

TRANSIENT_CODES = ["SlowDown", "InternalError", "ServiceUnavailable", "RequestTimeout", "RequestTimeTooSkewed", "503", "500", "Throttling"]
PERMANENT_CODES = ["AccessDenied", "InvalidAccessKeyId", "SignatureDoesNotMatch", "NoSuchBucket", "AllAccessDisabled", "403", "401"]

_STATUS = {
    "NoSuchKey": 404, "404": 404, "NoSuchBucket": 404, "PreconditionFailed": 412, "412": 412, "InvalidRange": 416,
    "ConditionalRequestConflict": 409, "AccessDenied": 403, "403": 403, "401": 401, "InvalidAccessKeyId": 403,
    "SignatureDoesNotMatch": 403, "AllAccessDisabled": 403, "SlowDown": 503, "ServiceUnavailable": 503, "503": 503,
    "InternalError": 500, "500": 500, "RequestTimeout": 400, "Throttling": 400, "RequestTimeTooSkewed": 403,
}

_OP_NAMES = {
    "get_object": "GetObject", "put_object": "PutObject", "head_object": "HeadObject", "delete_object": "DeleteObject",
    "list_objects_v2": "ListObjectsV2",
}


def client_error(code: str, op: str, message: Optional[str] = None, status: Optional[int] = None) -> ClientError:
    """A ClientError shaped like the ones botocore raises."""
    return ClientError(
        {"Error": {"Code": code, "Message": message or code},
         "ResponseMetadata": {"HTTPStatusCode": status if status is not None else _STATUS.get(code, 500), "RequestId": "fakes3", "RetryAttempts": 0}},
        _OP_NAMES.get(op, op),
    )


class FakeBody(io.BytesIO):
    """Stands in for botocore.response.StreamingBody."""

    def read(self, amt: Optional[int] = None) -> bytes:  # type: ignore[override]
        return super().read(-1 if amt is None else amt)

    def iter_chunks(self, chunk_size: int = 1024) -> Iterator[bytes]:
        while True:
            b = super().read(chunk_size)
            if not b:
                return
            yield b


class _Obj:
    __slots__ = ("data", "etag", "mtime", "meta")

    def __init__(self, data: bytes, etag: str, mtime: float, meta: Dict[str, Any]):
        self.data, self.etag, self.mtime, self.meta = data, etag, mtime, meta


class _Fault:
    def __init__(self, when: str, code: Optional[str], exc: Any, op: Optional[str], key: Any, times: int, skip: int):
        self.when, self.code, self.exc, self.op, self.key, self.times, self.skip = when, code, exc, op, key, times, skip

    def matches(self, op: str, key: Optional[str]) -> bool:
        if self.times <= 0:
            return False
        if self.op is not None and self.op != op:
            return False
        if self.key is not None:
            if callable(self.key):
                if not self.key(key):
                    return False
            elif self.key != key:
                return False
        return True


class FakeS3:
    def __init__(self, buckets: Tuple[str, ...] = ("bucket",), clock: Optional[Callable[[], float]] = None, page_size: int = 3,
                 etag_mode: str = "md5", whole_second_mtime: bool = False):
        self._lock = threading.RLock()
        self.buckets: Dict[str, Dict[str, _Obj]] = {b: {} for b in buckets}
        self._tick = itertools.count(1_700_000_000)
        self.clock = clock if clock is not None else (lambda: float(next(self._tick)))
        self.page_size = page_size
        self.etag_mode = etag_mode
        self.whole_second_mtime = whole_second_mtime
        self._uniq = itertools.count(1)
        self.log: List[Dict[str, Any]] = []
        self.faults: List[_Fault] = []
        self.plan: List[Any] = []
        self.before_request: Optional[Callable[[Dict[str, Any]], None]] = None
        self.after_request: Optional[Callable[[Dict[str, Any]], None]] = None

    # ------------------------------------------------------------------ direct access for tests
    def keys(self, bucket: Optional[str] = None) -> List[str]:
        with self._lock:
            return sorted(self._b(bucket), key=lambda k: k.encode("utf-8"))

    def dump(self, bucket: Optional[str] = None) -> Dict[str, bytes]:
        with self._lock:
            return {k: o.data for k, o in self._b(bucket).items()}

    def seed(self, key: str, data: bytes, bucket: Optional[str] = None) -> None:
        """Store an object without logging a request or consulting faults."""
        with self._lock:
            self._store(self._b(bucket), key, bytes(data), {})

    def etag_of(self, key: str, bucket: Optional[str] = None) -> Optional[str]:
        with self._lock:
            o = self._b(bucket).get(key)
            return o.etag if o else None

    def requests(self, op: Optional[str] = None) -> List[Dict[str, Any]]:
        return [r for r in self.log if op is None or r["op"] == op]

    def clear_log(self) -> None:
        self.log.clear()

    # ------------------------------------------------------------------ faults
    def fail(self, code: Optional[str] = "SlowDown", when: str = "before", op: Optional[str] = None, key: Any = None,
             times: int = 1, skip: int = 0, exc: Any = None) -> None:
        """Make the next `times` matching requests (after skipping `skip` matching ones) fail."""
        assert when in ("before", "after")
        self.faults.append(_Fault(when, code, exc, op, key, times, skip))

    def clear_faults(self) -> None:
        self.faults.clear()
        self.plan.clear()

    def _next_fault(self, op: str, key: Optional[str]) -> Optional[Tuple[str, Any]]:
        if self.plan:
            ent = self.plan.pop(0)
            if ent is not None:
                return ent[0], ent[1]
            return None
        for f in self.faults:
            if f.matches(op, key):
                if f.skip > 0:
                    f.skip -= 1
                    continue
                f.times -= 1
                return f.when, (f.exc if f.exc is not None else f.code)
        return None

    @staticmethod
    def _raise_fault(what: Any, op: str) -> None:
        if isinstance(what, str):
            raise client_error(what, op)
        if isinstance(what, BaseException):
            raise what
        if callable(what):
            raise what()
        raise client_error("InternalError", op)

    # ------------------------------------------------------------------ plumbing
    def _b(self, bucket: Optional[str]) -> Dict[str, _Obj]:
        if bucket is None:
            bucket = next(iter(self.buckets))
        return self.buckets[bucket]

    def _bucket(self, bucket: str, op: str) -> Dict[str, _Obj]:
        if bucket not in self.buckets:
            raise client_error("NoSuchBucket", op, "The specified bucket does not exist")
        return self.buckets[bucket]

    def _store(self, b: Dict[str, _Obj], key: str, data: bytes, meta: Dict[str, Any]) -> _Obj:
        if self.etag_mode == "md5":
            etag = '"' + hashlib.md5(data).hexdigest() + '"'
        else:
            etag = '"u%08d"' % next(self._uniq)
        t = float(self.clock())
        if self.whole_second_mtime:
            t = float(int(t))
        o = _Obj(data, etag, t, meta)
        b[key] = o
        return o

    @staticmethod
    def _when(t: float) -> _dt.datetime:
        return _dt.datetime.fromtimestamp(t, tz=_dt.timezone.utc)

    def _request(self, op: str, rec: Dict[str, Any], effect: Callable[[], Any]) -> Any:
        """Run one request: hooks, fault-before, effect, fault-after, logging."""
        rec = dict(rec, op=op, n=len(self.log))
        if self.before_request is not None:
            self.before_request(rec)
        with self._lock:
            self.log.append(rec)
            fault = self._next_fault(op, rec.get("Key", rec.get("Prefix")))
            rec["fault"] = None if fault is None else fault[0]
            try:
                if fault is not None and fault[0] == "before":
                    self._raise_fault(fault[1], op)
                result = effect()
                if fault is not None and fault[0] == "after":
                    self._raise_fault(fault[1], op)
                rec["outcome"] = "ok"
            except ClientError as e:
                rec["outcome"] = e.response["Error"]["Code"]
                raise
            except BaseException as e:
                rec["outcome"] = type(e).__name__
                raise
            finally:
                if self.after_request is not None:
                    self.after_request(rec)
        return result

    # ------------------------------------------------------------------ the client API
    def get_object(self, Bucket: str, Key: str, Range: Optional[str] = None, IfMatch: Optional[str] = None,
                   IfNoneMatch: Optional[str] = None, **_kw: Any) -> Dict[str, Any]:
        def effect() -> Dict[str, Any]:
            b = self._bucket(Bucket, "get_object")
            o = b.get(Key)
            if o is None:
                raise client_error("NoSuchKey", "get_object", "The specified key does not exist.")
            if IfMatch is not None and IfMatch != o.etag:
                raise client_error("PreconditionFailed", "get_object")
            if IfNoneMatch is not None and (IfNoneMatch == "*" or IfNoneMatch == o.etag):
                raise client_error("304", "get_object", "Not Modified", 304)
            data = o.data
            resp: Dict[str, Any] = {"ETag": o.etag, "LastModified": self._when(o.mtime), "Metadata": dict(o.meta),
                                    "ResponseMetadata": {"HTTPStatusCode": 200}}
            if Range is not None:
                size = len(data)
                m = re.fullmatch(r"bytes=(\d*)-(\d*)", Range.strip())
                if not m or (m.group(1) == "" and m.group(2) == ""):
                    raise client_error("InvalidArgument", "get_object", "Invalid Range", 400)
                if m.group(1) == "":            # suffix: last n bytes
                    n = int(m.group(2))
                    if n == 0 or size == 0:
                        raise client_error("InvalidRange", "get_object", "The requested range is not satisfiable")
                    first, last = max(0, size - n), size - 1
                else:
                    first = int(m.group(1))
                    last = int(m.group(2)) if m.group(2) != "" else size - 1
                    if m.group(2) != "" and last < first:
                        # syntactically invalid range: S3 ignores the header and returns the whole object
                        first, last = 0, size - 1
                        resp["Body"] = FakeBody(data)
                        resp["ContentLength"] = size
                        return resp
                    if first >= size:
                        raise client_error("InvalidRange", "get_object", "The requested range is not satisfiable")
                    last = min(last, size - 1)
                data = data[first:last + 1]
                resp["ContentRange"] = f"bytes {first}-{last}/{size}"
                resp["ResponseMetadata"] = {"HTTPStatusCode": 206}
            resp["Body"] = FakeBody(data)
            resp["ContentLength"] = len(data)
            return resp

        return self._request("get_object", {"Bucket": Bucket, "Key": Key, "Range": Range, "IfMatch": IfMatch, "IfNoneMatch": IfNoneMatch}, effect)

    def put_object(self, Bucket: str, Key: str, Body: Any = b"", IfMatch: Optional[str] = None, IfNoneMatch: Optional[str] = None,
                   Metadata: Optional[Dict[str, str]] = None, **_kw: Any) -> Dict[str, Any]:
        if isinstance(Body, str):
            data = Body.encode("utf-8")
        elif isinstance(Body, (bytes, bytearray, memoryview)):
            data = bytes(Body)
        elif hasattr(Body, "read"):
            data = Body.read()
        else:
            raise TypeError(f"unsupported Body type {type(Body)}")

        def effect() -> Dict[str, Any]:
            b = self._bucket(Bucket, "put_object")
            cur = b.get(Key)
            if IfNoneMatch is not None:
                if IfNoneMatch != "*":
                    raise client_error("NotImplemented", "put_object", "If-None-Match only supports *", 501)
                if cur is not None:
                    raise client_error("PreconditionFailed", "put_object", "At least one of the pre-conditions you specified did not hold")
            if IfMatch is not None:
                if cur is None:
                    raise client_error("NoSuchKey", "put_object", "The specified key does not exist.")
                if cur.etag != IfMatch:
                    raise client_error("PreconditionFailed", "put_object", "At least one of the pre-conditions you specified did not hold")
            o = self._store(b, Key, data, dict(Metadata or {}))
            return {"ETag": o.etag, "ResponseMetadata": {"HTTPStatusCode": 200}}

        return self._request("put_object", {"Bucket": Bucket, "Key": Key, "IfMatch": IfMatch, "IfNoneMatch": IfNoneMatch, "size": len(data)}, effect)

    def head_object(self, Bucket: str, Key: str, **_kw: Any) -> Dict[str, Any]:
        def effect() -> Dict[str, Any]:
            b = self._bucket(Bucket, "head_object")
            o = b.get(Key)
            if o is None:
                # a HEAD response has no body, so botocore can only report the status code
                raise client_error("404", "head_object", "Not Found", 404)
            return {"ETag": o.etag, "ContentLength": len(o.data), "LastModified": self._when(o.mtime), "Metadata": dict(o.meta),
                    "ResponseMetadata": {"HTTPStatusCode": 200}}

        return self._request("head_object", {"Bucket": Bucket, "Key": Key}, effect)

    def delete_object(self, Bucket: str, Key: str, **_kw: Any) -> Dict[str, Any]:
        def effect() -> Dict[str, Any]:
            b = self._bucket(Bucket, "delete_object")
            b.pop(Key, None)
            return {"ResponseMetadata": {"HTTPStatusCode": 204}}

        return self._request("delete_object", {"Bucket": Bucket, "Key": Key}, effect)

    def list_objects_v2(self, Bucket: str, Prefix: str = "", MaxKeys: int = 1000, ContinuationToken: Optional[str] = None,
                        StartAfter: Optional[str] = None, Delimiter: Optional[str] = None, **_kw: Any) -> Dict[str, Any]:
        def effect() -> Dict[str, Any]:
            b = self._bucket(Bucket, "list_objects_v2")
            enc = lambda s: s.encode("utf-8")
            keys = sorted((k for k in b if k.startswith(Prefix)), key=enc)
            after = ContinuationToken if ContinuationToken is not None else StartAfter
            if after is not None:
                keys = [k for k in keys if enc(k) > enc(after)]
            contents: List[Dict[str, Any]] = []
            commons: List[str] = []
            last_seen: Optional[str] = None
            truncated = False
            for k in keys:
                if len(contents) + len(commons) >= max(0, min(MaxKeys, self.page_size)):     # server-side cap (S3: 1000)
                    truncated = True
                    break
                if Delimiter:
                    rest = k[len(Prefix):]
                    i = rest.find(Delimiter)
                    if i >= 0:
                        cp = Prefix + rest[:i + len(Delimiter)]
                        if cp not in commons:
                            commons.append(cp)
                        last_seen = k
                        continue
                o = b[k]
                contents.append({"Key": k, "Size": len(o.data), "ETag": o.etag, "LastModified": self._when(o.mtime), "StorageClass": "STANDARD"})
                last_seen = k
            resp: Dict[str, Any] = {"Name": Bucket, "Prefix": Prefix, "MaxKeys": MaxKeys, "KeyCount": len(contents) + len(commons),
                                    "IsTruncated": truncated, "ResponseMetadata": {"HTTPStatusCode": 200}}
            if contents:
                resp["Contents"] = contents
            if commons:
                resp["CommonPrefixes"] = [{"Prefix": c} for c in commons]
            if truncated and last_seen is not None:
                resp["NextContinuationToken"] = last_seen
            return resp

        return self._request("list_objects_v2", {"Bucket": Bucket, "Prefix": Prefix, "MaxKeys": MaxKeys, "ContinuationToken": ContinuationToken,
                                                 "Delimiter": Delimiter}, effect)

    def get_paginator(self, name: str) -> "_Paginator":
        if name != "list_objects_v2":
            raise NotImplementedError(f"fakes3: paginator for {name}")
        return _Paginator(self)


class _Paginator:
    def __init__(self, s3: FakeS3):
        self.s3 = s3

    def paginate(self, **kw: Any) -> Iterator[Dict[str, Any]]:
        kw = dict(kw)
        cfg = kw.pop("PaginationConfig", None) or {}
        page = int(cfg.get("PageSize", self.s3.page_size))
        max_items = cfg.get("MaxItems")          # botocore: a cap on the TOTAL number of items the paginator returns
        kw.pop("MaxKeys", None)
        token: Optional[str] = None
        returned = 0
        while True:
            args = dict(kw, MaxKeys=page)
            if token is not None:
                args["ContinuationToken"] = token
            resp = self.s3.list_objects_v2(**args)
            if max_items is not None:
                room = int(max_items) - returned
                if len(resp.get("Contents", [])) > room:
                    resp = dict(resp, Contents=resp.get("Contents", [])[:max(room, 0)])
                returned += len(resp.get("Contents", []))
            yield resp
            if not resp.get("IsTruncated") or (max_items is not None and returned >= int(max_items)):
                return
            token = resp["NextContinuationToken"]


def make_s3_backend(s3: FakeS3, bucket: str = "bucket", prefix: str = "", use_conditional_writes: bool = True) -> Any:
    """An S3StorageBackend wired to `s3` without touching the network: the real constructor runs, with
    boto3.session.Session replaced for the duration of the call so that `.client("s3", ...)` returns the fake."""
    import boto3
    from datashard import storage_backend as sb

    class _Session:
        def client(self, *_a: Any, **_k: Any) -> FakeS3:
            return s3

    real = boto3.session.Session
    boto3.session.Session = _Session  # type: ignore[misc,assignment]
    try:
        return sb.S3StorageBackend(bucket=bucket, prefix=prefix, use_conditional_writes=use_conditional_writes)
    finally:
        boto3.session.Session = real  # type: ignore[misc]
