"""Bounded execution of C16 scenarios: a worker process runs a batch of jobs under the in-process tracer.

    python -m harness.lib.c16_worker <jobs.json> <outdir>

Every job {"id", "root", "steps", "mutation", "fault"} is run with a CPU-independent wall-clock alarm
(signal.alarm -> JobTimeout, a BaseException, in the main thread) and under an address-space limit, and its result
{"events", "results", "faultlog"} or {"error"} is pickled to <outdir>/<id>.pkl (atomic rename), so the
parent (run_jobs) sees progress job by job.  The parent kills a worker that makes no progress (a hang in
C code, where the alarm cannot fire) and charges the job that was running.  A hang or runaway memory in
the library under test therefore becomes a failed case, never a stuck check.
"""
from __future__ import annotations

import json
import os
import pickle
import resource
import shutil
import signal
import subprocess
import sys
import time
from typing import Any, Dict, List

PER_JOB_S = int(os.environ.get("C16_JOB_TIMEOUT_S", "40"))
MEM_LIMIT = int(os.environ.get("C16_JOB_MEM_BYTES", str(6 * 1024 ** 3)))


class JobTimeout(BaseException):
    """Not an Exception: neither the library's `except Exception` nor the driver's per-step handler may swallow it."""


def _alarm(signum: int, frame: Any) -> None:
    raise JobTimeout(f"library operation exceeded {PER_JOB_S}s")


def worker_main(jobs_path: str, outdir: str) -> int:
    from harness.lib import c16_driver, ostrace
    try:
        resource.setrlimit(resource.RLIMIT_AS, (MEM_LIMIT, MEM_LIMIT))
    except (ValueError, OSError):
        pass
    signal.signal(signal.SIGALRM, _alarm)
    with open(jobs_path) as f:
        jobs = json.load(f)
    for job in jobs:
        out: Dict[str, Any]
        mutation = job.get("mutation")
        tmode = mutation if mutation and (mutation.startswith("drop_") or mutation == "dir_fsync_eio") else None
        signal.alarm(PER_JOB_S)
        try:
            with ostrace.InProcessTracer(job["root"], mutate=tmode, fault=job.get("fault")) as t:
                try:
                    results = c16_driver.run_steps(job["root"], job["steps"], t.mark, mutation if not tmode else None)
                    out = {"events": t.events, "results": results, "faultlog": t.faultlog}
                except (JobTimeout, MemoryError) as e:
                    out = {"error": f"{type(e).__name__}: {e}", "events": t.events, "faultlog": t.faultlog}
        except BaseException as e:  # noqa: BLE001
            out = {"error": f"{type(e).__name__}: {e}"[:500]}
        finally:
            signal.alarm(0)
        tmp = os.path.join(outdir, job["id"] + ".tmp")
        with open(tmp, "wb") as f:
            pickle.dump(out, f)
        os.replace(tmp, os.path.join(outdir, job["id"] + ".pkl"))
        if not job.get("keep_root"):
            shutil.rmtree(job["root"], ignore_errors=True)
    sys.stdout.flush()
    os._exit(0)


def run_jobs(scratch: str, jobs: List[Dict[str, Any]], nworkers: int = 8) -> Dict[str, Dict[str, Any]]:
    """Run jobs in worker subprocesses; returns {job id: result dict}.  Never blocks longer than
    about (PER_JOB_S + 20) seconds without progress per worker."""
    if not jobs:
        return {}
    tag = f"jobs{int(time.time() * 1000) % 10**9}"
    outdir = os.path.join(scratch, tag)
    os.makedirs(outdir, exist_ok=True)
    results: Dict[str, Dict[str, Any]] = {}
    nworkers = max(1, min(nworkers, len(jobs)))
    batches: List[List[Dict[str, Any]]] = [jobs[i::nworkers] for i in range(nworkers)]
    active: List[Dict[str, Any]] = []
    seq = [0]

    def spawn(batch: List[Dict[str, Any]]) -> None:
        if not batch:
            return
        seq[0] += 1
        jp = os.path.join(outdir, f"batch{seq[0]}.json")
        with open(jp, "w") as f:
            json.dump(batch, f)
        errp = jp[:-5] + ".err"
        with open(errp, "wb") as ef:
            p = subprocess.Popen([sys.executable, "-m", "harness.lib.c16_worker", jp, outdir],
                                 stdout=subprocess.DEVNULL, stderr=ef, env=dict(os.environ))
        active.append({"proc": p, "batch": batch, "done": 0, "last": time.time(), "err": errp})

    for b in batches:
        spawn(b)
    while active:
        time.sleep(0.05)
        for w in list(active):
            # collect finished jobs in order
            while w["done"] < len(w["batch"]):
                jid = w["batch"][w["done"]]["id"]
                path = os.path.join(outdir, jid + ".pkl")
                if not os.path.exists(path):
                    break
                with open(path, "rb") as f:
                    results[jid] = pickle.load(f)
                w["done"] += 1
                w["last"] = time.time()
            rc = w["proc"].poll()
            if w["done"] == len(w["batch"]):
                if rc is None:
                    try:
                        w["proc"].wait(timeout=5)
                    except subprocess.TimeoutExpired:
                        w["proc"].kill()
                active.remove(w)
                continue
            stuck = time.time() - w["last"] > PER_JOB_S + 20
            if rc is not None or stuck:
                # the worker died (crash / memory limit / killed) or hangs: charge the running job
                if rc is None:
                    w["proc"].kill()
                    w["proc"].wait()
                err = b""
                try:
                    with open(w["err"], "rb") as ef:
                        err = ef.read()
                except Exception:
                    pass
                cur = w["batch"][w["done"]]
                path = os.path.join(outdir, cur["id"] + ".pkl")
                if os.path.exists(path):
                    continue        # finished in the meantime: picked up on the next round
                results[cur["id"]] = {"error": ("hang: no progress for %ds, worker killed" % (PER_JOB_S + 20)) if stuck
                                      else f"worker exited rc={rc}: {err.decode('utf-8', 'replace')[-400:]}"}
                shutil.rmtree(cur["root"], ignore_errors=True)
                rest = w["batch"][w["done"] + 1:]
                active.remove(w)
                spawn(rest)
    shutil.rmtree(outdir, ignore_errors=True)
    return results


if __name__ == "__main__":
    sys.exit(worker_main(sys.argv[1], sys.argv[2]))
