"""Fork-and-kill crash harness (DESIGN.md C03): run one DataShard operation in a forked child that
dies with os._exit at crash point k -- no `finally`, no `except`, no atexit -- then let the parent,
as a fresh process would, reopen the table.

Crash points (local backend) = just before each of:
  * every LocalStorageBackend public method call (read/write/exists/list/delete/...),
  * every OS-level sub-step of an atomic write inside storage_backend.write_file and
    data_operations.DataFileWriter (mkstemp / NamedTemporaryFile, write, fsync, close, replace,
    directory open+fsync, remove),
  * lock take / release (FileLock._try_acquire_once, FileLock.release),
plus the point after the last step.  `run_child(k, fn)` returns ("crashed", trace) or ("completed", trace).
"""
from __future__ import annotations

import json
import os
import sys
import traceback
from typing import Any, Callable, Dict, List, Tuple

EXIT_CRASHED = 41
EXIT_COMPLETED = 42
EXIT_RAISED = 43


def _install(k: int, trace_path: str) -> None:
    """Install crash points in the CURRENT process (the forked child)."""
    import tempfile as _tempfile

    import datashard.data_operations as dops
    import datashard.file_lock as fl
    import datashard.storage_backend as sb

    state = {"n": 0}
    tf = open(trace_path, "w")

    def point(label: str) -> None:
        if state["n"] == k:
            tf.write(json.dumps({"crash_at": state["n"], "before": label}) + "\n")
            tf.flush()
            os.fsync(tf.fileno())
            os._exit(EXIT_CRASHED)
        tf.write(json.dumps({"i": state["n"], "step": label}) + "\n")
        tf.flush()
        state["n"] += 1

    # storage-level methods
    for m in ["read_file", "write_file", "exists", "list_files", "delete_file", "get_modified_time", "get_size", "open_file", "open_seekable", "makedirs"]:
        real = getattr(sb.LocalStorageBackend, m)

        def wrap(self: Any, *a: Any, __real=real, __m=m, **kw: Any) -> Any:
            point(f"{__m}:{a[0] if a else ''}")
            return __real(self, *a, **kw)
        setattr(sb.LocalStorageBackend, m, wrap)

    # OS-level sub-steps, patched in the two modules' namespaces only
    class OSProxy:
        def __init__(self, tag: str):
            self._tag = tag

        def __getattr__(self, name: str) -> Any:
            real = getattr(os, name)
            if name in ("write", "fsync", "close", "replace", "remove", "open"):
                def f(*a: Any, **kw: Any) -> Any:
                    arg = a[0] if a and isinstance(a[0], str) else ""
                    point(f"os.{name}:{self._tag}:{os.path.basename(arg) if arg else ''}")
                    return real(*a, **kw)
                return f
            return real
    sb.os = OSProxy("sb")          # type: ignore[attr-defined]
    dops.os = OSProxy("dops")      # type: ignore[attr-defined]

    class TFProxy:
        def __getattr__(self, name: str) -> Any:
            real = getattr(_tempfile, name)
            if name in ("mkstemp", "NamedTemporaryFile"):
                def f(*a: Any, **kw: Any) -> Any:
                    point(f"tempfile.{name}")
                    return real(*a, **kw)
                return f
            return real
    sb.tempfile = TFProxy()        # type: ignore[attr-defined]
    dops.tempfile = TFProxy()      # type: ignore[attr-defined]

    import pyarrow.parquet as pq
    real_pw_close = pq.ParquetWriter.close

    def pw_close(self: Any, *a: Any, **kw: Any) -> Any:
        point("ParquetWriter.close")
        return real_pw_close(self, *a, **kw)
    pq.ParquetWriter.close = pw_close

    real_try = fl.FileLock._try_acquire_once
    real_rel = fl.FileLock.release

    def try_once(self: Any) -> bool:
        point("flock.try")
        return real_try(self)

    def rel(self: Any) -> None:
        point("flock.release")
        return real_rel(self)
    fl.FileLock._try_acquire_once = try_once
    fl.FileLock.release = rel

    state["point"] = point          # type: ignore[assignment]
    _install.point = point          # type: ignore[attr-defined]


def run_child(k: int, fn: Callable[[], Any], trace_path: str) -> Tuple[str, List[Dict[str, Any]]]:
    """Fork; the child installs crash point k, runs fn and dies. Returns (status, trace)."""
    sys.stdout.flush()
    sys.stderr.flush()
    pid = os.fork()
    if pid == 0:
        code = EXIT_RAISED
        try:
            devnull = os.open(os.devnull, os.O_WRONLY)
            os.dup2(devnull, 1)
            os.dup2(devnull, 2)
            _install(k, trace_path)
            fn()
            _install.point("end")          # type: ignore[attr-defined]   the point after the last step
            code = EXIT_COMPLETED
        except SystemExit:
            raise
        except BaseException:   # noqa: BLE001
            try:
                with open(trace_path + ".err", "w") as f:
                    f.write(traceback.format_exc())
            except Exception:
                pass
            code = EXIT_RAISED
        finally:
            os._exit(code)
    _pid, status = os.waitpid(pid, 0)
    code = os.waitstatus_to_exitcode(status)
    trace = []
    try:
        with open(trace_path) as f:
            trace = [json.loads(l) for l in f if l.strip()]
    except OSError:
        pass
    st = {EXIT_CRASHED: "crashed", EXIT_COMPLETED: "completed", EXIT_RAISED: "raised"}.get(code, f"exit{code}")
    return st, trace
