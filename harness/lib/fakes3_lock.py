"""Minimal in-memory S3 client for ONE lock object: strongly consistent, atomic conditional writes
(IfNoneMatch='*', IfMatch=<etag>), ETags fresh on every write, LastModified from the virtual clock,
unconditional DELETE.  The store keeps LastModified as an instant (virtual ms); the datetime OBJECT a reply
carries is built by `self.render` = (utcoffset of the aware rendering | None for naive, tzinfo flavour), which
the run's "env" events change (lockshims.render_last_modified).  Every request entry is a yield point of the cooperative scheduler, and the
controller can inject a fault into the request the actor is parked at:

    None          served
    "transient"   botocore ClientError, retryable code (SlowDown), request has NO effect
    "permanent"   botocore ClientError, permanent code (AccessDenied), no effect
    "lost"        the request takes effect, then the client gets a retryable ClientError (reply lost)

Self-contained on purpose (harness/lib/fakes3.py of another property is more general).
"""
from __future__ import annotations

import io
from typing import Any, Dict, List, Optional, Tuple

from botocore.exceptions import ClientError

from .coop import Scheduler
from .lockshims import render_last_modified


def _err(code: str, status: int, op: str) -> ClientError:
    return ClientError({"Error": {"Code": code, "Message": f"{code} (fake)"},
                        "ResponseMetadata": {"HTTPStatusCode": status}}, op)


class FakeS3Lock:
    def __init__(self, sched: Scheduler):
        self.sched = sched
        self.obj: Optional[Dict[str, Any]] = None     # {"body": bytes, "etag": int, "lm": ms}
        self.next_etag = 0
        self.render: Tuple[Optional[int], str] = (0, "std")   # how replies render LastModified
        # (time_ms, actor, op, cond, fault, outcome, owner_before, lm_before) -- the oracle's ground truth
        self.log: List[Dict[str, Any]] = []

    # ------------------------------------------------------------------ helpers
    @staticmethod
    def etag_str(n: int) -> str:
        return f'"e{n}"'

    @staticmethod
    def etag_num(s: Optional[str]) -> Optional[int]:
        if s is None:
            return None
        return int(s.strip('"')[1:])

    def _lm(self, ms: int) -> Any:
        return render_last_modified(ms, self.render[0], self.render[1])

    def _enter(self, op: str, cond: Any) -> Any:
        return self.sched.yield_point("s3", (op, cond))

    def _record(self, op: str, cond: Any, fault: Any, outcome: Any, before: Optional[Dict[str, Any]], landed: bool = False) -> None:
        a = self.sched.current()
        self.log.append({"t": self.sched.clock.now, "actor": a.aid if a else None, "op": op, "cond": cond,
                         "fault": fault, "outcome": outcome, "landed": landed,
                         "owner_before": before["body"].decode() if before else None,
                         "lm_before": before["lm"] if before else None,
                         "owner_after": self.obj["body"].decode() if self.obj else None})
        self.sched.log("s3", op, cond, fault, outcome)

    def _write(self, body: bytes) -> int:
        e = self.next_etag
        self.next_etag += 1
        self.obj = {"body": bytes(body), "etag": e, "lm": self.sched.clock.now}
        return e

    def _fault(self, fault: Any, op: str) -> ClientError:
        if fault == "permanent":
            return _err("AccessDenied", 403, op)
        return _err("SlowDown", 503, op)

    # ------------------------------------------------------------------ the four requests the lock uses
    def put_object(self, Bucket: str, Key: str, Body: bytes, IfNoneMatch: Optional[str] = None,
                   IfMatch: Optional[str] = None, **_kw: Any) -> Dict[str, Any]:
        op = "put_absent" if IfNoneMatch is not None else ("put_match" if IfMatch is not None else "put")
        cond = self.etag_num(IfMatch) if IfMatch is not None else None
        fault = self._enter(op, cond)
        before = dict(self.obj) if self.obj else None
        if fault in ("transient", "permanent"):
            self._record(op, cond, fault, ("err", fault), before)
            raise self._fault(fault, "PutObject")
        # precondition
        if IfNoneMatch is not None and self.obj is not None:
            out = ("precond",)
        elif IfMatch is not None and self.obj is None:
            out = ("missing",)
        elif IfMatch is not None and self.obj["etag"] != cond:
            out = ("precond",)
        else:
            out = ("etag", self._write(Body))
        if fault == "lost":
            self._record(op, cond, fault, ("err", fault), before, landed=out[0] == "etag")
            raise self._fault(fault, "PutObject")
        self._record(op, cond, fault, out, before, landed=out[0] == "etag")
        if out[0] == "precond":
            raise _err("PreconditionFailed", 412, "PutObject")
        if out[0] == "missing":
            raise _err("NoSuchKey", 404, "PutObject")
        return {"ETag": self.etag_str(out[1])}

    def head_object(self, Bucket: str, Key: str, **_kw: Any) -> Dict[str, Any]:
        fault = self._enter("head", None)
        before = dict(self.obj) if self.obj else None
        if fault is not None:
            self._record("head", None, fault, ("err", fault), before)
            raise self._fault(fault, "HeadObject")
        if self.obj is None:
            self._record("head", None, None, ("missing",), before)
            raise _err("404", 404, "HeadObject")
        self._record("head", None, None, ("head", self.obj["lm"], self.obj["etag"]), before)
        return {"LastModified": self._lm(self.obj["lm"]), "ETag": self.etag_str(self.obj["etag"]),
                "ContentLength": len(self.obj["body"])}

    def get_object(self, Bucket: str, Key: str, **_kw: Any) -> Dict[str, Any]:
        fault = self._enter("get", None)
        before = dict(self.obj) if self.obj else None
        if fault is not None:
            self._record("get", None, fault, ("err", fault), before)
            raise self._fault(fault, "GetObject")
        if self.obj is None:
            self._record("get", None, None, ("missing",), before)
            raise _err("NoSuchKey", 404, "GetObject")
        self._record("get", None, None, ("owner", self.obj["body"].decode()), before)
        return {"Body": io.BytesIO(self.obj["body"]), "ETag": self.etag_str(self.obj["etag"]),
                "LastModified": self._lm(self.obj["lm"])}

    def delete_object(self, Bucket: str, Key: str, **_kw: Any) -> Dict[str, Any]:
        fault = self._enter("delete", None)
        before = dict(self.obj) if self.obj else None
        if fault in ("transient", "permanent"):
            self._record("delete", None, fault, ("err", fault), before)
            raise self._fault(fault, "DeleteObject")
        self.obj = None
        if fault == "lost":
            self._record("delete", None, fault, ("err", fault), before, landed=True)
            raise self._fault(fault, "DeleteObject")
        self._record("delete", None, None, ("done",), before, landed=True)
        return {}
