"""Python value <-> Model/Value.v `value` terms, plus the small value domains used by C11/C12/C13."""
from __future__ import annotations

import datetime as dt
import math
from fractions import Fraction
from typing import Any, Dict, List

from .coqio import C, Raw

EPOCH = dt.datetime(1970, 1, 1)


def num_to_coq(f: float) -> str:
    if f != f:
        return "NaN"
    if f == math.inf:
        return "PInf"
    if f == -math.inf:
        return "NInf"
    fr = Fraction(f)
    return f"(Fin (Qmake ({fr.numerator})%Z ({fr.denominator})%positive))"


def val_to_coq(v: Any) -> str:
    if v is None:
        return "VNull"
    if isinstance(v, bool):
        return f"(VBool {'true' if v else 'false'})"
    if isinstance(v, int):
        return f"(VInt ({v})%Z)"
    if isinstance(v, float):
        return f"(VFlt {num_to_coq(v)})"
    if isinstance(v, str):
        return "(VStr [" + "; ".join(f"{ord(c)}%Z" for c in v) + "])"
    if isinstance(v, dt.datetime):
        d = v - EPOCH
        us = (d.days * 86400 + d.seconds) * 1000000 + d.microseconds
        return f"(VTs ({us})%Z)"
    if isinstance(v, dt.date):
        return f"(VDate ({v.toordinal()})%Z)"
    if isinstance(v, dt.time):
        us = ((v.hour * 60 + v.minute) * 60 + v.second) * 1000000 + v.microsecond
        return f"(VTime ({us})%Z)"
    raise TypeError(f"val_to_coq: {type(v)}")


def vals_to_coq(vs: List[Any]) -> str:
    return "[" + "; ".join(val_to_coq(v) for v in vs) + "]"


def val_json(v: Any) -> Any:
    """JSON-friendly, reversible description of a value (for replay files)."""
    if v is None or isinstance(v, (bool, int, str)):
        return {"k": type(v).__name__, "v": v}
    if isinstance(v, float):
        return {"k": "float", "v": v.hex() if v == v and abs(v) != math.inf else repr(v)}
    if isinstance(v, dt.datetime):
        return {"k": "datetime", "v": v.isoformat()}
    if isinstance(v, dt.date):
        return {"k": "date", "v": v.isoformat()}
    if isinstance(v, dt.time):
        return {"k": "time", "v": v.isoformat()}
    if isinstance(v, (list, tuple)):
        return {"k": "list", "v": [val_json(i) for i in v]}
    if isinstance(v, (bytes, bytearray)):
        return {"k": "bytes", "v": bytes(v).hex()}
    raise TypeError(type(v))


def val_unjson(j: Any) -> Any:
    k, v = j["k"], j["v"]
    if k == "NoneType":
        return None
    if k in ("bool", "int", "str"):
        return v
    if k == "float":
        if v in ("nan", "inf", "-inf"):
            return float(v)
        return float.fromhex(v)
    if k == "datetime":
        return dt.datetime.fromisoformat(v)
    if k == "date":
        return dt.date.fromisoformat(v)
    if k == "time":
        return dt.time.fromisoformat(v)
    if k == "list":
        return [val_unjson(i) for i in v]
    if k == "bytes":
        return bytes.fromhex(v)
    raise TypeError(k)


NAN = float("nan")
# long strings that differ only after a long common prefix (bounds must not be truncated / rounded)
LONG_A = "https://example.org/" + "p" * 300 + "/a"
LONG_B = "https://example.org/" + "p" * 300 + "/b"
INF = float("inf")

# column kinds: iceberg type name -> small value domain (cells; None = NULL added separately)
DOMAIN: Dict[str, List[Any]] = {
    "long": [-1, 0, 1, 2, 5, 2**53 + 1],
    "int": [-1, 0, 1, 2, 5],
    "double": [-1.5, 0.0, 1.0, 2.5, 5.0, NAN, INF, -INF],
    "float": [-1.5, 0.0, 0.1, 1.0, 5.0, NAN],
    "string": ["", "a", "ab", "b", "123", "é", LONG_A, LONG_B],
    "boolean": [False, True],
    "timestamp": [dt.datetime(2020, 1, 1), dt.datetime(2020, 1, 1, 0, 0, 0, 5), dt.datetime(2021, 6, 1, 12)],
    "date": [dt.date(2020, 1, 1), dt.date(2020, 1, 2), dt.date(1969, 12, 31)],
    "time": [dt.time(0, 0, 0), dt.time(12, 30, 0, 7)],
}

# literals tried against every column kind (cross-kind on purpose)
LITERALS: List[Any] = [
    -2, -1, 0, 1, 2, 3, 5, 6, 2**53, 2**53 + 1, 2**53 + 2,
    -1.5, 0.0, 0.1, 0.5, 1.0, 2.5, 5.0, 5.5, NAN, INF, -INF,
    "", "a", "aa", "b", "c", "123", "é", LONG_A, LONG_B, LONG_A[:64],
    False, True, None,
    dt.datetime(2019, 1, 1), dt.datetime(2020, 1, 1), dt.datetime(2020, 1, 1, 0, 0, 0, 5), dt.datetime(2022, 1, 1),
    dt.date(2020, 1, 1), dt.date(2020, 1, 2), dt.date(2025, 1, 1),
    dt.time(0, 0, 0), dt.time(13, 0, 0),
]


def same(a: Any, b: Any) -> bool:
    """Equality that treats NaN as equal to NaN and distinguishes types bool/int/float."""
    if isinstance(a, float) and isinstance(b, float):
        return (a != a and b != b) or (a == b and math.copysign(1, a) == math.copysign(1, b)) or (a == b == 0)
    if type(a) is not type(b):
        return False
    return a == b
