"""C13 -- File pruning never changes a query's answer.

Proof      : coq/Props/C13.v (C13_prune_sound, C13_scan_equal, C13_bounds_true) over
             Gen/GenPrune.v, which is REGENERATED from filters._file_may_match on every run;
             C13_bound_roundtrip over Gen/GenBound.v (_encode_bound / _decode_bound);
             C13_manifest_roundtrip, C13_prune_sound_via_manifest, C13_scan_equal_via_manifest over
             Gen/GenManifest13.v, REGENERATED from FileManager.create_manifest_file / read_manifest_file (entry order,
             the per-record bounds expressions, the reader): any number of ADDED / EXISTING entries and columns, each
             DataFile comes back with its own bounds (value and type), so pruning on a manifest's bounds is sound.
             The KEYS of the bounds (field ids): C13_schema_ids_are_ints over Gen/GenFieldKey.v, the guards on a field's id REGENERATED
             from Schema.__post_init__ (every accepted schema has pairwise different INT ids; false -- and not compiling -- for a
             constructor that only tests `f_id in seen_ids`); C13_key_codec_inverse (int(str(z)) = z for every int: the decimal rendering
             and Python's int() parser, Model/FieldKey.v); C13_bound_keys_roundtrip / C13_accepted_schema_keys_roundtrip (a statistics map
             keyed by such ids survives the writer's and reader's dict comprehensions unchanged); C13_bound_keys_roundtrip_distinct_ids_refuted
             (for ids that are merely pairwise != it does not: 1 and "1"); C13_scan_equal_accepted_schema (id uniqueness no longer a
             hypothesis); C13_entry_survives_rewrite over Gen/GenEntryCodec.v with the real bound and key codecs (bounds survive
             write / read / carry-over as EXISTING / read).
Tie        : translator (GenPrune, GenBound, GenManifest13) + correspondence of every hand-written model piece with the code:
               prims    Python <,<=,== on values           vs Model/Value.v py_lt/py_le/py_eqb
               prune    filters._file_may_match            vs Model/Prune.v file_may_match (uses Gen)
               bounds   DataFileManager._compute_column_bounds vs Model/Prune.v bounds_of
               select   real pyarrow evaluation of the compiled filter vs Model/Prune.v selected
               codec    _encode_bound's tag / _decode_bound's value vs Model/Bound.v enc / dec
               manifest real create_manifest_file -> raw Avro records -> read_manifest_file on multi-entry, multi-column
                        manifests (bounds of different columns / files equal as Python values but differently typed)
                        vs Model/Manifest13.v write_manifest / via_manifest, and the pruning decision on the DataFile read back
               keys     Python str(k) / int(s) vs Model/FieldKey.v kenc / kdec; real create_manifest_file -> raw Avro keys ->
                        read_manifest_file on DataFiles keyed by ARBITRARY Python ids vs key_trip (merged / renamed / unreadable)
               schema-ids  the real Schema constructor on id lists of None / bool / int / float / str objects vs Model/SchemaIds.v
                        schema_ids_ok (over the regenerated guards)
Oracle /   : implementation-only, independent of the model:
search       unsound  real bounds of a multi-column file -> real manifest (sibling entries, ADDED / EXISTING) -> real
                        _file_may_match says skip -> real pyarrow selects a row
               manifest every bound of every entry of a real manifest comes back under its FIELD ID with its value and type --
                        from the manifest, from a second manifest written from the same objects, and from the manifest a partial
                        delete writes from the DataFiles it read back (not yet looked into); field ids = whatever Schema accepts
               e2e      scan(filter) with pruning vs the same scan with pruning disabled, real tables (single appends,
                        multi-append transactions, partial deletes that rewrite a manifest, retried commits; schemas with whatever
                        field ids the constructor accepts, incl. a family of same-kind columns under ids that meet as str(); appends
                        that pass schema= explicitly with the table's columns under re-ordered ids, accepted or refused);
                        in / not_in value sets held by every iterable kind (list, set, frozenset, dict views, range, deque,
                        iterator, generator, map object -- each scan gets a fresh object, harness/lib/sqlref.py realise); tables
                        WRITTEN by a process in one time zone and READ by a process in another (harness/lib/procconf.py)
               codec    _decode_bound(_encode_bound(v)) is v, type-faithfully -- with the encoding and the decoding process in
                        every time zone of procconf.TZ_CHOICES (the `codec` correspondence demands the same of the real codec)
Finding    : (shared with C12) an in / not_in value set was iterated twice -- by the expression builder, then by file pruning: a
             one-shot iterable was empty for pruning, which skipped every file; scan(filter={'a': ('in', iter([7]))}) returned []
             with pruning and the row without (VIOLATION scan-differs:in-one-shot-value-set on the unchanged tree; repaired in
             parse_filter_dict, which materialises the value set once).  The Coq model holds value sets as lists (`flval`): the
             repaired parser hands pruning a list (Props/C12.v C12_value_set_kind_irrelevant).
"""
from __future__ import annotations

import datetime as dt
import itertools
import math
import os
import shutil
import tempfile
import time
from typing import Any, Dict, List, Optional, Tuple

from harness.lib import coqbuild, procconf, sqlref
from harness.lib.values import DOMAIN, LITERALS, NAN, same, val_json, val_to_coq, val_unjson, vals_to_coq

LEVEL = "proof"
THEOREMS = ["C13_prune_sound", "C13_scan_equal", "C13_bounds_true", "C13_bound_roundtrip",
            "C13_manifest_roundtrip", "C13_prune_decision_via_manifest", "C13_prune_sound_via_manifest", "C13_scan_equal_via_manifest",
            "C13_schema_ids_are_ints", "C13_key_codec_inverse", "C13_bound_keys_roundtrip", "C13_accepted_schema_keys_roundtrip",
            "C13_bound_keys_roundtrip_distinct_ids_refuted", "C13_scan_equal_accepted_schema", "C13_entry_survives_rewrite"]
REQ = ["DS.Model.Value", "DS.Gen.GenPrune", "DS.Model.Prune"]
REQB = ["DS.Model.Value", "DS.Model.BoundPrim", "DS.Gen.GenBound", "DS.Model.Bound"]
REQM = ["DS.Model.Value", "DS.Model.BoundPrim", "DS.Gen.GenBound", "DS.Model.Bound", "DS.Model.ManifestPrim", "DS.Gen.GenManifest13",
        "DS.Gen.GenPrune", "DS.Model.Prune", "DS.Model.Manifest13"]

MANIFEST_ENTRY = {
    "level_text": "field ids (the keys of the bounds): C13_schema_ids_are_ints proved over the id guards regenerated from "
                  "Schema.__post_init__ (accepted schemas have pairwise different int ids), C13_key_codec_inverse (int(str(z)) = z, "
                  "all z, over a model of Python's int() parser), C13_bound_keys_roundtrip / C13_accepted_schema_keys_roundtrip (maps "
                  "keyed by such ids survive the two dict comprehensions), ..._distinct_ids_refuted (not so for merely pairwise-!= "
                  "ids), C13_scan_equal_accepted_schema, C13_entry_survives_rewrite (regenerated entry codec with the real bound / "
                  "key codecs: write, read, carry over as EXISTING, read); "
                  "C13_prune_sound / C13_scan_equal / C13_bounds_true proved in Coq for every file content, schema, filter "
                  "conjunction and literal (unbounded), over the pruning decision regenerated from filters._file_may_match on "
                  "every run; C13_bound_roundtrip over the regenerated bound codec; C13_manifest_roundtrip / "
                  "C13_prune_sound_via_manifest / C13_scan_equal_via_manifest for every manifest (any number of ADDED and "
                  "EXISTING entries, columns and bounds, incl. bounds equal as Python values but differently typed) over the "
                  "record construction and reader regenerated from create_manifest_file / read_manifest_file; hand-written "
                  "model pieces (Python comparison semantics, bounds computation, pyarrow selection, codec, manifest trip) "
                  "are tied to the code by differential execution on exhaustive small domains and multi-entry manifests; "
                  "implementation-only oracles (real multi-column bounds -> real manifest -> real pruning -> real pyarrow; "
                  "every bound of a real manifest comes back type-faithfully; pruned vs unpruned scans over single appends, "
                  "multi-append transactions, partial deletes and retried commits) search for a failing input",
    "level_note": "the pruning / manifest model is stated over INT field ids (what the constructor admits, by C13_schema_ids_are_ints); "
                  "the key trip for arbitrary Python ids is Model/FieldKey.v key_trip (tied by the `keys` correspondence), not the "
                  "pruning model itself; C13_scan_equal* speak of scans pyarrow does not refuse (a pruned scan may return where the "
                  "unpruned one raises: DESIGN.md C13 Interpretation); C13_bound_roundtrip does not speak of the sign of a float zero nor "
                  "of the text of temporal bounds (codec oracle on the real code); legacy untagged bounds and the JSON-manifest fallback "
                  "of read_manifest_file are not modelled; Python's int() on digits of other scripts is outside the key model; "
                  "trusted: Coq kernel; translator/gen_prune.py, gen_bound.py, gen_manifest13.py, gen_fieldkey.py, gen_entrycodec.py; assumption PA-exact (pyarrow "
                  "evaluates a filter exactly or raises; lossy is_in casts are an unconstrained oracle X); assumptions JSON-exact "
                  "and Avro-exact (json / fastavro give back the payloads, records and string maps they were given; validated "
                  "on real manifests every run); columns are kind-homogeneous; the harness runs the code faithfully",
    "technique": "Coq proof over translator-regenerated pruning kernel, bound codec and manifest record construction + "
                 "differential correspondence",
    "design_ref": "DESIGN.md section 5 C13",
}

OPS = ["EQ", "NE", "LT", "LE", "GT", "GE", "IN", "NOT_IN", "IS_NULL", "IS_NOT_NULL"]
SCALAR_OPS = ["EQ", "NE", "LT", "LE", "GT", "GE"]


def _imports():
    import pyarrow as pa
    from datashard import filters
    from datashard.data_structures import DataFile, FileFormat, Schema
    return pa, filters, DataFile, FileFormat, Schema


def fexpr_coq(col: int, op: str, value: Any) -> str:
    if op in ("IN", "NOT_IN"):
        return f"{{| fcol := {col}; fop_ := {op}; fsval := VNull; flval := {vals_to_coq(list(value))} |}}"
    return f"{{| fcol := {col}; fop_ := {op}; fsval := {val_to_coq(value)}; flval := [] |}}"


def bounds_coq(b: Dict[int, Any]) -> str:
    return "[" + "; ".join(f"({k}, {val_to_coq(v)})" for k, v in b.items()) + "]"


def py_cmp(fn) -> Any:
    try:
        return bool(fn())
    except TypeError:
        return None


# ---------------------------------------------------------------------------------- correspondence
def corr_prims(ctx) -> None:
    vals = list(LITERALS)
    for d in DOMAIN.values():
        for v in d:
            if not any(same(v, w) for w in vals):
                vals.append(v)
    pairs = list(itertools.product(vals, vals))
    if ctx.tier == "quick":
        pairs = ctx.rng.sample(pairs, 900)
    exprs = [f"(py_lt {val_to_coq(a)} {val_to_coq(b)}, py_le {val_to_coq(a)} {val_to_coq(b)}, py_eqb {val_to_coq(a)} {val_to_coq(b)})" for a, b in pairs]
    got = coqbuild.coq_eval(REQ, exprs)
    bad = []
    for (a, b), g in zip(pairs, got):
        exp = (py_cmp(lambda: a < b), py_cmp(lambda: a <= b), bool(a == b))
        g = tuple(x.x if hasattr(x, "x") else x for x in g)
        if tuple(g) != exp:
            bad.append({"a": val_json(a), "b": val_json(b), "python": exp, "model": list(g)})
    ctx.correspondence("prims", len(pairs), bad)
    ctx.stats["prims_pairs"] = len(pairs)


def gen_prune_cases(ctx) -> List[Tuple[Dict[int, Any], Dict[int, Any], Dict[str, int], List[Tuple[str, str, Any]]]]:
    """(lower_bounds, upper_bounds, col_name_to_id, [(column, op, value)])"""
    cases = []
    rng = ctx.rng
    for kind, dom in DOMAIN.items():
        bvals = [v for v in dom]
        pairs = [(a, b) for a in bvals for b in bvals]
        for fmin, fmax in pairs:
            lits = LITERALS if ctx.tier == "thorough" else rng.sample(LITERALS, 6)
            for op in SCALAR_OPS:
                for lit in lits:
                    cases.append(({1: fmin}, {1: fmax}, {"c": 1}, [("c", op, lit)]))
            nl = 12 if ctx.tier == "thorough" else 2
            for _ in range(nl):
                n = rng.choice([0, 1, 1, 2, 3])
                cases.append(({1: fmin}, {1: fmax}, {"c": 1}, [("c", "IN", [rng.choice(LITERALS) for _ in range(n)])]))
            cases.append(({1: fmin}, {1: fmax}, {"c": 1}, [("c", rng.choice(["NOT_IN"]), [rng.choice(LITERALS)])]))
            cases.append(({1: fmin}, {1: fmax}, {"c": 1}, [("c", rng.choice(["IS_NULL", "IS_NOT_NULL"]), None)]))
    # skeleton cases: unknown column, missing bound, conjunctions, second column
    for _ in range(400 if ctx.tier == "thorough" else 120):
        kind = rng.choice(list(DOMAIN))
        dom = DOMAIN[kind]
        lo = {1: rng.choice(dom), 2: rng.choice(DOMAIN["long"])}
        hi = {1: rng.choice(dom), 2: rng.choice(DOMAIN["long"])}
        if rng.random() < 0.3:
            del lo[rng.choice([1, 2])]
        if rng.random() < 0.3:
            del hi[rng.choice([1, 2])]
        ids = {"c": 1, "d": 2}
        es = []
        for _ in range(rng.choice([1, 2, 3])):
            col = rng.choice(["c", "d", "zz"])
            op = rng.choice(SCALAR_OPS + ["IN"])
            val = [rng.choice(LITERALS) for _ in range(rng.choice([0, 1, 2]))] if op == "IN" else rng.choice(LITERALS)
            es.append((col, op, val))
        cases.append((lo, hi, ids, es))
    return cases


COLNUM = {"c": 0, "d": 1, "zz": 9}


def corr_prune(ctx) -> None:
    pa, filters, DataFile, FileFormat, Schema = _imports()
    cases = gen_prune_cases(ctx)
    exprs, impl = [], []
    for lo, hi, ids, es in cases:
        df = DataFile(file_path="/data/x.parquet", file_format=FileFormat.PARQUET, partition_values={}, record_count=1,
                      file_size_in_bytes=1, lower_bounds=dict(lo), upper_bounds=dict(hi))
        fes = [filters.FilterExpression(c, filters.FilterOp[op], v) for c, op, v in es]
        impl.append(bool(filters._file_may_match(df, fes, ids)))
        ids_coq = "[" + "; ".join(f"({COLNUM[c]}, {i})" for c, i in ids.items()) + "]"
        es_coq = "[" + "; ".join(fexpr_coq(COLNUM[c], op, v) for c, op, v in es) + "]"
        exprs.append(f"file_may_match {bounds_coq(lo)} {bounds_coq(hi)} {ids_coq} {es_coq}")
    got = coqbuild.coq_eval(REQ, exprs)
    bad = []
    for case, i, g in zip(cases, impl, got):
        ctx.count(1, ("prune", repr(case)))
        if i != g:
            lo, hi, ids, es = case
            bad.append({"lower": {k: val_json(v) for k, v in lo.items()}, "upper": {k: val_json(v) for k, v in hi.items()},
                        "ids": ids, "exprs": [(c, op, val_json(v)) for c, op, v in es], "impl": i, "model": g})
    ctx.correspondence("prune", len(cases), bad)
    ctx.sample({"prune_case": {"lower": {k: val_json(v) for k, v in cases[0][0].items()}, "exprs": [(c, op, val_json(v)) for c, op, v in cases[0][3]], "impl": impl[0]}})
    pruned = sum(1 for x in impl if not x)
    ctx.stats["prune_cases"] = len(cases)
    ctx.stats["prune_decided_skip"] = pruned


ARROW = None


def arrow_type(kind: str):
    import pyarrow as pa
    return {"long": pa.int64(), "int": pa.int32(), "double": pa.float64(), "float": pa.float32(), "string": pa.string(),
            "boolean": pa.bool_(), "timestamp": pa.timestamp("us"), "date": pa.date32(), "time": pa.time64("us")}[kind]


def multisets(kind: str, maxn: int, rng, limit: Optional[int]) -> List[List[Any]]:
    dom = DOMAIN[kind] + [None]
    out = []
    for n in range(1, maxn + 1):
        out.extend(list(c) for c in itertools.combinations_with_replacement(dom, n))
    if limit is not None and len(out) > limit:
        out = rng.sample(out, limit)
    return out


def real_bounds(kind: str, vs: List[Any]):
    """Bounds exactly as the writer computes them (through the real _compute_column_bounds)."""
    import pyarrow as pa
    from datashard.data_operations import DataFileManager
    from datashard.data_structures import Schema
    schema = Schema(schema_id=1, fields=[{"id": 1, "name": "c", "type": kind, "required": False}])
    table = pa.table({"c": pa.array(vs, arrow_type(kind))})
    dfm = DataFileManager.__new__(DataFileManager)
    lo, hi = DataFileManager._compute_column_bounds(dfm, table, schema)
    return table, (lo or {}), (hi or {})


def canon_cell(kind: str, v: Any) -> Any:
    """What the column actually holds after Arrow conversion (float32 rounding etc.)."""
    import pyarrow as pa
    return pa.array([v], arrow_type(kind))[0].as_py()


def corr_bounds(ctx) -> None:
    cases = []
    for kind in DOMAIN:
        for vs in multisets(kind, 3, ctx.rng, 150 if ctx.tier == "quick" else None):
            cases.append((kind, vs))
    exprs, impl = [], []
    for kind, vs in cases:
        _t, lo, hi = real_bounds(kind, vs)
        impl.append((lo.get(1), hi.get(1)))
        cells = [canon_cell(kind, v) for v in vs]
        exprs.append(f"bounds_of {vals_to_coq(cells)}")
    got = coqbuild.coq_eval(REQ, [f"match {e} with Some (a, b) => [a; b] | None => [] end" for e in exprs])
    expected = coqbuild.coq_eval(REQ, [("[" + val_to_coq(lo) + "; " + val_to_coq(hi) + "]") if lo is not None and hi is not None else "(@nil value)" for lo, hi in impl])
    bad = []
    for (kind, vs), g, e, i in zip(cases, got, expected, impl):
        ctx.count(1, ("bounds", kind, repr(vs)))
        if (i[0] is None) != (i[1] is None) or g != e:
            bad.append({"kind": kind, "values": [val_json(v) for v in vs], "impl": [val_json(i[0]), val_json(i[1])], "model": repr(g)})
    ctx.correspondence("bounds", len(cases), bad)
    ctx.stats["bounds_cases"] = len(cases)


def pyarrow_selects(filters, table, col: str, op: str, value: Any):
    """Rows selected by the real compiled filter; 'raises' when pyarrow refuses."""
    fe = filters.FilterExpression(col, filters.FilterOp[op], value)
    try:
        expr = filters.to_pyarrow_compute_expression([fe])
        out = table.filter(expr)
        return out.column(col).to_pylist()
    except Exception as e:  # pyarrow kernel/type mismatch, lossy cast, overflow
        return ("raises", type(e).__name__)


def corr_select(ctx) -> None:
    import pyarrow as pa
    from datashard import filters
    cases = []
    for kind, dom in DOMAIN.items():
        for cellv in dom + [None]:
            for op in SCALAR_OPS:
                lits = LITERALS if ctx.tier == "thorough" else ctx.rng.sample(LITERALS, 5)
                for lit in lits:
                    cases.append((kind, cellv, op, lit))
            for _ in range(6 if ctx.tier == "thorough" else 2):
                n = ctx.rng.choice([0, 1, 2, 3])
                lst = [ctx.rng.choice(LITERALS + dom) for _ in range(n)]
                cases.append((kind, cellv, ctx.rng.choice(["IN", "NOT_IN"]), lst))
            cases.append((kind, cellv, "IS_NULL", None))
            cases.append((kind, cellv, "IS_NOT_NULL", None))
    exprs, impl, kept = [], [], []
    raises = 0
    for kind, cellv, op, lit in cases:
        table = pa.table({"c": pa.array([cellv], arrow_type(kind))})
        r = pyarrow_selects(filters, table, "c", op, lit)
        if isinstance(r, tuple):
            raises += 1
            continue
        cell = canon_cell(kind, cellv)
        sv = "VNull" if op in ("IN", "NOT_IN") else val_to_coq(lit)
        lv = vals_to_coq(lit) if op in ("IN", "NOT_IN") else "[]"
        c = val_to_coq(cell)
        if op in ("IN", "NOT_IN"):
            appl = f"forallb (fun w => is_null w || (negb (cast_lossy {c} w) && match vcmp {c} w with Some _ => true | None => is_null {c} end)) {lv}"
        elif op in ("IS_NULL", "IS_NOT_NULL"):
            appl = "true"
        else:
            appl = f"is_null {c} || is_null {sv} || match vcmp {c} {sv} with Some _ => true | None => false end"
        exprs.append(f"(selected (fun _ _ => false) {op} {c} {sv} {lv}, {appl})")
        impl.append(len(r) == 1)
        kept.append((kind, cellv, op, lit))
    got = coqbuild.coq_eval(REQ, exprs)
    bad = []
    outside = 0
    for case, i, (g, applicable) in zip(kept, impl, got):
        ctx.count(1, ("select", repr(case)))
        if not applicable:
            # outside assumption PA-exact: Python-incomparable kinds (pruning raises TypeError there and
            # never prunes) or a lossy is_in cast (oracle X in the theorems)
            outside += 1
            continue
        if i != g:
            kind, cellv, op, lit = case
            bad.append({"kind": kind, "cell": val_json(cellv), "op": op, "literal": val_json(lit), "pyarrow": i, "model": g})
    ctx.correspondence("select", len(kept), bad)
    ctx.stats["select_cases"] = len(kept)
    ctx.stats["select_pyarrow_raises"] = raises
    ctx.stats["select_outside_PA_exact"] = outside


# ---------------------------------------------------------------------------------- real manifests
NUMERIC_KINDS = ["long", "int", "double", "float", "boolean"]


def twin_value(kind2: str, v: Any) -> Any:
    """A cell of column kind `kind2` that is EQUAL to v as a Python value where one exists (1 == 1.0 == True, 0 == 0.0 == False,
    date vs midnight timestamp, "123" vs 123): columns that differ in type only.  None = NULL (no such value)."""
    if v is None:
        return None
    if isinstance(v, float) and v != v:
        return NAN if kind2 in ("double", "float") else None
    if isinstance(v, str) and kind2 in ("long", "int", "double"):
        try:
            v = int(v) if kind2 != "double" else float(v)
        except ValueError:
            return None
    if isinstance(v, (bool, int, float)):
        if isinstance(v, float) and (math.isinf(v) or v != int(v)):
            return v if kind2 == "double" else (str(v) if kind2 == "string" else None)
        x = int(v)
        if kind2 == "long":
            return x if abs(x) < 2**63 else None
        if kind2 == "int":
            return x if abs(x) < 2**31 else None
        if kind2 == "double":
            return float(x) if float(x) == x else None
        if kind2 == "float":
            return float(x) if float(x) == x and canon_cell("float", float(x)) == x else None
        if kind2 == "boolean":
            return bool(x) if x in (0, 1) else None
        if kind2 == "string":
            return str(v)
        return None
    if kind2 == "string":
        return v if isinstance(v, str) else str(v)
    if (kind2 == "timestamp" and isinstance(v, dt.datetime)) or (kind2 == "time" and isinstance(v, dt.time)) \
            or (kind2 == "date" and isinstance(v, dt.date) and not isinstance(v, dt.datetime)):
        return v
    if kind2 == "timestamp" and isinstance(v, dt.date) and not isinstance(v, dt.datetime):
        return dt.datetime(v.year, v.month, v.day)
    if kind2 == "date" and isinstance(v, dt.datetime):
        return v.date()
    return None


# ---------------------------------------------------------------------------------- field ids
# A schema's field ids key every DataFile's bounds; create_manifest_file stores each key as str(id), read_manifest_file reads it
# back as int(key).  Whatever Schema(...) ACCEPTS as ids is a legitimate input: plain ints in any order and magnitude, and -- as
# far as the constructor lets them through -- the other objects a caller or a JSON document can carry as an "id": objects that
# are pairwise != (the constructor's duplicate test) but which str() / int(str()) map onto one another (1 and "1", 2 and " 2",
# 7 and "07", 1 and "+1", 10 and "1_0"), non-canonical spellings on their own, floats, bools, None.
INT_IDS = [1, 2, 3, 4, 5, 7, 10, 12, 100, 1000, 0, -1, 2**31, 2**63, 2**70]


def id_twins(k: int) -> List[Any]:
    """Objects that are not the int k (and != k unless numeric) but that str() / int(str()) carry onto k."""
    out: List[Any] = [str(k), f" {k}", f"{k} ", f"{k}\n"]
    if k >= 0:
        out += [f"0{k}", f"+{k}", f"00{k}"]
    if k >= 10:
        out.append(f"{str(k)[0]}_{str(k)[1:]}")
    if k in (0, 1):
        out.append(bool(k))
    return out


def gen_field_ids(rng, n: int, unusual: float = 0.5, meet: float = 0.6) -> List[Any]:
    """n pairwise-!= candidate field ids: ints (any order / magnitude); with probability `unusual`, some of them replaced or
    accompanied by twins of an int (of one already chosen, so that two ids of the schema meet under str(), or of a fresh one)."""
    ids: List[Any] = []
    want_unusual = rng.random() < unusual
    guard = 0
    while len(ids) < n and guard < 200:
        guard += 1
        r = rng.random()
        ints_so_far = [i for i in ids if type(i) is int]
        if want_unusual and ints_so_far and r < meet:
            cand = rng.choice(id_twins(rng.choice(ints_so_far)))
        elif want_unusual and (r < meet + (1 - meet) * 0.4 if ints_so_far else r < 0.3):
            cand = rng.choice(id_twins(rng.choice(INT_IDS[:10])) + [None, 1.5, 2.0, "a", ""])
        else:
            cand = rng.choice(INT_IDS[:8] if rng.random() < 0.8 else INT_IDS)
        if any(cand == i for i in ids):         # Schema's duplicate test (set membership: ==)
            continue
        ids.append(cand)
    while len(ids) < n:
        ids.append(max([i for i in ids if type(i) is int] + [0]) + 1)
    return ids


def schema_accepts(ids: List[Any], kinds: Optional[List[str]] = None) -> bool:
    """Does the real Schema constructor accept these field ids?"""
    from datashard.data_structures import Schema
    kinds = kinds or ["long"] * len(ids)
    try:
        Schema(schema_id=1, fields=[{"id": i, "name": f"c{n}", "type": k, "required": False} for n, (i, k) in enumerate(zip(ids, kinds))])
        return True
    except (ValueError, TypeError):
        return False


ID_STATS = {"offered_non_int": 0, "accepted_non_int": 0}


def accepted_field_ids(rng, n: int, unusual: float = 0.5, meet: float = 0.6) -> List[Any]:
    """Field ids the real Schema constructor accepts (what it rejects is no input of the library): the generated ids when it takes
    them, plain ints otherwise."""
    ids = gen_field_ids(rng, n, unusual, meet)
    non_int = any(type(i) is not int for i in ids)
    if non_int:
        ID_STATS["offered_non_int"] += 1
    if schema_accepts(ids):
        if non_int:
            ID_STATS["accepted_non_int"] += 1
        return ids
    plain = rng.sample(INT_IDS[:10], n)
    return plain


def id_text(i: Any) -> str:
    return f"{i!r}:{type(i).__name__}"


def bounds_same(orig: Optional[Dict[int, Any]], back: Optional[Dict[int, Any]]) -> bool:
    """Same field ids, and under each the same value of the same type ({} and None both mean `no bounds`)."""
    o, b = orig or {}, back or {}
    return sorted(map(id_text, o)) == sorted(map(id_text, b)) and all(same(o[k], b[k]) for k in o)


def bmap_json(b: Optional[Dict[Any, Any]]) -> Any:
    # field ids are JSON values themselves (int / str / float / bool / None) and keep their type in the replay file
    return None if b is None else [[k, val_json(v)] for k, v in b.items()]


def bmap_unjson(j: Any) -> Optional[Dict[Any, Any]]:
    return None if j is None else {k: val_unjson(v) for k, v in j}


class ManifestUnreadable(Exception):
    """read_manifest_file could not parse a manifest create_manifest_file wrote (e.g. a field id whose str() is no int literal):
    every read of such a table fails, with and without pruning alike -- not a statement about pruning; counted, not judged."""


class ManifestBench:
    """A real table in the scratch directory; its real FileManager writes and reads the manifests under test."""

    def __init__(self, ctx, name: str = "manifest-bench") -> None:
        from datashard import create_table
        from datashard.data_structures import Schema
        self.path = os.path.join(ctx.scratch, name)
        shutil.rmtree(self.path, ignore_errors=True)
        self.table = create_table(self.path, Schema(schema_id=1, fields=[{"id": 1, "name": "c", "type": "long", "required": False}]))
        self.fm = self.table.file_manager
        self.n = 0
        self.manifests = 0

    def datafile(self, lo: Optional[Dict[int, Any]], hi: Optional[Dict[int, Any]], existing: bool = False) -> Any:
        _pa, _filters, DataFile, FileFormat, _Schema = _imports()
        self.n += 1
        return DataFile(file_path=f"/data/f{self.n}.parquet", file_format=FileFormat.PARQUET, partition_values={}, record_count=1,
                        file_size_in_bytes=1, lower_bounds=None if lo is None else dict(lo), upper_bounds=None if hi is None else dict(hi),
                        added_snapshot_id=7 if existing else None, sequence_number=1 if existing else None)

    def trip(self, added: List[Tuple[Any, Any]], existing: List[Tuple[Any, Any]], want_raw: bool = False,
             objects: Optional[Tuple[List[Any], List[Any]]] = None, second_read: Optional[List[Any]] = None) -> Tuple[List[Any], List[Any], List[Any]]:
        """One create_manifest_file(added, existing_files=existing) -> read_manifest_file.  Returns (the DataFile objects handed to
        the writer, in entry order; the DataFiles read back; the raw Avro records if asked).  `objects` re-uses DataFile objects
        that were already written once (a retried commit rebuilds its manifests from the same in-memory objects; a partial delete
        carries over the DataFiles it READ from the old manifest).  `second_read`: a list that receives the DataFiles of a second,
        independent read_manifest_file of the same manifest (objects nobody has looked into yet).  A manifest the reader cannot
        parse raises ManifestUnreadable."""
        if objects is None:
            a = [self.datafile(lo, hi) for lo, hi in added]
            e = [self.datafile(lo, hi, True) for lo, hi in existing]
        else:
            a, e = objects
        mf = self.fm.create_manifest_file(a, snapshot_id=9, existing_files=e, sequence_number=2)
        self.manifests += 1
        path = mf.manifest_path.lstrip("/")
        try:
            back = self.fm.read_manifest_file(path)
            if second_read is not None:
                second_read.extend(self.fm.read_manifest_file(path))
        except ValueError as ex:
            try:
                self.table.storage.delete_file(path)
            except Exception:   # noqa: BLE001  (scratch hygiene only)
                pass
            raise ManifestUnreadable(repr(ex)[:200]) from ex
        raw: List[Any] = []
        if want_raw:
            import fastavro
            from io import BytesIO
            raw = list(fastavro.reader(BytesIO(self.table.storage.read_file(path))))
        try:
            self.table.storage.delete_file(path)
        except Exception:   # noqa: BLE001  (scratch hygiene only)
            pass
        return a + e, back, raw


def gen_column_bounds(rng, kind: str) -> Tuple[Any, Any]:
    """(min, max) as the writer can compute them for a column of that kind."""
    dom = [canon_cell(kind, v) for v in DOMAIN[kind] if not (isinstance(v, float) and v != v)]
    if kind in ("double", "float") and rng.random() < 0.1:
        return NAN, NAN                                     # every non-null value is NaN
    a, b = rng.choice(dom), rng.choice(dom)
    if rng.random() < 0.35:
        b = a                                               # single-valued column
    return (a, b) if a <= b else (b, a)


def gen_manifest_case(rng) -> Dict[str, Any]:
    """One manifest: ADDED entries (the files of one, possibly multi-append, transaction) and EXISTING entries (survivors of a
    partial delete), several columns each.  Columns of different numeric kinds share values (0 / 0.0 / False, 1 / 1.0 / True, ...), so
    bounds that are equal as Python values but differently typed sit next to each other, within one file and across files."""
    ncols = rng.choice([1, 2, 3, 4])
    pool = NUMERIC_KINDS if rng.random() < 0.6 else list(DOMAIN)
    kinds = [rng.choice(pool) for _ in range(ncols)]
    ids = accepted_field_ids(rng, ncols, 0.3)           # whatever the real Schema constructor accepts as field ids
    nadd, nex = rng.choice([0, 1, 1, 2, 3]), rng.choice([0, 0, 1, 2])
    if nadd + nex == 0:
        nadd = 1
    hot = rng.choice([0, 1, 1, 2, 5, -1, "123", dt.date(2020, 1, 1)])     # the value many columns hold, each in its own type
    files = []
    for _ in range(nadd + nex):
        r = rng.random()
        if r < 0.06:
            files.append((None, None))
            continue
        if r < 0.1:
            files.append(({}, {}))
            continue
        lo: Dict[int, Any] = {}
        hi: Dict[int, Any] = {}
        for fid, kind in zip(ids, kinds):
            if rng.random() < 0.1:
                continue                                    # all-NULL column: no bound
            tw = twin_value(kind, hot)
            if tw is not None and rng.random() < 0.55:
                a = b = canon_cell(kind, tw)
                if rng.random() < 0.3:
                    _x, b = gen_column_bounds(rng, kind)
                    if not (isinstance(b, float) and b != b) and b < a:
                        a, b = b, a
                    elif isinstance(b, float) and b != b:
                        b = a
            else:
                a, b = gen_column_bounds(rng, kind)
            lo[fid], hi[fid] = a, b
        files.append((lo, hi))
    return {"kinds": kinds, "ids": ids, "added": files[:nadd], "existing": files[nadd:], "drop": rng.randrange(4)}


def manifest_case_json(case: Dict[str, Any]) -> Dict[str, Any]:
    return {"manifest": True, "kinds": case["kinds"], "ids": case["ids"], "drop": case.get("drop", 0),
            "added": [[bmap_json(lo), bmap_json(hi)] for lo, hi in case["added"]],
            "existing": [[bmap_json(lo), bmap_json(hi)] for lo, hi in case["existing"]]}


def manifest_case_unjson(j: Dict[str, Any]) -> Dict[str, Any]:
    return {"kinds": j["kinds"], "ids": j["ids"], "drop": j.get("drop", 0), "added": [(bmap_unjson(lo), bmap_unjson(hi)) for lo, hi in j["added"]],
            "existing": [(bmap_unjson(lo), bmap_unjson(hi)) for lo, hi in j["existing"]]}


def manifest_case_problems(bench: ManifestBench, case: Dict[str, Any]) -> List[Dict[str, Any]]:
    """Implementation only: every entry of the manifest comes back in its place with its own bounds -- under its own FIELD ID, value
    AND type -- (1) from the first manifest written for these DataFile objects, (2) from a second one written from the same objects
    (a retried commit), and (3) from the manifest a partial delete writes: the DataFiles READ from the first manifest (fresh objects,
    not yet looked into by any filter), minus one, carried over as EXISTING entries."""
    inputs = case["added"] + case["existing"]
    nadd = len(case["added"])
    fresh: List[Any] = []
    written, back1, _raw = bench.trip(case["added"], case["existing"], second_read=fresh)
    paths = [w.file_path for w in written]
    trips: List[Tuple[str, List[Tuple[Any, Any]], List[str], List[Any]]] = [("", inputs, paths, back1)]
    try:
        _w, back2, _raw = bench.trip([], [], objects=(written[:nadd], written[nadd:]))
    except ManifestUnreadable:
        raise
    except Exception as e:      # noqa: BLE001
        return [{"what": f"writing a second manifest from the same DataFile objects raises {e!r}"[:300], "from": "rewrite", "to": "raises"}]
    trips.append((" (second manifest written from the same DataFile objects)", inputs, paths, back2))
    if len(fresh) == len(inputs) and len(fresh) >= 2:
        drop = case.get("drop", 0) % len(fresh)
        keep = [i for i in range(len(fresh)) if i != drop]
        try:
            _w, back3, _raw = bench.trip([], [], objects=([], [fresh[i] for i in keep]))
        except ManifestUnreadable:
            raise
        except Exception as e:      # noqa: BLE001
            return [{"what": f"rewriting the manifest from the DataFiles read back (entry {drop} deleted) raises {e!r}"[:300], "from": "rewrite", "to": "raises"}]
        trips.append((f" (manifest rewritten by a partial delete: the DataFiles read back, entry {drop} removed, carried over as EXISTING)",
                      [inputs[i] for i in keep], [paths[i] for i in keep], back3))
    out = []
    for tn, ins, pths, back in trips:
        if len(back) != len(ins):
            out.append({"what": f"{len(ins)} entries written, {len(back)} read back{tn}", "from": "list", "to": "list"})
            continue
        for i, ((olo, ohi), path, b) in enumerate(zip(ins, pths, back)):
            if path != b.file_path:
                out.append({"what": f"entry {i}: file {path} came back as {b.file_path}{tn}", "from": "path", "to": "path"})
                continue
            for side, ow, bw in (("lower", olo, b.lower_bounds), ("upper", ohi, b.upper_bounds)):
                if bounds_same(ow, bw):
                    continue
                o_, b_ = ow or {}, bw or {}
                if sorted(map(id_text, o_)) != sorted(map(id_text, b_)):
                    merged = len(b_) < len(o_)
                    out.append({"what": f"entry {i}: {side} bounds stored under the field ids [{', '.join(map(id_text, o_))}] came back under "
                                        f"[{', '.join(map(id_text, b_))}]{tn}" +
                                        (" -- two columns' bounds collapsed into one key: str(id) is the same for both" if merged else ""),
                                "from": "ids", "to": "merged" if merged else "renamed"})
                    continue
                for k in o_:
                    if not same(o_[k], b_[k]):
                        out.append({"what": f"entry {i}, field {k!r}: {side} bound "
                                            f"{o_[k]!r} ({type(o_[k]).__name__}) came back from the manifest as {b_[k]!r} ({type(b_[k]).__name__}){tn}",
                                    "from": type(o_[k]).__name__, "to": type(b_[k]).__name__})
    return out


def oracle_manifest(ctx, bench: ManifestBench) -> List[Dict[str, Any]]:
    """Bounds survive the MANIFEST round trip type-faithfully (real create_manifest_file -> read_manifest_file)."""
    n = 1000 if ctx.tier == "quick" else 10000
    cases = [gen_manifest_case(ctx.rng) for _ in range(n)]
    bad = 0
    nbounds = 0
    unreadable = 0
    for case in cases:
        ctx.count(1, ("manifest", repr(case)))
        nbounds += sum(len(lo or {}) + len(hi or {}) for lo, hi in case["added"] + case["existing"])
        try:
            problems = manifest_case_problems(bench, case)
        except ManifestUnreadable:
            unreadable += 1
            continue
        for pr in problems:
            bad += 1
            ctx.violation(f"manifest-roundtrip:{pr['from']}-as-{pr['to']}", pr["what"], manifest_case_json(case))
    ctx.stats["manifest_oracle_unreadable_for_accepted_ids_not_judged"] = unreadable
    ctx.stats["manifest_oracle_manifests"] = n
    ctx.stats["manifest_oracle_bounds"] = nbounds
    ctx.stats["manifest_oracle_bad_bounds"] = bad
    return cases


# ---------------------------------------------------------------------------------- oracles (impl only)
PLAIN_LAYOUT: Dict[str, Any] = {"before": [], "after": [], "siblings": 0, "existing": False}


def gen_layouts(rng, kind: str, n: int) -> List[Dict[str, Any]]:
    """Where the column under test sits: companion columns of other kinds before / after it in the schema (holding, row by row,
    the value equal to the tested column's where the kind has one), sibling files earlier in the same manifest (a multi-append
    transaction), the file itself an ADDED entry or a carried-over EXISTING one (manifest rewritten by a partial delete)."""
    if kind in NUMERIC_KINDS:
        others = [k for k in NUMERIC_KINDS if k != kind] + ["string"]
    else:
        others = [k for k in ("string", "long", "double", "date", "timestamp") if k != kind]
    out = [dict(PLAIN_LAYOUT)]
    for _ in range(n):
        lay = {"before": [rng.choice(others + [kind]) for _ in range(rng.choice([0, 1, 1, 2]))],
               "after": [rng.choice(others + [kind]) for _ in range(rng.choice([0, 0, 1]))],
               "siblings": rng.choice([0, 0, 1, 2]), "existing": rng.random() < 0.3}
        if rng.random() < 0.5:
            # the schema's field ids: whatever the real Schema constructor accepts (default: 1, 2, 3 ... in column order)
            lay["ids"] = accepted_field_ids(rng, len(lay["before"]) + 1 + len(lay["after"]), 0.6)
        out.append(lay)
    return out


def prepare_file(bench: ManifestBench, kind: str, vs: List[Any], layout: Dict[str, Any]) -> Tuple[Any, Dict[int, Any], Dict[int, Any], int]:
    """The file's rows as an Arrow table, and the bounds the PLANNER sees for it: computed by the real _compute_column_bounds over
    all its columns, written by the real create_manifest_file next to its sibling entries, read by the real read_manifest_file."""
    import pyarrow as pa
    from datashard.data_operations import DataFileManager
    from datashard.data_structures import Schema
    cols = [(f"p{i}", k) for i, k in enumerate(layout["before"])] + [("c", kind)] + \
           [(f"q{i}", k) for i, k in enumerate(layout["after"])]
    ids = layout.get("ids") or list(range(1, len(cols) + 1))
    fields = [{"id": i, "name": n, "type": k, "required": False} for i, (n, k) in zip(ids, cols)]
    fid = ids[len(layout["before"])]
    # companion columns hold, row by row, the value equal to the tested column's where their kind has one -- or (same-kind
    # companions) the NEXT value of the domain: a different range under a different field id
    def companion(n: str, k: str, v: Any) -> Any:
        if k != kind:
            return twin_value(k, v)
        dom = DOMAIN[kind]
        return None if v is None else dom[([j for j, d in enumerate(dom) if same(d, v)] or [0])[0] + 1 - len(dom)]
    data = {n: pa.array([v if n == "c" else companion(n, k, v) for v in vs], arrow_type(k)) for n, k in cols}
    table = pa.table(data)
    dfm = DataFileManager.__new__(DataFileManager)
    lo, hi = DataFileManager._compute_column_bounds(dfm, table, Schema(schema_id=1, fields=fields))
    mine = (lo, hi)
    sibs = [(None if lo is None else dict(lo), None if hi is None else dict(hi)) for _ in range(layout["siblings"])]
    if layout["existing"]:
        _w, back, _r = bench.trip(sibs, [mine])
    else:
        _w, back, _r = bench.trip(sibs + [mine], [])
    me = back[-1]
    return table, (me.lower_bounds or {}), (me.upper_bounds or {}), fid


def judge_file(prepared: Tuple[Any, Dict[int, Any], Dict[int, Any], int], op: str, lit: Any) -> Optional[List[Any]]:
    """real _file_may_match on the planner's bounds -> real pyarrow on the rows.  Returns the rows lost iff pruning loses some."""
    pa, filters, DataFile, FileFormat, Schema = _imports()
    table, lo, hi, fid = prepared
    df = DataFile(file_path="/data/x.parquet", file_format=FileFormat.PARQUET, partition_values={}, record_count=table.num_rows,
                  file_size_in_bytes=1, lower_bounds=lo, upper_bounds=hi)
    fe = filters.FilterExpression("c", filters.FilterOp[op], lit)
    if filters._file_may_match(df, [fe], {"c": fid}):
        return None
    sel = pyarrow_selects(filters, table, "c", op, lit)
    if isinstance(sel, tuple) or not sel:
        return None
    return sel


def unsound_case(kind: str, vs: List[Any], op: str, lit: Any, layout: Optional[Dict[str, Any]] = None,
                 bench: Optional[ManifestBench] = None, prepared: Any = None) -> Optional[Dict[str, Any]]:
    """Real bounds -> real manifest -> real _file_may_match -> real pyarrow. Returns a description iff pruning loses a row."""
    layout = layout or PLAIN_LAYOUT
    if prepared is None:
        prepared = prepare_file(bench, kind, vs, layout)
    sel = judge_file(prepared, op, lit)
    if sel is None:
        return None
    _t, lo, hi, fid = prepared
    return {"kind": kind, "values": [val_json(v) for v in vs], "op": op, "literal": val_json(lit), "layout": layout,
            "lower": val_json(lo.get(fid)), "upper": val_json(hi.get(fid)), "rows_lost": [val_json(x) for x in sel]}


def unsound_text(bad: Dict[str, Any]) -> str:
    lay = bad["layout"]
    where = ""
    if lay["before"] or lay["after"] or lay["siblings"] or lay["existing"]:
        ids = f", field ids [{', '.join(map(id_text, lay['ids']))}]" if lay.get("ids") else ""
        where = (f" (columns before {lay['before']}, after {lay['after']}{ids}, {lay['siblings']} sibling file(s) in the manifest, "
                 f"{'EXISTING' if lay['existing'] else 'ADDED'} entry; bounds read back {bad['lower']} .. {bad['upper']})")
    return f"file {bad['values']} skipped for {bad['op']} {bad['literal']} although pyarrow selects {bad['rows_lost']}{where}"


def oracle_unsound(ctx, bench: ManifestBench) -> None:
    n = 0
    nfiles = 0
    unreadable = 0
    cross = [[x] for x in (0.1, 0.5, 5.5, 2, 1, 0, True, NAN, float.fromhex("0x1.99999a0000000p-4"))]
    for kind, dom in DOMAIN.items():
        sets = multisets(kind, 3 if ctx.tier == "thorough" else 2, ctx.rng, None if ctx.tier == "thorough" else 40)
        same_kind_lits = [l for l in LITERALS + dom if l is not None]
        for vs in sets:
            for layout in gen_layouts(ctx.rng, kind, 3 if ctx.tier == "quick" else 5):
                plain = layout == PLAIN_LAYOUT
                try:
                    prepared = prepare_file(bench, kind, vs, layout)
                except ManifestUnreadable:
                    unreadable += 1
                    continue
                nfiles += 1
                # literals: the file's own values in every type they have a twin in, plus cross-kind literals
                own = []
                for v in vs:
                    for k2 in [kind] + NUMERIC_KINDS:
                        t = twin_value(k2, v)
                        if t is not None and not any(same(t, o) for o in own):
                            own.append(t)
                for op in SCALAR_OPS:
                    if ctx.tier == "thorough":
                        lits = same_kind_lits if plain else ctx.rng.sample(same_kind_lits, 10)
                    elif plain:
                        lits = ctx.rng.sample(same_kind_lits, 8) + dom[:3]
                    else:
                        lits = ctx.rng.sample(same_kind_lits, 3)
                    for lit in lits + own:
                        n += 1
                        bad = unsound_case(kind, vs, op, lit, layout, prepared=prepared)
                        if bad:
                            ctx.violation(f"prune-unsound:{op}:{kind}", unsound_text(bad), bad)
                in_lists = [[x] for x in dom] + [[dom[0], dom[-1]], []] + cross if plain else \
                           [[x] for x in own] + [[2], [0, 1], [ctx.rng.choice(dom)]] + ctx.rng.sample(cross, 3)
                for lst in in_lists:
                    n += 1
                    bad = unsound_case(kind, vs, "IN", lst, layout, prepared=prepared)
                    if bad:
                        ctx.violation(f"prune-unsound:IN:{kind}", unsound_text(bad), bad)
    ctx.count(n)
    ctx.stats["unsound_oracle_cases"] = n
    ctx.stats["unsound_oracle_files_through_a_real_manifest"] = nfiles
    ctx.stats["unsound_oracle_unreadable_manifests_not_judged"] = unreadable


# the end-to-end oracle also covers column types for which the writer stores NO bounds (binary): pruning must then
# never skip anything
E2E_DOMAIN = dict(DOMAIN)
E2E_DOMAIN["binary"] = [b"", b"a", b"ab", b"zz"]


def _rand_value(rng, kind: str) -> Any:
    if rng.random() < 0.2:
        return None
    return rng.choice(E2E_DOMAIN[kind])


def _rand_twin_value(rng, kind: str) -> Any:
    """Cells of the numeric-twins tables: every numeric column draws from the same few numbers, each in its own type."""
    r = rng.random()
    if r < 0.15:
        return None
    if kind in ("double", "float") and r < 0.35:
        return NAN
    for _ in range(8):
        t = twin_value(kind, rng.choice([0, 1, 1, 2]))
        if t is not None:
            return t
    return None


def _append_once_retried(table: Any, do_append: Any) -> None:
    """Run do_append() while the first MetadataManager.commit loses one optimistic-concurrency race (the manifests are rebuilt
    from the same in-memory DataFile objects)."""
    from datashard.metadata_manager import ConcurrentModificationException
    mm_ = table.metadata_manager
    real_commit = mm_.commit
    fired = [False]

    def flaky_commit(base: Any, new: Any, _rc=real_commit, _f=fired) -> Any:
        if not _f[0]:
            _f[0] = True
            raise ConcurrentModificationException("injected: lost the race once")
        return _rc(base, new)
    mm_.commit = flaky_commit
    try:
        do_append()
    finally:
        mm_.commit = real_commit


def e2e_apply_step(table: Any, step: Dict[str, Any]) -> None:
    """One step of a table history: {"op": "append", "files": [records, ...], "retried": bool} -- ONE transaction appending one
    or several files (one manifest with that many ADDED entries) -- or {"op": "delete", "index": k} -- a transaction deleting the
    k-th data file of the current listing (a partial delete rewrites that file's manifest with EXISTING entries)."""
    if step["op"] == "append":
        sch = None
        if step.get("schema_arg"):
            # the append names its schema explicitly: the table's columns, possibly numbered differently.  Whatever the library
            # ACCEPTS here is part of the table afterwards; what it refuses (ValueError) leaves the table as it was.
            from datashard.data_structures import Schema
            try:
                sch = Schema(schema_id=1, fields=step["schema_arg"])
            except ValueError:
                return

        def go() -> None:
            try:
                if len(step["files"]) == 1:
                    table.append_records(step["files"][0], schema=sch)
                else:
                    with table.new_transaction() as tx:
                        for recs in step["files"]:
                            tx.append_data(recs, schema=sch)
                        tx.commit()
            except ValueError:
                if sch is None:
                    raise
        if step.get("retried"):
            _append_once_retried(table, go)
        else:
            go()
    elif step["op"] == "delete":
        files = table._get_all_data_files()
        if files:
            victim = files[step["index"] % len(files)].file_path
            with table.new_transaction() as tx:
                tx.delete_files([victim])
                tx.commit()
    else:
        raise ValueError(step["op"])


def value_set(rng, vals: List[Any], iterable: float = 0.5) -> Any:
    """An in / not_in value set as a list or -- half of the time -- as any other iterable kind (set, frozenset, dict view,
    deque, range, iterator, generator, map object: harness/lib/sqlref.py ITERABLE_KINDS; a recipe, realised afresh for every
    scan).  A mapping is not a value set (the library refuses it or reads its keys -- with and without pruning alike)."""
    if rng.random() >= iterable:
        return list(vals)
    kind = rng.choice([k for k in sqlref.ITERABLE_KINDS + sqlref.ONE_SHOT_KINDS if k not in sqlref.MAPPING_KINDS])
    try:
        return sqlref.ValueSet(*sqlref.fit_value_set(kind, vals))
    except TypeError:          # an unhashable value in a hashed kind
        return sqlref.ValueSet("iter", vals)


def lit_json(v: Any) -> Any:
    if isinstance(v, sqlref.ValueSet):
        return {"k": "valueset", "kind": v.kind, "v": [val_json(x) for x in v.values]}
    return val_json(v)


def lit_unjson(j: Any) -> Any:
    if isinstance(j, dict) and j.get("k") == "valueset":
        return sqlref.ValueSet(j["kind"], [val_unjson(x) for x in j["v"]])
    return val_unjson(j)


def e2e_compare(table: Any, flt: Dict[str, Any]) -> Tuple[str, Any, Any]:
    """('skip' | 'same' | 'differs', pruned, unpruned): scan(filter) with pruning vs with prune_files_by_bounds = identity.
    Each scan gets its own filter dict (sqlref.realise): a value set may be an iterator that can be read only once."""
    from datashard import filters
    real_prune = filters.prune_files_by_bounds
    try:
        filters.prune_files_by_bounds = lambda data_files, expressions, schema: data_files
        try:
            unpruned = table.scan(filter=sqlref.realise(flt))
        finally:
            filters.prune_files_by_bounds = real_prune
    except Exception:       # noqa: BLE001  (see DESIGN.md C13 "Interpretation": stated for unpruned = Ok R)
        return "skip", None, None
    try:
        pruned = table.scan(filter=sqlref.realise(flt))
    except Exception as e:  # noqa: BLE001
        pruned = ("raises", repr(e)[:200])
    key_rows = lambda rows: sorted(repr(sorted((k, repr(v)) for k, v in r.items())) for r in rows)
    if isinstance(pruned, tuple) or key_rows(pruned) != key_rows(unpruned):
        return "differs", pruned, unpruned
    return "same", pruned, unpruned


def steps_json(steps: List[Dict[str, Any]]) -> List[Dict[str, Any]]:
    out = []
    for st in steps:
        if st["op"] == "append":
            out.append({"op": "append", "retried": bool(st.get("retried")), "schema_arg": st.get("schema_arg"),
                        "files": [[{k: val_json(v) for k, v in r.items()} for r in f] for f in st["files"]]})
        else:
            out.append(dict(st))
    return out


def steps_unjson(steps: List[Dict[str, Any]]) -> List[Dict[str, Any]]:
    out = []
    for st in steps:
        if st["op"] == "append":
            out.append({"op": "append", "retried": bool(st.get("retried")), "schema_arg": st.get("schema_arg"),
                        "files": [[{k: val_unjson(v) for k, v in r.items()} for r in f] for f in st["files"]]})
        else:
            out.append(dict(st))
    return out


OP_NAMES = {"==": "eq", "!=": "ne", "<": "lt", "<=": "le", ">": "gt", ">=": "ge"}


def oracle_e2e(ctx) -> None:
    """Real tables: scan(filter) with pruning vs. with prune_files_by_bounds replaced by the identity."""
    from datashard import create_table
    from datashard.data_structures import Schema
    rng = ctx.rng
    ntables = 40 if ctx.tier == "quick" else 300
    kinds = list(E2E_DOMAIN)
    total = 0
    skipped_raise = 0
    differing = 0
    retried = 0
    multi = 0
    deletes = 0
    idtables = 0
    rewrites = 0
    unusable = 0
    schema_args = 0
    zoned = 0
    for t in range(ntables):
        twins = False
        idfamily = False
        cols = rng.sample(kinds, rng.choice([1, 2, 3]))
        if t % 5 == 4:
            # field-id family: two (or three) columns of the SAME kind holding different ranges, under whatever field ids the
            # real Schema constructor accepts (ids that differ as Python objects but not as manifest keys are the point)
            idfamily = True
            k0 = rng.choice(["long", "long", "string", "int", "double", "date"])
            cols = [k0, k0] + ([rng.choice([k0, "string", "long"])] if rng.random() < 0.4 else [])
        elif t % 4 == 0:
            cols = ["binary", rng.choice([k for k in kinds if k != "binary"])]     # a column without bounds next to one with bounds
        elif t % 4 == 1:
            cols = [rng.choice(["date", "timestamp"]), rng.choice([k for k in kinds if k not in ("date", "timestamp")])]
        elif t % 4 == 2:
            # numeric twins: columns of different numeric kinds, in any order, holding the same few numbers each in its own type,
            # NaN and NULL rows, single-valued files
            twins = True
            cols = rng.sample(NUMERIC_KINDS, rng.choice([2, 3]))
        if t % 3 == 0 and not twins and "string" not in cols and len(cols) < 3 and rng.random() < 0.5:
            cols = cols + ["string"]       # (string bounds are the ones every operator can prune on after a manifest rewrite)
        if idfamily:
            ids = accepted_field_ids(rng, len(cols), 0.9, 0.85)
            idtables += 1
        elif rng.random() < 0.4:
            ids = accepted_field_ids(rng, len(cols), 0.0)      # ints of any magnitude in any order
        else:
            ids = list(range(1, len(cols) + 1))
        fields = [{"id": i, "name": f"c{n}", "type": k, "required": False} for n, (i, k) in enumerate(zip(ids, cols))]
        schema = Schema(schema_id=1, fields=fields)
        path = os.path.join(ctx.scratch, f"t{t}")
        table = create_table(path, schema)
        cellgen = _rand_twin_value if twins else _rand_value
        # process environment: the time zone of the process that writes the table and of the one that reads it (POSIX TZ
        # strings, harness/lib/procconf.py); always drawn when the table has a temporal column.  Bounds hold naive
        # datetimes: no zone may change what a manifest gives back, hence what pruning decides
        tz = None
        if any(k in ("date", "timestamp", "time") for k in cols) or rng.random() < 0.25:
            rz = procconf.draw_tz(rng, 0.85)
            tz = [rz if rng.random() < 0.5 else procconf.draw_tz(rng, 0.5), rz]
            zoned += 1

        def gen_file() -> List[Dict[str, Any]]:
            recs = [{f"c{i}": cellgen(rng, k) for i, k in enumerate(cols)} for _ in range(rng.choice([1, 2, 3, 5]))]
            if rng.random() < (0.5 if twins else 0.3):
                v = {f"c{i}": cellgen(rng, k) for i, k in enumerate(cols)}
                recs = [dict(v) for _ in recs]     # single-valued file
                if twins and len(recs) > 1 and rng.random() < 0.6:
                    for i, k in enumerate(cols):
                        if k in ("double", "float"):
                            recs[-1][f"c{i}"] = NAN     # ... next to a NaN row (bounds skip NaN)
            return recs
        steps: List[Dict[str, Any]] = []
        nfiles = 0
        # every third table: several files appended by ONE transaction, then a delete of one of them -- the partial delete rewrites
        # their manifest from the DataFiles it read back (survivors carried over as EXISTING entries) -- then whatever comes
        shape = [None] * rng.choice([1, 2, 3, 4])
        if t % 3 == 0:
            shape = ["multi", "delete"] + [None] * rng.choice([0, 1])
            rewrites += 1
        for forced in shape:
            r = rng.random()
            if forced == "multi":
                r = 0.3
            elif forced == "delete":
                r = 0.0
            if nfiles >= 2 and r < 0.2:
                step: Dict[str, Any] = {"op": "delete", "index": rng.randrange(8)}
                deletes += 1
                nfiles -= 1
            else:
                nf = rng.choice([2, 2, 3]) if r < 0.5 else 1     # several files appended by ONE transaction share a manifest
                step = {"op": "append", "files": [gen_file() for _ in range(nf)], "retried": rng.random() < 0.35}
                if len(cols) >= 2 and rng.random() < (0.5 if idfamily else 0.15):
                    # the append passes schema= explicitly: the table's fields as they are, or the same columns under the ids in
                    # another order (accepted or refused by the library -- either way pruning must not change an answer)
                    arg_ids = list(ids) if rng.random() < 0.3 else rng.sample(ids, len(ids))
                    step["schema_arg"] = [dict(f, id=i) for f, i in zip(fields, arg_ids)]
                    schema_args += 1
                # (a retried commit rebuilds the manifests from the same in-memory DataFile objects: bounds must survive the second
                # encoding exactly like the first)
                retried += 1 if step["retried"] else 0
                multi += 1 if nf > 1 else 0
                nfiles += nf
            try:
                with procconf.timezone(tz[0] if tz else None, keep=tz is None):
                    e2e_apply_step(table, step)
            except Exception:       # noqa: BLE001
                if all(type(i) is int for i in ids):
                    raise
                # a schema with non-int field ids the constructor accepted, whose manifests cannot be read back: every read of the
                # table fails, pruned or not -- nothing to compare; the history stops here
                unusable += 1
                break
            steps.append(step)
        files = [f for st in steps if st["op"] == "append" for f in st["files"]]
        # directed: the null tests on EVERY column (columns without stored bounds included), alone and next to a comparison
        directed = []
        for i in range(len(cols)):
            for opn in ("is_null", "is_not_null"):
                directed.append({f"c{i}": (opn, True)})
                j = (i + 1) % len(cols)
                if j != i:
                    directed.append({f"c{i}": (opn, True), f"c{j}": (">=", rng.choice(E2E_DOMAIN[cols[j]]))})
        # directed: every comparison of a date column with a datetime at / around each day the files hold (and of a timestamp
        # column with the dates of its values): the cross-kind comparisons pyarrow evaluates as "date = midnight"
        import datetime as _dtm2
        for i, kind in enumerate(cols):
            if kind not in ("date", "timestamp"):
                continue
            present = sorted({r[f"c{i}"] for f in files for r in f if r.get(f"c{i}") is not None})[:4]
            for v in present:
                if kind == "date":
                    lits = [_dtm2.datetime(v.year, v.month, v.day, 12, 0), _dtm2.datetime(v.year, v.month, v.day),
                            _dtm2.datetime(v.year, v.month, v.day) + _dtm2.timedelta(days=1, microseconds=1)]
                else:
                    lits = [v.date(), v.date() + _dtm2.timedelta(days=1)]
                for lit in lits:
                    for opn in ("==", "!=", "<", "<=", ">", ">="):
                        directed.append({f"c{i}": (opn, lit)})
        # directed: on every column with bounds, the values the files really hold (a file whose min or max IS the literal must be kept)
        for i, kind in enumerate(cols):
            if kind == "binary":
                continue
            present = [v for v in {repr(r.get(f"c{i}")): r.get(f"c{i}") for f in files for r in f}.values()
                       if v is not None and not (isinstance(v, float) and v != v)]
            for v in rng.sample(present, min(3, len(present))):
                for opn in ("==", "<=", ">="):
                    directed.append({f"c{i}": (opn, v)})
                directed.append({f"c{i}": ("in", value_set(rng, [v], 0.7))})
        if twins:
            # directed: on every column, the decisions that depend on the TYPE of the stored bound (!= on float bounds, in / not_in
            # across bool / int / float), with each number present written as int, float and bool
            for i, kind in enumerate(cols):
                for x in (0, 1, 2):
                    for lit in (x, float(x)) + ((bool(x),) if x < 2 else ()):
                        directed.append({f"c{i}": ("!=", lit)})
                        directed.append({f"c{i}": ("in", [lit])})
                    directed.append({f"c{i}": ("in", value_set(rng, [x, 7], 0.3))})
                    directed.append({f"c{i}": ("not_in", value_set(rng, [x], 0.3))})
                    directed.append({f"c{i}": ("==", x)})
        nrand = 10 if ctx.tier == "quick" else 30
        for fi in range(nrand + len(directed)):
            flt = {}
            if fi >= nrand:
                flt = directed[fi - nrand]
            for _c in range(rng.choice([1, 1, 2]) if fi < nrand else 0):
                i = rng.randrange(len(cols))
                dom = E2E_DOMAIN[cols[i]]
                r = rng.random()
                if cols[i] in ("date", "timestamp") and rng.random() < 0.4:
                    # a literal of the OTHER temporal kind (pyarrow compares a date with a timestamp as midnight of that day):
                    # datetimes at / just around the days present in a date column, dates for a timestamp column
                    import datetime as _dtm
                    if cols[i] == "date":
                        days = [v for v in dom if isinstance(v, _dtm.date)] or [_dtm.date(2024, 1, 2)]
                        d0 = rng.choice(days)
                        lit = rng.choice([_dtm.datetime(d0.year, d0.month, d0.day, 12, 0), _dtm.datetime(d0.year, d0.month, d0.day),
                                          _dtm.datetime(d0.year, d0.month, d0.day, 23, 59, 59, 999999),
                                          _dtm.datetime(d0.year, d0.month, d0.day) + _dtm.timedelta(days=1, microseconds=1)])
                    else:
                        tss = [v for v in dom if isinstance(v, _dtm.datetime)] or [_dtm.datetime(2024, 1, 2, 3, 4)]
                        t0_ = rng.choice(tss)
                        lit = rng.choice([t0_.date(), t0_.date() + _dtm.timedelta(days=1)])
                    flt[f"c{i}"] = (rng.choice(["==", "!=", "<", "<=", ">", ">="]), lit)
                elif r < 0.55:
                    flt[f"c{i}"] = (rng.choice(["==", "!=", "<", "<=", ">", ">="]), rng.choice(dom + LITERALS[:21] if cols[i] in ("long", "int", "double", "float") else dom))
                elif r < 0.8:
                    flt[f"c{i}"] = (rng.choice(["in", "not_in"]), value_set(rng, [rng.choice(dom) for _ in range(rng.choice([0, 1, 2]))]))
                elif r < 0.9:
                    lo_, hi_ = rng.choice(dom), rng.choice(dom)
                    flt[f"c{i}"] = ("between", (lo_, hi_))
                else:
                    flt[f"c{i}"] = (rng.choice(["is_null", "is_not_null"]), True)
            total += 1
            with procconf.timezone(tz[1] if tz else None, keep=tz is None):
                verdict, pruned, unpruned = e2e_compare(table, flt)
            if verdict == "skip":
                skipped_raise += 1
                continue
            if verdict == "differs":
                differing += 1
                # (operators spelled out: the replay file name is the key with punctuation flattened)
                one_shot = any(isinstance(v[1], sqlref.ValueSet) and v[1].kind in sqlref.ONE_SHOT_KINDS for v in flt.values())
                ctx.violation("scan-differs:" + ",".join(sorted({OP_NAMES.get(str(v[0]), str(v[0])) for v in flt.values()}))
                              + ("-one-shot-value-set" if one_shot else "") + ("-reader-outside-utc" if tz and tz[1] != "UTC" and not one_shot else ""),
                              f"scan with pruning differs from scan without for filter {flt!r}"
                              + (f" (table written with TZ={tz[0]!r}, read with TZ={tz[1]!r})" if tz else ""),
                              {"e2e": True, "schema": fields, "steps": steps_json(steps), "tz": tz,
                               "filter": {k: [v[0], lit_json(v[1])] for k, v in flt.items()},
                               "pruned": repr(pruned)[:500], "unpruned": repr(unpruned)[:500]})
        shutil.rmtree(path, ignore_errors=True)
    ctx.count(total)
    ctx.stats["e2e_scans"] = total
    ctx.stats["e2e_tables_written_and_read_in_drawn_time_zones"] = zoned
    ctx.stats["e2e_appends_committed_after_one_retry"] = retried
    ctx.stats["e2e_multi_file_transactions"] = multi
    ctx.stats["e2e_partial_or_full_deletes"] = deletes
    ctx.stats["e2e_tables_multi_append_then_partial_delete"] = rewrites
    ctx.stats["e2e_field_id_family_tables"] = idtables
    ctx.stats["e2e_appends_with_explicit_schema_argument"] = schema_args
    ctx.stats["e2e_tables_unreadable_after_accepted_non_int_ids"] = unusable
    ctx.stats["field_ids_non_int_offered_to_Schema"] = ID_STATS["offered_non_int"]
    ctx.stats["field_ids_non_int_accepted_by_Schema"] = ID_STATS["accepted_non_int"]
    ctx.stats["e2e_unpruned_raises_skipped"] = skipped_raise
    ctx.stats["e2e_differing"] = differing


CODEC_VALUES = [
    True, False, 0, 1, -1, 2**53, 2**53 + 1, -(2**63), 2**63 - 1, 2**70,
    0.0, -0.0, 0.1, 1.5, float.fromhex("0x1.99999a0000000p-4"), 1e308, 5e-324, NAN, float("inf"), float("-inf"),
    "", "a", "123", "true", "1.5", "é", "\U0001F600", '{"t": "int", "v": 1}', "nan",
    dt.datetime(2020, 1, 1), dt.datetime(2020, 1, 1, 1, 2, 3, 4), dt.date(2020, 2, 29), dt.time(1, 2, 3), dt.time(1, 2, 3, 4),
]


def oracle_codec(ctx) -> None:
    from datashard.file_manager import FileManager
    # ... in the process as it is, and with the encoding / the decoding process in every time zone of procconf.TZ_CHOICES
    # (a manifest is written by one process and read by others; bounds are naive datetimes: no zone may move them)
    zones: List[Optional[Tuple[str, str]]] = [None] + [(w, r) for r in procconf.TZ_CHOICES for w in ("UTC", r)]
    for v in CODEC_VALUES:
        reported = False
        for zp in zones:
            ctx.count(1, ("codec", repr(v), zp))
            with procconf.timezone(zp[0] if zp else None, keep=zp is None):
                raw = FileManager._encode_bound(v)
            with procconf.timezone(zp[1] if zp else None, keep=zp is None):
                back = FileManager._decode_bound(raw)
            if not same(v, back) and not reported:
                reported = True
                ctx.violation(f"bound-codec:{type(v).__name__}" + ("-reader-outside-utc" if zp and zp[1] != "UTC" else ""),
                              f"bound {v!r} decodes as {back!r} ({type(back).__name__})"
                              + (f" when encoded by a process with TZ={zp[0]!r} and decoded by one with TZ={zp[1]!r}" if zp else ""),
                              {"value": val_json(v), "decoded": repr(back), "tz": list(zp) if zp else None})


def corr_codec(ctx) -> None:
    """Tag chosen by the real _encode_bound and value decoded by the real _decode_bound vs the model's enc / dec."""
    import json as _json
    from datashard.file_manager import FileManager
    vals = [v for v in CODEC_VALUES if not (isinstance(v, int) and not isinstance(v, bool) and abs(v) > 2**200)]
    exprs = [f"(fst (enc {val_to_coq(v)}), dec (enc {val_to_coq(v)}))" for v in vals]
    want = coqbuild.coq_eval(REQB, [val_to_coq(v) for v in vals])
    got = coqbuild.coq_eval(REQB, exprs)
    bad = []
    for v, (tag, decoded), w in zip(vals, got, want):
        raw = FileManager._encode_bound(v)
        impl_tag = _json.loads(raw)["t"]
        back = FileManager._decode_bound(raw)
        zone_ok = True              # the model's codec knows no time zone: the real one must agree with it in every zone
        for z in procconf.TZ_CHOICES:
            with procconf.timezone(z):
                zone_ok = zone_ok and FileManager._encode_bound(v) == raw and same(v, FileManager._decode_bound(raw))
        if impl_tag != tag or decoded != w or not same(v, back) or not zone_ok:
            bad.append({"value": val_json(v), "impl_tag": impl_tag, "model_tag": tag, "impl_roundtrip_ok": same(v, back),
                        "model_roundtrip_ok": decoded == w, "same_in_every_time_zone": zone_ok})
    ctx.correspondence("codec", len(vals), bad)


def bmap_opt_coq(b: Optional[Dict[int, Any]]) -> str:
    if b is None:
        return "(@None bmap)"
    if not b:
        return "(@Some bmap [])"
    return "(@Some bmap [" + "; ".join(f"(({k})%Z, {val_to_coq(v)})" for k, v in b.items()) + "])"


def dfb_coq(lo: Optional[Dict[int, Any]], hi: Optional[Dict[int, Any]]) -> str:
    return f"{{| df_lower := {bmap_opt_coq(lo)}; df_upper := {bmap_opt_coq(hi)} |}}"


def dfbs_coq(files: List[Tuple[Any, Any]]) -> str:
    return "(@nil dfb)" if not files else "[" + "; ".join(dfb_coq(lo, hi) for lo, hi in files) + "]"


def corr_manifest(ctx, bench: ManifestBench, cases: List[Dict[str, Any]]) -> None:
    """The same multi-entry, multi-column manifests through the real writer / reader and through Model/Manifest13.v:
         * what the writer puts into the Avro records (entry order, status, field-id keys, the type tag of every encoded bound)
           vs write_manifest;
         * the DataFiles read back (which fields, which value of which type) vs via_manifest;
         * the pruning decision of the real _file_may_match on each DataFile read back vs file_may_match on the model's."""
    import json as _json
    pa, filters, DataFile, FileFormat, Schema = _imports()
    rng = ctx.rng
    cases = [c for c in cases if all(not (isinstance(v, int) and not isinstance(v, bool) and abs(v) > 2**200)
                                     for lo, hi in c["added"] + c["existing"] for b in (lo, hi) for v in (b or {}).values())]
    # Model/Manifest13.v speaks of int field ids (what Schema admits -- Props/C13.v C13_schema_ids_are_ints); the general key
    # trip, any Python object as id, is the `keys` correspondence below
    cases = [c for c in cases if all(type(i) is int for i in c["ids"])]
    if ctx.tier == "quick":
        cases = cases[:120]
    twin_lits = [0, 1, 2, 5, -1, 0.0, 1.0, 2.0, 5.0, False, True, "123", 123]
    exprs_w, exprs_r, exprs_expected, exprs_p = [], [], [], []
    impl_w, impl_p, fes_all = [], [], []
    for c in cases:
        written, back, raw = bench.trip(c["added"], c["existing"], want_raw=True)
        A, E = dfbs_coq(c["added"]), dfbs_coq(c["existing"])
        # writer side
        def tags(m: Any) -> Any:
            return None if m is None else [(int(k), _json.loads(v)["t"]) for k, v in m.items()]
        impl_w.append([(r["status"], tags(r["data_file"]["lower_bounds"]), tags(r["data_file"]["upper_bounds"])) for r in raw])
        tg = "(option_map (map (fun kv : akey * ebound => (py_int_of_key (fst kv), fst (snd kv)))))"
        exprs_w.append(f"map (fun r => (r_status r, {tg} (r_lower r), {tg} (r_upper r))) (write_manifest {A} {E})")
        # reader side
        exprs_r.append(f"map (fun d => (df_lower d, df_upper d)) (via_manifest {A} {E})")
        exprs_expected.append("[" + "; ".join(f"({bmap_opt_coq(b.lower_bounds)}, {bmap_opt_coq(b.upper_bounds)})" for b in back) + "]")
        # pruning decision on what was read back
        ids = {f"c{i}": fid for i, fid in enumerate(c["ids"])}
        fes = []
        for _ in range(rng.choice([1, 1, 2])):
            col = rng.randrange(len(c["ids"]))
            op = rng.choice(["NE", "NE", "IN", "IN", "EQ", "LT", "GE", "NOT_IN"])
            present = [v for lo, hi in c["added"] + c["existing"] for b in (lo, hi) for v in (b or {}).values()
                       if not (isinstance(v, int) and not isinstance(v, bool) and abs(v) > 2**60)]
            pool = twin_lits + present
            val = [rng.choice(pool) for _ in range(rng.choice([1, 1, 2]))] if op in ("IN", "NOT_IN") else rng.choice(pool)
            fes.append((col, op, val))
        fes_all.append(fes)
        real_fes = [filters.FilterExpression(f"c{col}", filters.FilterOp[op], v) for col, op, v in fes]
        impl_p.append([bool(filters._file_may_match(b, real_fes, ids)) for b in back])
        ids_coq = "[" + "; ".join(f"(({i})%Z, ({fid})%Z)" for i, fid in enumerate(c["ids"])) + "]"
        es_coq = "[" + "; ".join(fexpr_coq(col, op, v) for col, op, v in fes) + "]"
        exprs_p.append(f"map (fun d => file_may_match (fst (df_view d)) (snd (df_view d)) {ids_coq} {es_coq}) (via_manifest {A} {E})")
    got_w = coqbuild.coq_eval(REQM, exprs_w)
    got_r = coqbuild.coq_eval(REQM, exprs_r)
    want_r = coqbuild.coq_eval(REQM, exprs_expected)
    got_p = coqbuild.coq_eval(REQM, exprs_p)
    bad = []

    def norm_w(x: Any) -> Any:
        # parsed Coq: status int, option as Some(x)/None, pairs as tuples
        out = []
        for st, lo, hi in x:
            f = lambda o: None if o is None else [(k, t) for k, t in (o.x if hasattr(o, "x") else o)]
            out.append((st, f(lo), f(hi)))
        return out
    for c, iw, gw, gr, wr, ip, gp, fes in zip(cases, impl_w, got_w, got_r, want_r, impl_p, got_p, fes_all):
        ctx.count(1, ("manifest-corr", repr(c), repr(fes)))
        problems = []
        if norm_w(gw) != [(st, lo, hi) for st, lo, hi in iw]:
            problems.append({"piece": "records written", "impl": repr(iw)[:400], "model": repr(norm_w(gw))[:400]})
        if gr != wr:
            problems.append({"piece": "bounds read back", "impl": repr(wr)[:400], "model": repr(gr)[:400]})
        if list(gp) != ip:
            problems.append({"piece": "pruning decision on the DataFiles read back", "exprs": [(col, op, val_json(v)) for col, op, v in fes],
                             "impl": ip, "model": list(gp)})
        if problems:
            bad.append({"manifest": manifest_case_json(c), "problems": problems})
    ctx.correspondence("manifest", len(cases), bad)
    ctx.stats["manifest_corr_cases"] = len(cases)
    ctx.stats["manifest_corr_entries"] = sum(len(c["added"]) + len(c["existing"]) for c in cases)
    if cases:
        ctx.sample({"manifest_case": manifest_case_json(cases[0]), "pruning_exprs": [(col, op, val_json(v)) for col, op, v in fes_all[0]], "impl_keep": impl_p[0]})


# ---------------------------------------------------------------------------------- field-id keys: model vs code
REQK = ["DS.Model.Value", "DS.Model.FieldKey"]
REQS = ["DS.Model.Value", "DS.Model.BoundPrim", "DS.Model.FieldKey", "DS.Gen.GenFieldKey", "DS.Model.SchemaIds"]
KEY_ALPHABET = list(" \t\n\x0b\x1c\x1f+-_0123456789") + ["a", ".", "e", "\xa0", "\u2003", "\x00"]
KEY_STRINGS = ["", " ", "1", " 1", "1 ", "\n1\t", "+1", "-1", "- 1", "+-1", "--1", "01", "007", "1_0", "1__0", "_1", "1_", "1_000_000", "0_1", "+0", "-0",
               "1.0", "1e3", "0x10", "True", "None", "a", "12a", "1 2", "\xa01\u2003", "١", "１２", "1\x00", "\x1c7\x1f", "9" * 40, "-" + "9" * 25]


def codes_coq(t: str) -> str:
    return "[" + "; ".join(f"{ord(c)}%Z" for c in t) + "]"


def py_int_of_str(t: str) -> Any:
    try:
        return (0, int(t))
    except ValueError:
        return (1, 0)


def corr_keys(ctx, bench: ManifestBench) -> None:
    """Model/FieldKey.v against Python and against the real file manager:
         str      str(k) of None / bool / int / str objects                               vs kenc
         int      int(s) of strings (spaces, signs, underscores, leading zeros, junk, other scripts) vs kdec
         trip     real create_manifest_file -> the raw Avro map keys -> real read_manifest_file, on DataFiles whose bounds are
                  keyed by ARBITRARY Python ids (whether or not a Schema would accept them: this is the file manager alone)
                                                                                          vs key_write / key_trip"""
    rng = ctx.rng
    # --- str(k)
    ids_pool: List[Any] = list(INT_IDS) + [-7, -(2**64), 10**30, True, False, None] + [t for k in INT_IDS[:6] for t in id_twins(k)] + ["", "a", "é"]
    got = coqbuild.coq_eval(REQK, [f"kenc {val_to_coq(k)}" for k in ids_pool])
    bad = []
    for k, g in zip(ids_pool, got):
        want = [ord(c) for c in str(k)]
        have = None if g is None else list(g.x if hasattr(g, "x") else g)
        if have != want:
            bad.append({"id": id_text(k), "python_str": str(k), "model": repr(g)[:200]})
    ctx.correspondence("keys-str", len(ids_pool), bad)
    # --- int(s)
    strings = list(KEY_STRINGS)
    for _ in range(260 if ctx.tier == "quick" else 3000):
        strings.append("".join(rng.choice(KEY_ALPHABET) for _ in range(rng.choice([1, 2, 2, 3, 4, 6]))))
    for _ in range(60 if ctx.tier == "quick" else 600):
        z = rng.choice([rng.randrange(-1000, 1000), rng.randrange(-2**70, 2**70)])
        strings.append(rng.choice(["", " ", "\n"]) + rng.choice(["", "+"] if z >= 0 else [""]) + rng.choice(["", "0", "00"] if z >= 0 else [""]) + str(z) + rng.choice(["", " ", "\t"]))
    got = coqbuild.coq_eval(REQK, [f"match kdec {codes_coq(t)} with IntOk z => (0, z) | IntValueError => (1, 0) | IntOutside => (2, 0) end" for t in strings])
    bad = []
    outside = 0
    for t, g in zip(strings, got):
        ctx.count(1, ("key-int", t))
        g = tuple(g)
        if g[0] == 2:
            outside += 1          # a non-ASCII, non-space character: Python may accept it as a digit of another script; not modelled
            if all(ord(c) < 128 for c in t):
                bad.append({"string": t, "python": py_int_of_str(t), "model": "outside, for an ASCII string"})
            continue
        if g != py_int_of_str(t):
            bad.append({"string": t, "python": py_int_of_str(t), "model": g})
    ctx.correspondence("keys-int", len(strings), bad)
    ctx.stats["keys_int_strings_outside_model"] = outside
    # --- the trip through a real manifest
    cases = [[1, "1"], [1, " 1", "01"], ["+2", 2], [True, 2], [None], ["a"], [1.5], [10, "1_0"], ["07"], [0, "00"], [2**70, -5]]
    for _ in range(150 if ctx.tier == "quick" else 1500):
        cases.append(gen_field_ids(rng, rng.choice([1, 2, 3, 4]), 0.7))
    exprs, impl = [], []
    kept = []
    for ids in cases:
        if any(isinstance(i, float) for i in ids):
            continue                     # str(float): outside the model
        lo = {i: n for n, i in enumerate(ids)}
        hi = {i: n + 100 for n, i in enumerate(ids)}
        try:
            _w, back, raw = bench.trip([(lo, hi)], [], want_raw=True)
            res: Any = (0, [[k, v] for k, v in back[0].lower_bounds.items()], [[k, v] for k, v in back[0].upper_bounds.items()])
        except ManifestUnreadable:
            res = (1, [], [])
        impl.append(res)
        kept.append(ids)
        m = lambda d: "[" + "; ".join(f"({val_to_coq(k)}, ({v})%Z)" for k, v in d.items()) + "]"
        exprs.append("[" + "; ".join(f"match key_trip {m(d)} with TripOk l => (0, l) | TripUnreadable => (1, []) | TripOutside => (2, []) end" for d in (lo, hi)) + "]")
    got = coqbuild.coq_eval(REQK, exprs)
    bad = []
    for ids, i, g in zip(kept, impl, got):
        ctx.count(1, ("key-trip", repr(ids)))
        (c1, l1), (c2, l2) = g
        if c1 == 2 or c2 == 2:
            continue
        model = (c1, [list(x) for x in l1], [list(x) for x in l2]) if c1 == 0 and c2 == 0 else (1, [], [])
        if model != (i[0], [list(x) for x in i[1]], [list(x) for x in i[2]]):
            bad.append({"ids": [id_text(k) for k in ids], "impl": repr(i)[:300], "model": repr(model)[:300]})
    ctx.correspondence("keys-trip", len(kept), bad)
    ctx.stats["keys_trip_cases"] = len(kept)
    ctx.stats["keys_trip_unreadable"] = sum(1 for i in impl if i[0] == 1)
    ctx.stats["keys_trip_ids_merged_or_renamed"] = sum(1 for ids, i in zip(kept, impl) if i[0] == 0 and [id_text(k) for k, _ in i[1]] != [id_text(k) for k in ids])


def corr_schema_ids(ctx) -> None:
    """Which id lists the real Schema constructor accepts vs Model/SchemaIds.v schema_ids_ok over the guards regenerated from
    Schema.__post_init__ (Gen/GenFieldKey.v)."""
    rng = ctx.rng
    cases: List[List[Any]] = [[1, 2, 3], [3, 1, 2], [1, 1], [1, "1"], ["1", 1], [True], [1, True], [0, False], [None], [None, None], [1.0], [1, 1.0], [1.5, 2],
                              ["a", "a"], ["a", "b"], [2**70, -1, 0], [], ["01", 1], [" 1"], [False, True]]
    for _ in range(200 if ctx.tier == "quick" else 2000):
        ids = gen_field_ids(rng, rng.choice([1, 2, 3, 4]), 0.6)
        if rng.random() < 0.15 and ids:
            ids = ids + [rng.choice(ids)]        # a plain duplicate
        cases.append(ids)
    got = coqbuild.coq_eval(REQS, [f"schema_ids_ok {vals_to_coq(ids)}" for ids in cases])
    bad = []
    accepted_non_int = 0
    for ids, g in zip(cases, got):
        ctx.count(1, ("schema-ids", repr([id_text(i) for i in ids])))
        real = schema_accepts(ids)
        if real and any(type(i) is not int for i in ids):
            accepted_non_int += 1
        if real != g:
            bad.append({"ids": [id_text(i) for i in ids], "Schema_accepts": real, "model": g})
    ctx.correspondence("schema-ids", len(cases), bad)
    ctx.stats["schema_ids_cases"] = len(cases)
    ctx.stats["schema_ids_non_int_lists_accepted_by_Schema"] = accepted_non_int


# ---------------------------------------------------------------------------------- driver
def run(ctx) -> None:
    ctx.rule = ("correspondence: exhaustive/sampled small domains over 9 column kinds x 40 cross-kind literals x 10 operators, and "
                "multi-entry multi-column manifests through the real writer / reader; "
                "oracle: real bounds of multi-column files -> real manifest -> real _file_may_match -> real pyarrow on value "
                "multisets of size <= 3, every bound of random real manifests, plus random "
                "end-to-end tables (pruned vs unpruned scans); a case is distinct by its full (values, operator, literal) tuple")
    ctx.trusted_base += [
        "translator/gen_prune.py (Python ast -> Gallina for _file_may_match's try block; loop skeleton pinned by golden AST)",
        "translator/gen_bound.py (_encode_bound isinstance chain, _decode_bound tag dispatch; JSON wrapping pinned by golden AST)",
        "translator/gen_fieldkey.py (the `if <test on f_id>: raise` guards of Schema.__post_init__'s field loop; the loop, the one binding of f_id and seen_ids.add pinned)",
        "translator/gen_entrycodec.py (the manifest entry's record literal and the reader's DataFile construction, field by field)",
        "translator/gen_manifest13.py (create_manifest_file's entry order and per-record bounds expressions, read_manifest_file's record loop; "
        "everything else in the two functions that could touch a bound is checked fail-closed)",
        "assumption Avro-exact: fastavro gives back the list of records and their string maps as written (validated by the manifest oracle / correspondence on real manifests)",
        "assumption JSON-exact: json round trip of bool/int/float(NaN, inf, -0.0)/str payloads and isoformat/fromisoformat of naive temporals are exact (validated by the codec oracle)",
        "assumption PA-exact: pyarrow evaluates a compiled filter to exactly Model/Prune.v `selected` or raises (validated by 'select' correspondence)",
        "assumption: an Arrow column holds values of one kind (hypothesis `homogeneous`)",
        "harness: harness/props/c13.py, harness/lib/coqbuild.py (vm_compute evaluation of the model on generated cases)",
    ]
    ctx.assumptions += ["DataFiles reach a manifest with bounds keyed by the ids of a schema the constructor accepted (C11: schema arguments are validated)"]
    ok = ctx.proofs(THEOREMS, gen_files=["GenPrune.v", "GenBound.v", "GenManifest13.v", "GenFieldKey.v", "GenEntryCodec.v"])
    ctx.allow_axioms([])
    walls: Dict[str, float] = {}

    def timed(name: str, fn: Any, *a: Any) -> Any:
        t0 = time.time()
        try:
            return fn(*a)
        finally:
            walls[name] = round(time.time() - t0, 1)
            ctx.stats["phase_wall_s"] = walls
    bench = ManifestBench(ctx)
    # implementation-only oracles always run: they are the search for a concrete failing input
    timed("oracle_unsound", oracle_unsound, ctx, bench)
    timed("oracle_codec", oracle_codec, ctx)
    mcases = timed("oracle_manifest", oracle_manifest, ctx, bench)
    timed("oracle_e2e", oracle_e2e, ctx)
    # correspondence needs the model to build; each piece on its own, so that a piece whose Gen file failed closed does not hide
    # the others
    for name, fn, args in (("corr_prims", corr_prims, (ctx,)), ("corr_prune", corr_prune, (ctx,)), ("corr_bounds", corr_bounds, (ctx,)),
                           ("corr_select", corr_select, (ctx,)), ("corr_codec", corr_codec, (ctx,)),
                           ("corr_manifest", corr_manifest, (ctx, bench, mcases)), ("corr_keys", corr_keys, (ctx, bench)),
                           ("corr_schema_ids", corr_schema_ids, (ctx,))):
        try:
            timed(name, fn, *args)
        except RuntimeError as e:
            ctx.proof_problems.append(f"model evaluation failed ({name}): " + str(e)[:600])
    ctx.stats["manifests_written_and_read"] = bench.manifests


def replay(ctx, payload) -> int:
    case = payload.get("case", {})
    if "rows_lost" in case:
        vs = [val_unjson(v) for v in case["values"]]
        lit = val_unjson(case["literal"])
        try:
            bad = unsound_case(case["kind"], vs, case["op"], lit, case.get("layout"), bench=ManifestBench(ctx, "replay-bench"))
        except (ValueError, ManifestUnreadable) as e:
            print("replay: passes now (the schema / manifest of the case is refused: " + repr(e)[:200] + ")")
            return 0
        print("replay:", "STILL FAILS " + unsound_text(bad) if bad else "passes now")
        return 1 if bad else 0
    if case.get("manifest"):
        mcase = manifest_case_unjson(case)
        if not schema_accepts(mcase["ids"]):
            print("replay: passes now (the Schema constructor refuses the field ids [" + ", ".join(map(id_text, mcase["ids"])) + "])")
            return 0
        try:
            problems = manifest_case_problems(ManifestBench(ctx, "replay-bench"), mcase)
        except ManifestUnreadable as e:
            print("replay: not judged (the manifest written for these field ids cannot be read back: " + str(e) + ")")
            return 0
        print("replay:", "STILL FAILS: " + "; ".join(p["what"] for p in problems[:4]) if problems else "passes now")
        return 1 if problems else 0
    if case.get("e2e") and "steps" in case:
        from datashard import create_table
        from datashard.data_structures import Schema
        path = os.path.join(ctx.scratch, "replay-e2e")
        shutil.rmtree(path, ignore_errors=True)
        try:
            table = create_table(path, Schema(schema_id=1, fields=case["schema"]))
        except ValueError as e:
            print("replay: passes now (the Schema constructor refuses the case's schema: " + str(e)[:200] + ")")
            return 0
        tz = case.get("tz")
        with procconf.timezone(tz[0] if tz else None, keep=not tz):
            for st in steps_unjson(case["steps"]):
                e2e_apply_step(table, st)
        flt = {}
        for k, v in case["filter"].items():
            lit = lit_unjson(v[1])
            if v[0] == "between":
                lit = tuple(lit)
            flt[k] = (v[0], lit)
        with procconf.timezone(tz[1] if tz else None, keep=not tz):
            verdict, pruned, unpruned = e2e_compare(table, flt)
        bad = verdict == "differs"
        print("replay:", f"STILL FAILS: pruned {str(pruned)[:200]} vs unpruned {str(unpruned)[:200]}" if bad else f"passes now ({verdict})")
        return 1 if bad else 0
    if case.get("e2e"):
        from datashard import create_table, filters
        from datashard.data_structures import Schema
        from datashard.metadata_manager import ConcurrentModificationException
        path = os.path.join(ctx.scratch, "replay-e2e")
        shutil.rmtree(path, ignore_errors=True)
        table = create_table(path, Schema(schema_id=1, fields=case["schema"]))
        for fi, f in enumerate(case["files"]):
            recs = [{k: val_unjson(v) for k, v in r.items()} for r in f]
            if fi < len(case.get("retried", [])) and case["retried"][fi]:
                real_commit = table.metadata_manager.commit
                fired = [False]

                def flaky(base: Any, new: Any, _rc=real_commit, _f=fired) -> Any:
                    if not _f[0]:
                        _f[0] = True
                        raise ConcurrentModificationException("injected: lost the race once")
                    return _rc(base, new)
                table.metadata_manager.commit = flaky
                try:
                    table.append_records(recs)
                finally:
                    table.metadata_manager.commit = real_commit
            else:
                table.append_records(recs)
        flt = {}
        for k, v in case["filter"].items():
            lit = val_unjson(v[1])
            if v[0] == "between":
                lit = tuple(lit)
            flt[k] = (v[0], lit)
        real_prune = filters.prune_files_by_bounds
        filters.prune_files_by_bounds = lambda data_files, expressions, schema: data_files
        try:
            unpruned = table.scan(filter=flt)
        finally:
            filters.prune_files_by_bounds = real_prune
        try:
            pruned = table.scan(filter=flt)
        except Exception as e:      # noqa: BLE001
            pruned = ("raises", repr(e)[:200])
        key_rows = lambda rows: sorted(repr(sorted((k, repr(v)) for k, v in r.items())) for r in rows)
        bad = isinstance(pruned, tuple) or key_rows(pruned) != key_rows(unpruned)
        print("replay:", f"STILL FAILS: pruned {str(pruned)[:200]} vs unpruned {str(unpruned)[:200]}" if bad else "passes now")
        return 1 if bad else 0
    if "value" in case and "decoded" in case:
        from datashard.file_manager import FileManager
        v, zp = val_unjson(case["value"]), case.get("tz")
        with procconf.timezone(zp[0] if zp else None, keep=not zp):
            raw = FileManager._encode_bound(v)
        with procconf.timezone(zp[1] if zp else None, keep=not zp):
            back = FileManager._decode_bound(raw)
        print("replay:", f"STILL FAILS: bound {v!r} stored as {raw} decodes as {back!r} (time zones {zp})" if not same(v, back) else "passes now")
        return 0 if same(v, back) else 1
    print("replay: payload kind not replayable directly; re-run ./bin/check C13 thorough")
    return 2
