"""C13 -- File pruning never changes a query's answer.

Proof      : coq/Props/C13.v (C13_prune_sound, C13_scan_equal, C13_bounds_true) over
             Gen/GenPrune.v, which is REGENERATED from filters._file_may_match on every run.
Tie        : translator (GenPrune) + correspondence of every hand-written model piece with the code:
               prims    Python <,<=,== on values           vs Model/Value.v py_lt/py_le/py_eqb
               prune    filters._file_may_match            vs Model/Prune.v file_may_match (uses Gen)
               bounds   DataFileManager._compute_column_bounds vs Model/Prune.v bounds_of
               select   real pyarrow evaluation of the compiled filter vs Model/Prune.v selected
Oracle /   : implementation-only, independent of the model:
search       unsound  real bounds -> real _file_may_match says skip -> real pyarrow selects a row
               e2e      scan(filter) with pruning vs the same scan with pruning disabled, real tables
               codec    _decode_bound(_encode_bound(v)) is v, type-faithfully
"""
from __future__ import annotations

import datetime as dt
import itertools
import os
import shutil
import tempfile
from typing import Any, Dict, List, Optional, Tuple

from harness.lib import coqbuild
from harness.lib.values import DOMAIN, LITERALS, NAN, same, val_json, val_to_coq, val_unjson, vals_to_coq

LEVEL = "proof"
THEOREMS = ["C13_prune_sound", "C13_scan_equal", "C13_bounds_true", "C13_bound_roundtrip"]
REQ = ["DS.Model.Value", "DS.Gen.GenPrune", "DS.Model.Prune"]
REQB = ["DS.Model.Value", "DS.Model.BoundPrim", "DS.Gen.GenBound", "DS.Model.Bound"]

MANIFEST_ENTRY = {
    "level_text": "C13_prune_sound / C13_scan_equal / C13_bounds_true proved in Coq for every file content, schema, filter "
                  "conjunction and literal (unbounded), over the pruning decision regenerated from filters._file_may_match on "
                  "every run; hand-written model pieces (Python comparison semantics, bounds computation, pyarrow selection) "
                  "are tied to the code by differential execution on exhaustive small domains; implementation-only oracles "
                  "(real bounds -> real pruning -> real pyarrow; pruned vs unpruned scans) search for a failing input",
    "level_note": "trusted: Coq kernel; translator/gen_prune.py; assumption PA-exact (pyarrow evaluates a filter exactly or "
                  "raises; lossy is_in casts are an unconstrained oracle X); columns are kind-homogeneous; the harness runs "
                  "the code faithfully",
    "technique": "Coq proof over translator-regenerated pruning kernel + differential correspondence",
    "design_ref": "DESIGN.md section 5 C13",
}

OPS = ["EQ", "NE", "LT", "LE", "GT", "GE", "IN", "NOT_IN", "IS_NULL", "IS_NOT_NULL"]
SCALAR_OPS = ["EQ", "NE", "LT", "LE", "GT", "GE"]


def _imports():
    import pyarrow as pa
    from datashard import filters
    from datashard.data_structures import DataFile, FileFormat, Schema
    return pa, filters, DataFile, FileFormat, Schema


def fexpr_coq(col: int, op: str, value: Any) -> str:
    if op in ("IN", "NOT_IN"):
        return f"{{| fcol := {col}; fop_ := {op}; fsval := VNull; flval := {vals_to_coq(list(value))} |}}"
    return f"{{| fcol := {col}; fop_ := {op}; fsval := {val_to_coq(value)}; flval := [] |}}"


def bounds_coq(b: Dict[int, Any]) -> str:
    return "[" + "; ".join(f"({k}, {val_to_coq(v)})" for k, v in b.items()) + "]"


def py_cmp(fn) -> Any:
    try:
        return bool(fn())
    except TypeError:
        return None


# ---------------------------------------------------------------------------------- correspondence
def corr_prims(ctx) -> None:
    vals = list(LITERALS)
    for d in DOMAIN.values():
        for v in d:
            if not any(same(v, w) for w in vals):
                vals.append(v)
    pairs = list(itertools.product(vals, vals))
    if ctx.tier == "quick":
        pairs = ctx.rng.sample(pairs, 900)
    exprs = [f"(py_lt {val_to_coq(a)} {val_to_coq(b)}, py_le {val_to_coq(a)} {val_to_coq(b)}, py_eqb {val_to_coq(a)} {val_to_coq(b)})" for a, b in pairs]
    got = coqbuild.coq_eval(REQ, exprs)
    bad = []
    for (a, b), g in zip(pairs, got):
        exp = (py_cmp(lambda: a < b), py_cmp(lambda: a <= b), bool(a == b))
        g = tuple(x.x if hasattr(x, "x") else x for x in g)
        if tuple(g) != exp:
            bad.append({"a": val_json(a), "b": val_json(b), "python": exp, "model": list(g)})
    ctx.correspondence("prims", len(pairs), bad)
    ctx.stats["prims_pairs"] = len(pairs)


def gen_prune_cases(ctx) -> List[Tuple[Dict[int, Any], Dict[int, Any], Dict[str, int], List[Tuple[str, str, Any]]]]:
    """(lower_bounds, upper_bounds, col_name_to_id, [(column, op, value)])"""
    cases = []
    rng = ctx.rng
    for kind, dom in DOMAIN.items():
        bvals = [v for v in dom]
        pairs = [(a, b) for a in bvals for b in bvals]
        for fmin, fmax in pairs:
            lits = LITERALS if ctx.tier == "thorough" else rng.sample(LITERALS, 6)
            for op in SCALAR_OPS:
                for lit in lits:
                    cases.append(({1: fmin}, {1: fmax}, {"c": 1}, [("c", op, lit)]))
            nl = 12 if ctx.tier == "thorough" else 2
            for _ in range(nl):
                n = rng.choice([0, 1, 1, 2, 3])
                cases.append(({1: fmin}, {1: fmax}, {"c": 1}, [("c", "IN", [rng.choice(LITERALS) for _ in range(n)])]))
            cases.append(({1: fmin}, {1: fmax}, {"c": 1}, [("c", rng.choice(["NOT_IN"]), [rng.choice(LITERALS)])]))
            cases.append(({1: fmin}, {1: fmax}, {"c": 1}, [("c", rng.choice(["IS_NULL", "IS_NOT_NULL"]), None)]))
    # skeleton cases: unknown column, missing bound, conjunctions, second column
    for _ in range(400 if ctx.tier == "thorough" else 120):
        kind = rng.choice(list(DOMAIN))
        dom = DOMAIN[kind]
        lo = {1: rng.choice(dom), 2: rng.choice(DOMAIN["long"])}
        hi = {1: rng.choice(dom), 2: rng.choice(DOMAIN["long"])}
        if rng.random() < 0.3:
            del lo[rng.choice([1, 2])]
        if rng.random() < 0.3:
            del hi[rng.choice([1, 2])]
        ids = {"c": 1, "d": 2}
        es = []
        for _ in range(rng.choice([1, 2, 3])):
            col = rng.choice(["c", "d", "zz"])
            op = rng.choice(SCALAR_OPS + ["IN"])
            val = [rng.choice(LITERALS) for _ in range(rng.choice([0, 1, 2]))] if op == "IN" else rng.choice(LITERALS)
            es.append((col, op, val))
        cases.append((lo, hi, ids, es))
    return cases


COLNUM = {"c": 0, "d": 1, "zz": 9}


def corr_prune(ctx) -> None:
    pa, filters, DataFile, FileFormat, Schema = _imports()
    cases = gen_prune_cases(ctx)
    exprs, impl = [], []
    for lo, hi, ids, es in cases:
        df = DataFile(file_path="/data/x.parquet", file_format=FileFormat.PARQUET, partition_values={}, record_count=1,
                      file_size_in_bytes=1, lower_bounds=dict(lo), upper_bounds=dict(hi))
        fes = [filters.FilterExpression(c, filters.FilterOp[op], v) for c, op, v in es]
        impl.append(bool(filters._file_may_match(df, fes, ids)))
        ids_coq = "[" + "; ".join(f"({COLNUM[c]}, {i})" for c, i in ids.items()) + "]"
        es_coq = "[" + "; ".join(fexpr_coq(COLNUM[c], op, v) for c, op, v in es) + "]"
        exprs.append(f"file_may_match {bounds_coq(lo)} {bounds_coq(hi)} {ids_coq} {es_coq}")
    got = coqbuild.coq_eval(REQ, exprs)
    bad = []
    for case, i, g in zip(cases, impl, got):
        ctx.count(1, ("prune", repr(case)))
        if i != g:
            lo, hi, ids, es = case
            bad.append({"lower": {k: val_json(v) for k, v in lo.items()}, "upper": {k: val_json(v) for k, v in hi.items()},
                        "ids": ids, "exprs": [(c, op, val_json(v)) for c, op, v in es], "impl": i, "model": g})
    ctx.correspondence("prune", len(cases), bad)
    ctx.sample({"prune_case": {"lower": {k: val_json(v) for k, v in cases[0][0].items()}, "exprs": [(c, op, val_json(v)) for c, op, v in cases[0][3]], "impl": impl[0]}})
    pruned = sum(1 for x in impl if not x)
    ctx.stats["prune_cases"] = len(cases)
    ctx.stats["prune_decided_skip"] = pruned


ARROW = None


def arrow_type(kind: str):
    import pyarrow as pa
    return {"long": pa.int64(), "int": pa.int32(), "double": pa.float64(), "float": pa.float32(), "string": pa.string(),
            "boolean": pa.bool_(), "timestamp": pa.timestamp("us"), "date": pa.date32(), "time": pa.time64("us")}[kind]


def multisets(kind: str, maxn: int, rng, limit: Optional[int]) -> List[List[Any]]:
    dom = DOMAIN[kind] + [None]
    out = []
    for n in range(1, maxn + 1):
        out.extend(list(c) for c in itertools.combinations_with_replacement(dom, n))
    if limit is not None and len(out) > limit:
        out = rng.sample(out, limit)
    return out


def real_bounds(kind: str, vs: List[Any]):
    """Bounds exactly as the writer computes them (through the real _compute_column_bounds)."""
    import pyarrow as pa
    from datashard.data_operations import DataFileManager
    from datashard.data_structures import Schema
    schema = Schema(schema_id=1, fields=[{"id": 1, "name": "c", "type": kind, "required": False}])
    table = pa.table({"c": pa.array(vs, arrow_type(kind))})
    dfm = DataFileManager.__new__(DataFileManager)
    lo, hi = DataFileManager._compute_column_bounds(dfm, table, schema)
    return table, (lo or {}), (hi or {})


def canon_cell(kind: str, v: Any) -> Any:
    """What the column actually holds after Arrow conversion (float32 rounding etc.)."""
    import pyarrow as pa
    return pa.array([v], arrow_type(kind))[0].as_py()


def corr_bounds(ctx) -> None:
    cases = []
    for kind in DOMAIN:
        for vs in multisets(kind, 3, ctx.rng, 150 if ctx.tier == "quick" else None):
            cases.append((kind, vs))
    exprs, impl = [], []
    for kind, vs in cases:
        _t, lo, hi = real_bounds(kind, vs)
        impl.append((lo.get(1), hi.get(1)))
        cells = [canon_cell(kind, v) for v in vs]
        exprs.append(f"bounds_of {vals_to_coq(cells)}")
    got = coqbuild.coq_eval(REQ, [f"match {e} with Some (a, b) => [a; b] | None => [] end" for e in exprs])
    expected = coqbuild.coq_eval(REQ, [("[" + val_to_coq(lo) + "; " + val_to_coq(hi) + "]") if lo is not None and hi is not None else "(@nil value)" for lo, hi in impl])
    bad = []
    for (kind, vs), g, e, i in zip(cases, got, expected, impl):
        ctx.count(1, ("bounds", kind, repr(vs)))
        if (i[0] is None) != (i[1] is None) or g != e:
            bad.append({"kind": kind, "values": [val_json(v) for v in vs], "impl": [val_json(i[0]), val_json(i[1])], "model": repr(g)})
    ctx.correspondence("bounds", len(cases), bad)
    ctx.stats["bounds_cases"] = len(cases)


def pyarrow_selects(filters, table, col: str, op: str, value: Any):
    """Rows selected by the real compiled filter; 'raises' when pyarrow refuses."""
    fe = filters.FilterExpression(col, filters.FilterOp[op], value)
    try:
        expr = filters.to_pyarrow_compute_expression([fe])
        out = table.filter(expr)
        return out.column(col).to_pylist()
    except Exception as e:  # pyarrow kernel/type mismatch, lossy cast, overflow
        return ("raises", type(e).__name__)


def corr_select(ctx) -> None:
    import pyarrow as pa
    from datashard import filters
    cases = []
    for kind, dom in DOMAIN.items():
        for cellv in dom + [None]:
            for op in SCALAR_OPS:
                lits = LITERALS if ctx.tier == "thorough" else ctx.rng.sample(LITERALS, 5)
                for lit in lits:
                    cases.append((kind, cellv, op, lit))
            for _ in range(6 if ctx.tier == "thorough" else 2):
                n = ctx.rng.choice([0, 1, 2, 3])
                lst = [ctx.rng.choice(LITERALS + dom) for _ in range(n)]
                cases.append((kind, cellv, ctx.rng.choice(["IN", "NOT_IN"]), lst))
            cases.append((kind, cellv, "IS_NULL", None))
            cases.append((kind, cellv, "IS_NOT_NULL", None))
    exprs, impl, kept = [], [], []
    raises = 0
    for kind, cellv, op, lit in cases:
        table = pa.table({"c": pa.array([cellv], arrow_type(kind))})
        r = pyarrow_selects(filters, table, "c", op, lit)
        if isinstance(r, tuple):
            raises += 1
            continue
        cell = canon_cell(kind, cellv)
        sv = "VNull" if op in ("IN", "NOT_IN") else val_to_coq(lit)
        lv = vals_to_coq(lit) if op in ("IN", "NOT_IN") else "[]"
        c = val_to_coq(cell)
        if op in ("IN", "NOT_IN"):
            appl = f"forallb (fun w => is_null w || (negb (cast_lossy {c} w) && match vcmp {c} w with Some _ => true | None => is_null {c} end)) {lv}"
        elif op in ("IS_NULL", "IS_NOT_NULL"):
            appl = "true"
        else:
            appl = f"is_null {c} || is_null {sv} || match vcmp {c} {sv} with Some _ => true | None => false end"
        exprs.append(f"(selected (fun _ _ => false) {op} {c} {sv} {lv}, {appl})")
        impl.append(len(r) == 1)
        kept.append((kind, cellv, op, lit))
    got = coqbuild.coq_eval(REQ, exprs)
    bad = []
    outside = 0
    for case, i, (g, applicable) in zip(kept, impl, got):
        ctx.count(1, ("select", repr(case)))
        if not applicable:
            # outside assumption PA-exact: Python-incomparable kinds (pruning raises TypeError there and
            # never prunes) or a lossy is_in cast (oracle X in the theorems)
            outside += 1
            continue
        if i != g:
            kind, cellv, op, lit = case
            bad.append({"kind": kind, "cell": val_json(cellv), "op": op, "literal": val_json(lit), "pyarrow": i, "model": g})
    ctx.correspondence("select", len(kept), bad)
    ctx.stats["select_cases"] = len(kept)
    ctx.stats["select_pyarrow_raises"] = raises
    ctx.stats["select_outside_PA_exact"] = outside


# ---------------------------------------------------------------------------------- oracles (impl only)
def unsound_case(kind: str, vs: List[Any], op: str, lit: Any) -> Optional[Dict[str, Any]]:
    """Real bounds -> real _file_may_match -> real pyarrow. Returns a description iff pruning loses a row."""
    pa, filters, DataFile, FileFormat, Schema = _imports()
    table, lo, hi = real_bounds(kind, vs)
    # bounds travel through the manifest codec on their way to the reader
    from datashard.file_manager import FileManager
    lo = {k: FileManager._decode_bound(FileManager._encode_bound(v)) for k, v in lo.items()}
    hi = {k: FileManager._decode_bound(FileManager._encode_bound(v)) for k, v in hi.items()}
    df = DataFile(file_path="/data/x.parquet", file_format=FileFormat.PARQUET, partition_values={}, record_count=len(vs),
                  file_size_in_bytes=1, lower_bounds=lo, upper_bounds=hi)
    fe = filters.FilterExpression("c", filters.FilterOp[op], lit)
    may = filters._file_may_match(df, [fe], {"c": 1})
    if may:
        return None
    sel = pyarrow_selects(filters, table, "c", op, lit)
    if isinstance(sel, tuple) or not sel:
        return None
    return {"kind": kind, "values": [val_json(v) for v in vs], "op": op, "literal": val_json(lit),
            "lower": val_json(lo.get(1)), "upper": val_json(hi.get(1)), "rows_lost": [val_json(x) for x in sel]}


def oracle_unsound(ctx) -> None:
    n = 0
    skipped = 0
    for kind, dom in DOMAIN.items():
        sets = multisets(kind, 3 if ctx.tier == "thorough" else 2, ctx.rng, None if ctx.tier == "thorough" else 40)
        same_kind_lits = [l for l in LITERALS + dom if l is not None]
        for vs in sets:
            for op in SCALAR_OPS:
                lits = same_kind_lits if ctx.tier == "thorough" else ctx.rng.sample(same_kind_lits, 8) + dom[:3]
                for lit in lits:
                    n += 1
                    bad = unsound_case(kind, vs, op, lit)
                    if bad:
                        ctx.violation(f"prune-unsound:{op}:{kind}", f"file {bad['values']} skipped for {op} {bad['literal']} although pyarrow selects {bad['rows_lost']}", bad)
            cross = [[x] for x in (0.1, 0.5, 5.5, 2, 1, 0, True, NAN, float.fromhex("0x1.99999a0000000p-4"))]
            for lst in ([[x] for x in dom] + [[dom[0], dom[-1]], []] + cross):
                n += 1
                bad = unsound_case(kind, vs, "IN", lst)
                if bad:
                    ctx.violation(f"prune-unsound:IN:{kind}", f"file {bad['values']} skipped for IN {bad['literal']} although pyarrow selects {bad['rows_lost']}", bad)
    ctx.count(n)
    ctx.stats["unsound_oracle_cases"] = n


# the end-to-end oracle also covers column types for which the writer stores NO bounds (binary): pruning must then
# never skip anything
E2E_DOMAIN = dict(DOMAIN)
E2E_DOMAIN["binary"] = [b"", b"a", b"ab", b"zz"]


def _rand_value(rng, kind: str) -> Any:
    if rng.random() < 0.2:
        return None
    return rng.choice(E2E_DOMAIN[kind])


def oracle_e2e(ctx) -> None:
    """Real tables: scan(filter) with pruning vs. with prune_files_by_bounds replaced by the identity."""
    from datashard import create_table, filters
    from datashard.data_structures import Schema
    rng = ctx.rng
    ntables = 24 if ctx.tier == "quick" else 200
    kinds = list(E2E_DOMAIN)
    total = 0
    skipped_raise = 0
    differing = 0
    real_prune = filters.prune_files_by_bounds
    retried = [0]
    for t in range(ntables):
        cols = rng.sample(kinds, rng.choice([1, 2, 3]))
        if t % 4 == 0:
            cols = ["binary", rng.choice([k for k in kinds if k != "binary"])]     # a column without bounds next to one with bounds
        elif t % 4 == 1:
            cols = [rng.choice(["date", "timestamp"]), rng.choice([k for k in kinds if k not in ("date", "timestamp")])]
        fields = [{"id": i + 1, "name": f"c{i}", "type": k, "required": False} for i, k in enumerate(cols)]
        schema = Schema(schema_id=1, fields=fields)
        path = os.path.join(ctx.scratch, f"t{t}")
        table = create_table(path, schema)
        files = []
        retried_flags: List[bool] = []
        for _ in range(rng.choice([1, 2, 3, 4])):
            before_retried = retried[0]
            recs = [{f"c{i}": _rand_value(rng, k) for i, k in enumerate(cols)} for _ in range(rng.choice([1, 2, 3, 5]))]
            if rng.random() < 0.3:
                v = {f"c{i}": _rand_value(rng, k) for i, k in enumerate(cols)}
                recs = [dict(v) for _ in recs]     # single-valued file
            if rng.random() < 0.35:
                # the commit loses one optimistic-concurrency race and is retried (the manifests are rebuilt from the same
                # in-memory DataFile objects): bounds must survive the second encoding exactly like the first
                from datashard.metadata_manager import ConcurrentModificationException
                mm_ = table.metadata_manager
                real_commit = mm_.commit
                fired = [False]

                def flaky_commit(base: Any, new: Any, _rc=real_commit, _f=fired) -> Any:
                    if not _f[0]:
                        _f[0] = True
                        raise ConcurrentModificationException("injected: lost the race once")
                    return _rc(base, new)
                mm_.commit = flaky_commit
                try:
                    table.append_records(recs)
                finally:
                    mm_.commit = real_commit
                retried[0] += 1
            else:
                table.append_records(recs)
            files.append(recs)
            retried_flags.append(retried[0] > before_retried)
        # directed: the null tests on EVERY column (columns without stored bounds included), alone and next to a comparison
        directed = []
        for i in range(len(cols)):
            for opn in ("is_null", "is_not_null"):
                directed.append({f"c{i}": (opn, True)})
                j = (i + 1) % len(cols)
                if j != i:
                    directed.append({f"c{i}": (opn, True), f"c{j}": (">=", rng.choice(E2E_DOMAIN[cols[j]]))})
        # directed: every comparison of a date column with a datetime at / around each day the files hold (and of a timestamp
        # column with the dates of its values): the cross-kind comparisons pyarrow evaluates as "date = midnight"
        import datetime as _dtm2
        for i, kind in enumerate(cols):
            if kind not in ("date", "timestamp"):
                continue
            present = sorted({r[f"c{i}"] for f in files for r in f if r.get(f"c{i}") is not None})[:4]
            for v in present:
                if kind == "date":
                    lits = [_dtm2.datetime(v.year, v.month, v.day, 12, 0), _dtm2.datetime(v.year, v.month, v.day),
                            _dtm2.datetime(v.year, v.month, v.day) + _dtm2.timedelta(days=1, microseconds=1)]
                else:
                    lits = [v.date(), v.date() + _dtm2.timedelta(days=1)]
                for lit in lits:
                    for opn in ("==", "!=", "<", "<=", ">", ">="):
                        directed.append({f"c{i}": (opn, lit)})
        nrand = 10 if ctx.tier == "quick" else 30
        for fi in range(nrand + len(directed)):
            flt = {}
            if fi >= nrand:
                flt = directed[fi - nrand]
            for _c in range(rng.choice([1, 1, 2]) if fi < nrand else 0):
                i = rng.randrange(len(cols))
                dom = E2E_DOMAIN[cols[i]]
                r = rng.random()
                if cols[i] in ("date", "timestamp") and rng.random() < 0.4:
                    # a literal of the OTHER temporal kind (pyarrow compares a date with a timestamp as midnight of that day):
                    # datetimes at / just around the days present in a date column, dates for a timestamp column
                    import datetime as _dtm
                    if cols[i] == "date":
                        days = [v for v in dom if isinstance(v, _dtm.date)] or [_dtm.date(2024, 1, 2)]
                        d0 = rng.choice(days)
                        lit = rng.choice([_dtm.datetime(d0.year, d0.month, d0.day, 12, 0), _dtm.datetime(d0.year, d0.month, d0.day),
                                          _dtm.datetime(d0.year, d0.month, d0.day, 23, 59, 59, 999999),
                                          _dtm.datetime(d0.year, d0.month, d0.day) + _dtm.timedelta(days=1, microseconds=1)])
                    else:
                        tss = [v for v in dom if isinstance(v, _dtm.datetime)] or [_dtm.datetime(2024, 1, 2, 3, 4)]
                        t0_ = rng.choice(tss)
                        lit = rng.choice([t0_.date(), t0_.date() + _dtm.timedelta(days=1)])
                    flt[f"c{i}"] = (rng.choice(["==", "!=", "<", "<=", ">", ">="]), lit)
                elif r < 0.55:
                    flt[f"c{i}"] = (rng.choice(["==", "!=", "<", "<=", ">", ">="]), rng.choice(dom + LITERALS[:21] if cols[i] in ("long", "int", "double", "float") else dom))
                elif r < 0.8:
                    flt[f"c{i}"] = (rng.choice(["in", "not_in"]), [rng.choice(dom) for _ in range(rng.choice([0, 1, 2]))])
                elif r < 0.9:
                    lo_, hi_ = rng.choice(dom), rng.choice(dom)
                    flt[f"c{i}"] = ("between", (lo_, hi_))
                else:
                    flt[f"c{i}"] = (rng.choice(["is_null", "is_not_null"]), True)
            total += 1
            try:
                filters.prune_files_by_bounds = lambda data_files, expressions, schema: data_files
                try:
                    unpruned = table.scan(filter=flt)
                finally:
                    filters.prune_files_by_bounds = real_prune
            except Exception:
                skipped_raise += 1
                continue
            try:
                pruned = table.scan(filter=flt)
            except Exception as e:
                pruned = ("raises", repr(e)[:200])
            key_rows = lambda rows: sorted(repr(sorted((k, repr(v)) for k, v in r.items())) for r in rows)
            if isinstance(pruned, tuple) or key_rows(pruned) != key_rows(unpruned):
                differing += 1
                ctx.violation("scan-differs:" + ",".join(sorted({str(v[0]) for v in flt.values()})),
                              f"scan with pruning differs from scan without for filter {flt!r}",
                              {"e2e": True, "retried": list(retried_flags),
                               "schema": fields, "files": [[{k: val_json(v) for k, v in r.items()} for r in f] for f in files],
                               "filter": {k: [v[0], val_json(v[1])] for k, v in flt.items()},
                               "pruned": repr(pruned)[:500], "unpruned": repr(unpruned)[:500]})
        shutil.rmtree(path, ignore_errors=True)
    ctx.count(total)
    ctx.stats["e2e_scans"] = total
    ctx.stats["e2e_appends_committed_after_one_retry"] = retried[0]
    ctx.stats["e2e_unpruned_raises_skipped"] = skipped_raise
    ctx.stats["e2e_differing"] = differing


CODEC_VALUES = [
    True, False, 0, 1, -1, 2**53, 2**53 + 1, -(2**63), 2**63 - 1, 2**70,
    0.0, -0.0, 0.1, 1.5, float.fromhex("0x1.99999a0000000p-4"), 1e308, 5e-324, NAN, float("inf"), float("-inf"),
    "", "a", "123", "true", "1.5", "é", "\U0001F600", '{"t": "int", "v": 1}', "nan",
    dt.datetime(2020, 1, 1), dt.datetime(2020, 1, 1, 1, 2, 3, 4), dt.date(2020, 2, 29), dt.time(1, 2, 3), dt.time(1, 2, 3, 4),
]


def oracle_codec(ctx) -> None:
    from datashard.file_manager import FileManager
    for v in CODEC_VALUES:
        ctx.count(1, ("codec", repr(v)))
        back = FileManager._decode_bound(FileManager._encode_bound(v))
        if not same(v, back):
            ctx.violation(f"bound-codec:{type(v).__name__}", f"bound {v!r} decodes as {back!r} ({type(back).__name__})",
                          {"value": val_json(v), "decoded": repr(back)})


def corr_codec(ctx) -> None:
    """Tag chosen by the real _encode_bound and value decoded by the real _decode_bound vs the model's enc / dec."""
    import json as _json
    from datashard.file_manager import FileManager
    vals = [v for v in CODEC_VALUES if not (isinstance(v, int) and not isinstance(v, bool) and abs(v) > 2**200)]
    exprs = [f"(fst (enc {val_to_coq(v)}), dec (enc {val_to_coq(v)}))" for v in vals]
    want = coqbuild.coq_eval(REQB, [val_to_coq(v) for v in vals])
    got = coqbuild.coq_eval(REQB, exprs)
    bad = []
    for v, (tag, decoded), w in zip(vals, got, want):
        raw = FileManager._encode_bound(v)
        impl_tag = _json.loads(raw)["t"]
        back = FileManager._decode_bound(raw)
        if impl_tag != tag or decoded != w or not same(v, back):
            bad.append({"value": val_json(v), "impl_tag": impl_tag, "model_tag": tag, "impl_roundtrip_ok": same(v, back),
                        "model_roundtrip_ok": decoded == w})
    ctx.correspondence("codec", len(vals), bad)


# ---------------------------------------------------------------------------------- driver
def run(ctx) -> None:
    ctx.rule = ("correspondence: exhaustive/sampled small domains over 9 column kinds x 40 cross-kind literals x 10 operators; "
                "oracle: real bounds -> real _file_may_match -> real pyarrow on value multisets of size <= 3, plus random "
                "end-to-end tables (pruned vs unpruned scans); a case is distinct by its full (values, operator, literal) tuple")
    ctx.trusted_base += [
        "translator/gen_prune.py (Python ast -> Gallina for _file_may_match's try block; loop skeleton pinned by golden AST)",
        "translator/gen_bound.py (_encode_bound isinstance chain, _decode_bound tag dispatch; JSON wrapping pinned by golden AST)",
        "assumption JSON-exact: json round trip of bool/int/float(NaN, inf, -0.0)/str payloads and isoformat/fromisoformat of naive temporals are exact (validated by the codec oracle)",
        "assumption PA-exact: pyarrow evaluates a compiled filter to exactly Model/Prune.v `selected` or raises (validated by 'select' correspondence)",
        "assumption: an Arrow column holds values of one kind (hypothesis `homogeneous`)",
        "harness: harness/props/c13.py, harness/lib/coqbuild.py (vm_compute evaluation of the model on generated cases)",
    ]
    ctx.assumptions += ["field ids unique within a schema (enforced by Schema.__post_init__)",
                        "bounds looked up under the id they were stored under (C11)"]
    ok = ctx.proofs(THEOREMS, gen_files=["GenPrune.v", "GenBound.v"])
    ctx.allow_axioms([])
    # implementation-only oracles always run: they are the search for a concrete failing input
    oracle_unsound(ctx)
    oracle_codec(ctx)
    oracle_e2e(ctx)
    # correspondence needs the model to build
    try:
        corr_prims(ctx)
        corr_prune(ctx)
        corr_bounds(ctx)
        corr_select(ctx)
        corr_codec(ctx)
    except RuntimeError as e:
        ctx.proof_problems.append("model evaluation failed: " + str(e)[:600])


def replay(ctx, payload) -> int:
    case = payload.get("case", {})
    if "rows_lost" in case:
        vs = [val_unjson(v) for v in case["values"]]
        lit = val_unjson(case["literal"])
        bad = unsound_case(case["kind"], vs, case["op"], lit)
        print("replay:", "STILL FAILS " + repr(bad) if bad else "passes now")
        return 1 if bad else 0
    if case.get("e2e"):
        from datashard import create_table, filters
        from datashard.data_structures import Schema
        from datashard.metadata_manager import ConcurrentModificationException
        path = os.path.join(ctx.scratch, "replay-e2e")
        shutil.rmtree(path, ignore_errors=True)
        table = create_table(path, Schema(schema_id=1, fields=case["schema"]))
        for fi, f in enumerate(case["files"]):
            recs = [{k: val_unjson(v) for k, v in r.items()} for r in f]
            if fi < len(case.get("retried", [])) and case["retried"][fi]:
                real_commit = table.metadata_manager.commit
                fired = [False]

                def flaky(base: Any, new: Any, _rc=real_commit, _f=fired) -> Any:
                    if not _f[0]:
                        _f[0] = True
                        raise ConcurrentModificationException("injected: lost the race once")
                    return _rc(base, new)
                table.metadata_manager.commit = flaky
                try:
                    table.append_records(recs)
                finally:
                    table.metadata_manager.commit = real_commit
            else:
                table.append_records(recs)
        flt = {}
        for k, v in case["filter"].items():
            lit = val_unjson(v[1])
            if v[0] == "between":
                lit = tuple(lit)
            flt[k] = (v[0], lit)
        real_prune = filters.prune_files_by_bounds
        filters.prune_files_by_bounds = lambda data_files, expressions, schema: data_files
        try:
            unpruned = table.scan(filter=flt)
        finally:
            filters.prune_files_by_bounds = real_prune
        try:
            pruned = table.scan(filter=flt)
        except Exception as e:      # noqa: BLE001
            pruned = ("raises", repr(e)[:200])
        key_rows = lambda rows: sorted(repr(sorted((k, repr(v)) for k, v in r.items())) for r in rows)
        bad = isinstance(pruned, tuple) or key_rows(pruned) != key_rows(unpruned)
        print("replay:", f"STILL FAILS: pruned {str(pruned)[:200]} vs unpruned {str(unpruned)[:200]}" if bad else "passes now")
        return 1 if bad else 0
    print("replay: payload kind not replayable directly; re-run ./bin/check C13 thorough")
    return 2
