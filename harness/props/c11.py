"""C11 -- Accepted appends are exact; rejected ones leave no trace; scans keep working.

Proof      : coq/Props/C11.v over Model/Schema.v + Gen/GenSchema.v (the signature's container kind and tuple
             shape, the primitive type set, type_mapping, the no-bounds type tuple are REGENERATED from the
             source on every run; _validate_schema_against_table, create_arrow_schema and the bounds keying
             are pinned by golden AST shape), and over Model/SchemaOpen.v + Gen/GenOpen.v for HANDLE PROVENANCE:
             what create_table / load_table / Table.__init__ do when a handle is obtained (program-order actions,
             helpers inlined, every create_arrow_schema call with the origin of its schema) is REGENERATED
             (translator/gen_open.py, fail-closed; `_arrow_schema_cache` may be touched by no other site); the
             theorems C11_open_* / C11_handle* hold of histories that interleave openings with appends.
Oracles    : implementation only, judged by an independent reader (json / fastavro / pyarrow, no datashard):
               e2e      histories of appends (schema-argument variants x fresh / reused handles x batches over
                        value classes): rejected -> pointer, metadata, snapshot list, reachable files and table
                        content unchanged; accepted -> full scan and filtered scans on every column return
                        exactly the supplied rows (up to the declared type's representation), never raise
               cells    every column type x every value class (incl. LONG strings / bytes sharing long prefixes), one cell at a time
               probes   after every accepted append, filters AT THE EXTREMES of the file it wrote (==, >=, in [max]; ==, <= min;
                        > min, < max) on every column, one also through iter_records -- the literals bounds are consulted against
               bounded  every history runs in a worker process (deadline, address-space limit, circuit breaker); in-process
                        library calls of the correspondence run under SIGALRM deadlines: a looping library is a VIOLATION
               spelling type SPELLINGS ({"type": t}, +doc, nested, upper case, [t], {}) in the table schema or in the
                        argument x the values plain pyarrow silently alters, fresh and reused handles
               faults   storage faults DURING the append calls of explicit transactions (a window of failing operations that
                        lasts as long as the call: metadata reads from the start / after the call's first write / the first n;
                        marker writes; data-plane reads; manifests), x divergent schema arguments and pre-built footers x
                        fresh / reused handles; the same windows are mixed into the random transaction histories
               objects  schema argument OBJECTS whose derived attributes (schema_string) disagree with their fields --
                        dataclasses.replace, in-place edit / re-assignment of .fields, explicit schema_string=, an edited
                        copy of the handle's own schema object -- x the divergent variants x fresh / reused handles; the
                        same build modes are mixed into every random history and transaction and into `accept`
               prebuilt pre-built parquet files with divergent footers / other formats through append_files
               stats    what the caller of append_files CLAIMS about a well-formed pre-built file (DataFile.lower_bounds /
                        upper_bounds: none, true, of other content, too narrow, under other columns' ids, one side only, {}):
                        directed (every claim x column types) and mixed into every random transaction; after the commit every
                        stored value of every column must be found again by a filtered scan
               claims   every OTHER caller-controlled field of a pre-built DataFile a manifest stores (harness/lib/c11_tx.py META: statistics
                        maps keyed "abc" / "x y" / 1.5 / None / True / other ids, str values, {}; checksum of other content / the true
                        one / upper case / not hex / an int; record_count 100 / 0 / -4 / "7"; negative size; partition values; adding
                        snapshot) and the call-level claim _statistics_computed_here=True with bounds of other content: directed and mixed
                        into every random transaction; the call raises and leaves no trace, or scan / filtered scans / row_count() work
                        and agree with the content, and the stored entry (independent reader) holds no unverified claim
               lists    COMPLEX types: {"type": "list<e>"} columns to depth 2 (Schema lets dict definitions through; the writer
                        maps them to pa.list_) x list / tuple values whose elements plain pyarrow silently alters, scalars, nested
                        lists -- cells, spellings (listof, listof2), random histories
               ids      field ids as a caller may write them: "1" next to 1, all strs, floats, True, None, 2**70, negative -- in
                        the TABLE schema (refused, or as good as any id) and, written as "1" / 1.0, in the schema ARGUMENT of an
                        append (also through objects edited after construction); directed (oracle_ids_keys) and in random histories
               keys     record keys that are no strs but whose str() names a column (1 / None / True for "1" / "None" / "True"),
                        and such keys naming nothing: the value under them is refused or returned, never dropped
               handles  HANDLE PROVENANCE (harness/lib/c11_open.py): the appending handle obtained by load_table, create_table(path),
                        create_table(path, schema=S) / Table(path, schema=S) on the EXISTING table -- S every schema-argument
                        variant (incl. narrowed / widened types) under the table's schema_id or another, built in every build
                        mode --, names re-bound mid-history, further handles opened and kept alive; then schema-less / identical
                        appends, transactions and pre-built files (one carrying exactly the layout S describes) through THAT
                        handle; a handle whose first call was a REJECTED divergent append; directed (oracle_handles) and mixed
                        into every random history and transaction; full scans also through the handle that appended
               tx       EXPLICIT transactions that outlive a rejected call (harness/lib/c11_tx.py): begin / several
                        append_data and MULTI-FILE append_files calls, the refused file at every position, the caller
                        catching the exception / commit, failing commit, rollback or abandoned handle; a rejected call
                        must contribute nothing to what the commit of that same transaction publishes
Tie        : correspondence of every hand-written model piece with the code:
               accept   _validate_schema_against_table      vs Model/Schema.v accept_schema
               arrow    create_arrow_schema (fresh manager) vs arrow_of
               records  validate_records_strict             vs validate_record (incl. value_fits)
               conv     pyarrow conversion of admitted values vs canon  (hypothesis conv_sound of C11_exact_partial)
               machine  the e2e + handle histories          vs the append machine with openings (SchemaEval.htrace: outcomes,
                        snapshots, footers, bound ids and values, store listing, scan results, and the Arrow-schema CACHE of
                        every handle involved, read off the real DataFileManager after each step)
               transactions  the tx histories               vs Model/SchemaTx.v run_calls / end_tx with openings (thtrace: call tags,
                        snapshots, library-written files on storage, every current file, scan_ok, handle caches, and per
                        call the in-flight markers of pre-built files it leaves: the GC-protection step of append_files --
                        marker writes / listing of announced runs / existence re-check failing, a run announced)
                        (a recorded disagreement is printed in full and run again by --replay evidence/replay/C11-unproved.json)
Findings   : (findings/C11-unchanged-tree.log, findings/C11-prebuilt-format-unchanged-tree.log, findings/C11-replays/)
               F-C11   unordered, id-less schema signature: reordered -> scans raise; renumbered -> rows mis-filtered   (fixed)
               F-C11b  pyarrow silently alters values validate_records_strict let through (1.5 -> 1, int -> timestamp,
                       bytes <-> str, datetime -> date, 1e40 -> float32 inf, ...)                                     (fixed)
               F-C11c  append_files accepts avro / orc files the read path cannot read -> scans raise                 (fixed)
               F-C11d  _value_fits skipped every non-string type definition: a table (or, with a lenient signature, an
                       argument) whose types are spelled {"type": t} had NO value admission (1.5 -> 1 ...)             (fixed)
               F-C11e  dict-spelled binary columns got the repr of their bytes as string bounds: str literals mis-pruned (fixed)
                       (findings/C11-type-spelling-unchanged-tree.log, findings/C11-spelled-binary-bounds-unchanged-tree.log)
               F-C11f  append_files stored caller-supplied lower / upper bounds as given and pruning trusted them: a pre-built file
                       claiming bounds that do not enclose its content made scan(filter=...) drop rows the table holds        (fixed)
               F-C11g  list<e> columns had no value admission: [1.5, 2.7] -> [1, 2], b"x" -> [120], [1e40] -> [inf] (float)   (fixed)
               F-C11h  Schema accepted field ids that are no ints: 1 and "1" collide as manifest keys (rows mis-filtered), 1.5 /
                       True / None ids make manifests unreadable (every scan raises)                                          (fixed)
               F-C11i  a schema ARGUMENT object edited after construction skipped Schema's checks: an id 1.0 / True equals the
                       table's 1 in the signature, keyed the bounds, and every later scan raised                              (fixed)
               F-C11j  a record key that is no str passed validation through str(k) and its value was stored as NULL         (fixed)
                       (findings/C11-*-unchanged-tree.log of the eighth audit round)
               F-C11k  append_files stored the caller's column_sizes / value_counts / null_value_counts (keys str(k) -> int(k)), checksum and
                       record_count unverified: a key "abc" / 1.5 / None made EVERY later read raise, a checksum of other content made
                       every scan raise CorruptDataError, record_count=100 made row_count() 101                                   (fixed)
               F-C11l  append_files(files, _statistics_computed_here=True) -- a public keyword -- stored caller bounds as given       (fixed)
                       (findings/C11-prebuilt-claims-unchanged-tree.log; second audit)
               open    tables created without a schema enforce nothing (probe_legacy; outside the proved scope)
"""
from __future__ import annotations

import copy
import datetime as dt
import glob
import itertools
import json
import math
import os
import shutil
from typing import Any, Dict, List, Optional, Tuple

from harness.lib import coqbuild
from harness.lib.c11_values import (LIST_TYPES, POOL, TYPES, dec, dec_record, elem_type, enc, enc_record, exact, f32, good_values,
                                    is_seq, pyval_to_coq, same_cell)
from harness.lib.c11_open import PLAIN_VARIANTS, gen_open, observe_cache, open_label, open_real
from harness.lib.values import val_to_coq

LEVEL = "proof"
THEOREMS = ["C11_accept_scans", "C11_history_scans", "C11_accept_bounds", "C11_history_filter", "C11_history_bounds_exact",
            "C11_history_bounds_true", "C11_reject_no_trace", "C11_exact_partial", "C11_fits_representable",
            "C11_arg_object_irrelevant", "C11_tx_rejected_call_no_trace", "C11_tx_fault_fails_closed", "C11_tx_publishes_accepted_only", "C11_tx_unpublished_no_trace", "C11_tx_history_scans", "C11_tx_history_filter", "C11_tx_exact_partial", "C11_tx_accepted_claims_sound", "C11_tx_claims_as_given_refuted",
            "C11_open_derives_only_persisted", "C11_open_no_trace_model_sanity", "C11_handle_provenance_irrelevant", "C11_handles_history_scans",
            "C11_handles_history_filter", "C11_handles_exact_partial", "C11_handles_tx_history_scans"]
REQ = ["DS.Model.Value", "DS.Gen.GenPrune", "DS.Model.Prune", "DS.Gen.GenSchema", "DS.Model.Schema", "DS.Model.SchemaTx",
       "DS.Model.OpenBase", "DS.Gen.GenOpen", "DS.Model.SchemaOpen", "DS.Model.SchemaEval"]

MANIFEST_ENTRY = {
    "level_text": "Coq proofs over Model/Schema.v + regenerated Gen/GenSchema.v, for every table schema with unique names "
                  "and (integer) ids over primitive and list<...> column types, every history of append attempts (any schema arguments, any handles with their Arrow-schema "
                  "caches, any record batches, commit failures) of any length: accepted schema arguments have the table's "
                  "Arrow schema, field ids and validation behaviour (C11_accept_scans, C11_accept_bounds); every data file "
                  "of every snapshot carries the table's Arrow schema so full scans never raise, and pruned filtered scans "
                  "equal unpruned ones (C11_history_scans, C11_history_filter, composing C13); every stored bound is exactly the "
                  "minimum / maximum of its column, under the table's field id, and encloses every ordinary value "
                  "(C11_history_bounds_exact, C11_history_bounds_true); in explicit transactions a call that raises adds "
                  "nothing to the queue, a successful commit publishes exactly the files the trace of its calls (run_calls) "
                  "lists for the accepted ones, any other end publishes nothing, full scans keep working, pruned filtered scans "
                  "equal unpruned ones whatever bounds callers supply with pre-built files (C11_tx_history_filter: stored bounds "
                  "are none or recomputed from the file; the flag _statistics_computed_here is honoured for a module-private token only, "
                  "pinned by the translator), an ACCEPTED append_files call stores for every file statistics keys that read back as ints "
                  "(recomputed under the table's field ids), a checksum that is the file's own or none (a file whose supplied checksum is "
                  "not its own is refused) and the file's row count, whatever the caller's DataFile claims (C11_tx_accepted_claims_sound; "
                  "storing the claims as given, as the unchanged library did, is refuted: C11_tx_claims_as_given_refuted), the full scan returns exactly the canonical rows of accepted records "
                  "calls and the rows of accepted files calls (C11_tx_exact_partial, under conv_sound), and calls made while "
                  "storage operations fail (metadata unreadable, marker writes failing) fail closed -- never 'no schema to "
                  "enforce' --, as does the GC-protection step of a pre-built-file call (marker writes, the listing of announced "
                  "collection runs or the existence re-check failing, a run announced: the call raises, queues nothing, leaves no "
                  "marker it wrote): derived from flags regenerated from the source (which failing operation is outside every try, "
                  "or only inside try blocks whose handlers re-raise) "
                  "(C11_tx_*); an append depends on the schema argument "
                  "object only through its schema_id and fields, never through derived attributes such as a stale "
                  "schema_string (C11_arg_object_irrelevant); handle provenance is irrelevant: over the REGENERATED actions of "
                  "create_table / load_table / Table.__init__ (Gen/GenOpen.v) no opening derives an Arrow layout from its "
                  "unvalidated schema argument (C11_open_derives_only_persisted), and in any history interleaving openings (any opener, any schema argument, handles "
                  "re-bound or alive side by side) with appends every outcome, the table state and all scans equal those of "
                  "the history without the openings (C11_handle_provenance_irrelevant; C11_handles_history_scans / _filter / "
                  "_exact_partial / _tx_history_scans spell out the consequences); a rejected append leaves "
                  "schema, snapshot list, reachable files and stored data files unchanged (C11_reject_no_trace); accepted "
                  "rows are stored as canon(type, value) with every value representable (C11_exact_partial, under "
                  "conv_sound). Model pieces tied to the code by differential execution; implementation-only end-to-end "
                  "oracle with an independent reader searches for failing inputs.",
    "level_note": "C11_tx_history_filter and C11_tx_exact_partial assume NoDup (adopted_ids txs): no pre-built file is handed to append_files "
                  "twice in the history (the code lists a path once, the model would scan its rows twice: excluded in the statements). "
                  "C11_tx_accepted_claims_sound is a statement about what is STORED per adopted file (statistics keys, checksum, record count); "
                  "the model's full_scan covers the layout cause of a failing scan only, so that an undecodable entry / a failing checksum "
                  "makes reads raise is the code's behaviour (found and replayed by the tx oracle), not derived in the model. "
                  "C11_open_no_trace_model_sanity is model sanity (true by construction of open_with), not a fact about the code. "
                  "C11_exact_partial, C11_tx_exact_partial, C11_handles_exact_partial are partial: hypothesis conv_sound "
                  "(pyarrow stores an ADMITTED value -- lists element by element -- as canon_c or raises) is validated against real "
                  "pyarrow on every run, not proved. The filter / bounds_true theorems assume conv_kinds (a converted cell has the "
                  "kind of its Arrow type), C11_tx_history_filter also pf_typed (a parquet column holds values of its footer "
                  "type): facts about pyarrow / parquet stated as hypotheses, conv_kinds validated on every run. "
                  "C11_history_filter / C11_exact_partial speak of single-append events (run), C11_tx_history_filter / "
                  "C11_tx_exact_partial of explicit transactions (run_txs). C11_fits_representable relates the admission test "
                  "to its Prop transcription (ints into float columns are left to pyarrow: part of conv_sound); "
                  "C11_arg_object_irrelevant holds because the model never consults derived attributes (tied by the machine "
                  "correspondence over all build modes). Scope: tables with a persisted schema (legacy tables without one "
                  "enforce nothing: open finding), primitive and list<...> column types (map / struct definitions resolve to "
                  "string columns), str field names, append_records / append_data / append_files; pre-built files with list "
                  "columns are not generated; handles on a table that EXISTS (creation of an absent table is C18's). "
                  "Trusted: Coq kernel, translator/gen_schema.py, translator/gen_open.py, harness.",
    "technique": "Coq proof (induction over histories of openings and appends, invariant, erasure of openings) over "
                 "translator-regenerated tables and opening skeletons + differential correspondence (incl. per-handle "
                 "caches) + end-to-end oracle with independent reader",
    "design_ref": "DESIGN.md section 5 C11",
}

OPS = ["==", "<", ">=", "!="]


# ---------------------------------------------------------------------------------- independent reader
def observe(path: str) -> Dict[str, Any]:
    """Everything the property talks about, read WITHOUT datashard: pointer bytes, current metadata,
    snapshot list, reachable files, per-file footer schema / rows / bound keys, data/ listing."""
    import fastavro
    import pyarrow.parquet as pq
    hint_path = os.path.join(path, "metadata.version-hint.text")
    hint = open(hint_path, "rb").read() if os.path.exists(hint_path) else None
    name = hint.decode().strip() if hint else None
    meta_file = None
    if name:
        cand = name if name.startswith("metadata/") else "metadata/" + os.path.basename(name)
        if os.path.exists(os.path.join(path, cand)):
            meta_file = cand
    if meta_file is None:
        files = sorted(glob.glob(os.path.join(path, "metadata", "v*.metadata.json")),
                       key=lambda p: int(os.path.basename(p)[1:].split("-")[0].split(".")[0]))
        meta_file = os.path.relpath(files[-1], path) if files else None
    out: Dict[str, Any] = {"hint": hint, "meta_file": meta_file, "snapshots": [], "reachable": set(), "files": [], "current": None}
    if meta_file is None:
        return out
    raw = open(os.path.join(path, meta_file), "rb").read()
    md = json.loads(raw)
    out["meta_raw"] = raw
    out["current"] = md.get("current_snapshot_id")
    out["schemas"] = md.get("schemas")
    out["reachable"].add(meta_file)
    for snap in md.get("snapshots", []):
        ml = snap["manifest_list"].lstrip("/")
        out["reachable"].add(ml)
        files = []
        with open(os.path.join(path, ml), "rb") as f:
            entries = list(fastavro.reader(f))
        for e in entries:
            mp = e["manifest_path"].lstrip("/")
            out["reachable"].add(mp)
            with open(os.path.join(path, mp), "rb") as g:
                for rec in fastavro.reader(g):
                    d = rec["data_file"]
                    fp = d["file_path"].lstrip("/")
                    out["reachable"].add(fp)
                    files.append((fp, d.get("lower_bounds"), d.get("upper_bounds"),
                                  {"count": d.get("record_count"), "checksum": d.get("checksum"),
                                   "stat_keys": [k for m in ("column_sizes", "value_counts", "null_value_counts") for k in (d.get(m) or {})]}))
        out["snapshots"].append((snap["snapshot_id"], [f[0] for f in files]))
        if snap["snapshot_id"] == out["current"]:
            cur = []
            for fp, lo, hi, meta in files:
                try:
                    import hashlib
                    meta["sha256"] = hashlib.sha256(open(os.path.join(path, fp), "rb").read()).hexdigest()
                except OSError:
                    meta["sha256"] = None
                try:
                    t = pq.read_table(os.path.join(path, fp))
                except Exception as e:               # noqa: BLE001 - e.g. a reachable file that is no parquet file
                    cur.append({"path": fp, "schema": [], "rows": [{"unreadable": type(e).__name__}], "lo": lo, "hi": hi, "meta": meta})
                    continue
                cur.append({"path": fp, "schema": [(fl.name, str(fl.type), fl.nullable) for fl in t.schema],
                            "rows": t.to_pylist(), "lo": lo, "hi": hi, "meta": meta})
            out["files"] = cur
    ddir = os.path.join(path, "data")
    out["store"] = sorted(os.listdir(ddir)) if os.path.isdir(ddir) else []
    return out


def same_table_state(a: Dict[str, Any], b: Dict[str, Any]) -> Optional[str]:
    """None when nothing the property names has changed between two observations."""
    if a["hint"] != b["hint"]:
        return "version pointer changed"
    if a["meta_file"] != b["meta_file"] or a.get("meta_raw") != b.get("meta_raw"):
        return "current metadata changed"
    if a["snapshots"] != b["snapshots"]:
        return "snapshot list changed"
    if a["reachable"] != b["reachable"]:
        return f"reachable files changed: +{sorted(b['reachable'] - a['reachable'])} -{sorted(a['reachable'] - b['reachable'])}"
    ra = [f["rows"] for f in a["files"]]
    rb = [f["rows"] for f in b["files"]]
    if repr(ra) != repr(rb):
        return "table content changed"
    return None


# ---------------------------------------------------------------------------------- type spellings
# Schema.__post_init__ validates only STRING type definitions; a dict / list definition passes unchecked.
# "listof" / "listof2": the COMPLEX type list<element> (Schema lets a dict definition through unvalidated;
# _iceberg_type_to_arrow maps {"type": "list<t>"} to pa.list_(...), to any depth).
SHAPES = ["dict", "dict_doc", "nested", "upper", "list", "empty", "listof", "listof2"]


def spell(t: str, shape: str) -> Any:
    """Another spelling of a field's type definition around the primitive type name t."""
    return {"dict": {"type": t}, "dict_doc": {"type": t, "doc": "spelled"}, "nested": {"type": {"type": t}},
            "upper": {"type": t.upper()}, "list": [t], "empty": {}, "listof": {"type": f"list<{t}>"},
            "listof2": {"type": f"list<list<{t}>>", "doc": "nested list"}}[shape]


def _innermost(x: str) -> str:
    while elem_type(x) is not None:
        x = elem_type(x)
    return x


def base_of(tdef: Any) -> str:
    """The primitive type name a (possibly spelled) definition was built around."""
    if isinstance(tdef, str):
        return tdef
    if isinstance(tdef, list):
        return tdef[0] if tdef else "string"
    x = tdef.get("type", "string")
    if isinstance(x, dict):
        x = x.get("type", "string")
    return _innermost(x).lower()


def declared_type(tdef: Any) -> str:
    """The oracle's reading of a definition: the type it plainly names -- a primitive type ("int", {"type": "int", ...})
    or a list of such to any depth ({"type": "list<int>"}) --, else "opaque": a definition that names no such type,
    under which nothing may be altered."""
    if isinstance(tdef, str):
        return tdef
    if isinstance(tdef, dict) and isinstance(tdef.get("type"), str) and _innermost(tdef["type"]) in TYPES:
        return tdef["type"]
    return "opaque"


def resolved_type(tdef: Any) -> str:
    """MODEL side (follows the code): what _iceberg_type_to_arrow / _value_fits resolve a definition to, as a
    canonical text: a primitive type name, or list<...> of a resolved type; everything unrecognised is a string."""
    if isinstance(tdef, dict):
        tdef = tdef.get("type", "string")
    if isinstance(tdef, str):
        if tdef.startswith("list<"):
            return "list<" + resolved_type(tdef[5:-1]) + ">"
        if tdef in TYPES:
            return tdef
    return "string"


def ctype_coq(rt: str) -> str:
    """Model/Schema.v ctype for a resolved type text."""
    et = elem_type(rt)
    return f"(CList {ctype_coq(et)})" if et is not None else f"(CPrim T_{rt})"


_SPELLINGS: Dict[str, int] = {}


def spell_code(tdef: Any) -> int:
    """0 for a plain string; otherwise injective in the JSON text of the definition (the signature's type_key)."""
    if isinstance(tdef, str):
        return 0
    return _SPELLINGS.setdefault(json.dumps(tdef, sort_keys=True), len(_SPELLINGS) + 1)


# ---------------------------------------------------------------------------------- schema argument OBJECTS
# A Schema is an ordinary dataclass: besides its fields it carries attributes DERIVED from them once, at
# construction (schema_string), and nothing re-derives or re-validates them when the object is copied or edited.
# Callers do derive their schema= argument from an existing object; every way of doing so is a build mode.
BUILD_MODES = ["fresh",               # Schema(schema_id, fields): derived attributes describe the fields
               "replace",             # dataclasses.replace(table's schema object, fields=...)
               "mutate_fields",       # copy of the table's schema object, .fields edited IN PLACE (no __post_init__)
               "assign_fields",       # copy of the table's schema object, .fields re-assigned
               "explicit_string",     # Schema(schema_id, fields, schema_string=<the table's string>)
               "copy_table_object"]   # deepcopy of the object the handle itself returns for the current schema, edited
KEEPS_SID = ("replace", "assign_fields")          # these keep the table's schema_id (1)


def build_schema(mode: str, sid: int, arg_fields: List[Dict[str, Any]], table_fields: List[Dict[str, Any]], handle: Any = None):
    """The schema= argument object for `arg_fields`, obtained the way `mode` says.  Whatever the way, the object's
    FIELDS are arg_fields: the property speaks about the schema argument, i.e. what the object declares."""
    import dataclasses
    from datashard.data_structures import Schema
    fields = copy.deepcopy(arg_fields)
    if mode == "fresh":
        return Schema(schema_id=sid, fields=fields)
    if mode == "explicit_string":
        return Schema(schema_id=sid, fields=fields, schema_string=json.dumps(table_fields))
    base = Schema(schema_id=1, fields=copy.deepcopy(table_fields))
    if mode == "copy_table_object" and handle is not None:
        try:
            own = handle._get_current_schema()
            if own is not None and own.fields:
                base = copy.deepcopy(own)
        except Exception:                            # noqa: BLE001 - fall back to an equal object built here
            pass
    if mode == "replace":
        return dataclasses.replace(base, fields=fields)
    if mode == "assign_fields":
        base.fields = fields
        return base
    base.fields[:] = fields                          # mutate_fields / copy_table_object
    base.schema_id = sid
    return base


# ---------------------------------------------------------------------------------- cases
# Field ids as a caller may write them.  Schema must accept only what the rest of the library can key
# statistics by -- an id object that is no int either makes Schema() raise (then there is no table and no
# append to speak about) or must behave, in every later scan, like any other id.
ID_MODES = ["str_twin",      # one id is the str of another column's id: 1 and "1"
            "all_str",       # "1", "2", ...
            "float",         # 1.5, 2.5, ...
            "bool",          # True, 2, 3
            "none",          # None, 2, 3
            "big",           # 2**70 + i (ints: must simply work)
            "negative"]      # -1, 0, 1 (ints: must simply work)


def exotic_ids(rng, fields: List[Dict[str, Any]], mode: str) -> None:
    n = len(fields)
    if mode == "str_twin":
        if n < 2:
            fields[0]["id"] = str(fields[0]["id"])
            return
        i, j = rng.sample(range(n), 2)
        fields[i]["id"] = str(fields[j]["id"])
    elif mode == "all_str":
        for f in fields:
            f["id"] = str(f["id"])
    elif mode == "float":
        for f in fields:
            f["id"] = f["id"] + 0.5
    elif mode == "bool":
        fields[0]["id"] = True
        for k, f in enumerate(fields[1:]):
            f["id"] = k + 2
    elif mode == "none":
        fields[rng.randrange(n)]["id"] = None
    elif mode == "big":
        for f in fields:
            f["id"] = 2**70 + f["id"]
    elif mode == "negative":
        for k, f in enumerate(fields):
            f["id"] = k - 1
    else:
        raise ValueError(mode)


def int_ids(fields: Optional[List[Dict[str, Any]]]) -> bool:
    return all(type(f.get("id")) is int for f in fields or [])


# column names that are the str() of a non-str object a careless caller may use as a record key
KEY_TWINS = {"1": 1, "None": None, "True": True}


def mk_fields(rng, ncols: int, p_spelled: float = 0.0, p_ids: float = 0.0, p_names: float = 0.0) -> List[Dict[str, Any]]:
    names = ["a", "b", "c"][:ncols]
    if rng.random() < p_names:
        names[-1] = rng.choice(sorted(KEY_TWINS))
    fields = []
    spelled = rng.random() < p_spelled
    for i, n in enumerate(names):
        t: Any = rng.choice(TYPES)
        if spelled and rng.random() < 0.7:
            t = spell(t, rng.choice(["dict", "dict", "dict", "dict_doc", "listof", "listof"] + SHAPES))
        fields.append({"id": i + 1, "name": n, "type": t, "required": rng.random() < 0.25})
    if rng.random() < p_ids:
        exotic_ids(rng, fields, rng.choice(ID_MODES))
    return fields


VARIANTS = ["omitted", "identical", "identical_new_sid", "required_key_dropped", "reordered", "reordered_new_sid", "renumbered",
            "ids_shifted", "retyped", "narrowed", "nullability", "extra", "missing", "renamed",
            # the same types, spelled differently (all fields / one field / back to the plain string)
            "spelled_dict", "spelled_dict_doc", "spelled_nested", "spelled_upper", "spelled_list", "spelled_empty", "spelled_one", "spelled_plain",
            "spelled_listof",
            # the same ids, written as other objects ("1" for 1; 1.0 for 1)
            "ids_as_str", "ids_as_float"]


NEAR_TYPE = {"double": "float", "float": "double", "long": "int", "int": "long", "string": "uuid", "uuid": "string",
             "binary": "fixed", "fixed": "binary"}


def make_variant(rng, fields: List[Dict[str, Any]], name: str) -> Optional[Tuple[Optional[List[Dict[str, Any]]], int]]:
    """(argument fields or None for omitted, schema_id); None when the variant does not apply."""
    fs = copy.deepcopy(fields)
    if name == "omitted":
        return None, 1
    if name == "identical":
        return fs, 1
    if name == "identical_new_sid":
        return fs, 7
    if name == "required_key_dropped":
        for f in fs:
            if "required" in f and not f["required"]:
                del f["required"]
        return fs, 1
    if name in ("reordered", "reordered_new_sid"):
        if len(fs) < 2:
            return None
        k = rng.randrange(1, len(fs))
        fs = fs[k:] + fs[:k]
        return fs, (1 if name == "reordered" else 7)
    if name in ("ids_as_str", "ids_as_float"):
        changed = False
        for f in fs:
            if type(f["id"]) is int:
                f["id"] = str(f["id"]) if name == "ids_as_str" else float(f["id"])
                changed = True
        return (fs, rng.choice([1, 7])) if changed else None
    if name in ("renumbered", "ids_shifted") and not int_ids(fs):
        return None
    if name == "renumbered":
        if len(fs) < 2:
            return None
        ids = [f["id"] for f in fs]
        k = rng.randrange(1, len(fs))
        ids = ids[k:] + ids[:k]
        for f, i in zip(fs, ids):
            f["id"] = i
        return fs, rng.choice([1, 7])
    if name == "ids_shifted":
        for f in fs:
            f["id"] += 10
        return fs, rng.choice([1, 7])
    if name == "retyped":
        f = rng.choice(fs)
        f["type"] = rng.choice([t for t in TYPES if t != base_of(f["type"])])
        return fs, rng.choice([1, 7])
    if name == "narrowed":
        # a type of the same family with another representation: most values still convert (double 0.1 -> float32,
        # long -> int32 ...), so nothing downstream raises if such a layout is ever written
        cands = [f for f in fs if isinstance(f["type"], str) and f["type"] in NEAR_TYPE]
        if not cands:
            return None
        f = rng.choice(cands)
        f["type"] = NEAR_TYPE[f["type"]]
        return fs, rng.choice([1, 7])
    if name.startswith("spelled_"):
        shape = name[len("spelled_"):]
        if shape == "plain":
            if all(isinstance(f["type"], str) for f in fs):
                return None
            for f in fs:
                f["type"] = base_of(f["type"])
        elif shape == "one":
            f = rng.choice(fs)
            f["type"] = spell(base_of(f["type"]), rng.choice(["dict", "dict_doc"]))
        else:
            for f in fs:
                f["type"] = spell(base_of(f["type"]), shape)
        if fs == fields:
            return None
        return fs, rng.choice([1, 7])
    if name == "nullability":
        f = rng.choice(fs)
        f["required"] = not f.get("required", False)
        return fs, rng.choice([1, 7])
    if name == "extra":
        fs.append({"id": 9, "name": "z", "type": rng.choice(TYPES), "required": False})
        return fs, rng.choice([1, 7])
    if name == "missing":
        if len(fs) < 2:
            return None
        del fs[rng.randrange(len(fs))]
        return fs, rng.choice([1, 7])
    if name == "renamed":
        rng.choice(fs)["name"] = "q"
        return fs, rng.choice([1, 7])
    raise ValueError(name)


def gen_records(rng, fields: List[Dict[str, Any]], p_bad: float) -> List[Dict[str, Any]]:
    n = rng.choice([0, 1, 1, 2, 3, 3, 9])
    recs = []
    for _ in range(n):
        r: Dict[str, Any] = {}
        for f in fields:
            u = rng.random()
            if u < p_bad:
                r[f["name"]] = rng.choice(POOL)
            elif u < p_bad + 0.1 and not f.get("required", False):
                if rng.random() < 0.5:
                    r[f["name"]] = None
            else:
                gv = good_values(declared_type(f["type"]))
                r[f["name"]] = rng.choice(gv)
        if rng.random() < 0.04:
            r["zz"] = 1                                   # unknown field
        for f in fields:
            # a value filed under an object whose str() is the column's name (1 for the column "1")
            if f["name"] in KEY_TWINS and f["name"] in r and r[f["name"]] is not None and rng.random() < 0.5:
                r[KEY_TWINS[f["name"]]] = r.pop(f["name"])
        if rng.random() < 0.03:
            r[rng.choice([1, None, 2.5, ("a",)])] = 1     # a key that is no str and names no field
        recs.append(r)
    return recs


def gen_case(rng, nsteps: int, p_bad: float = 0.12, p_open: float = 0.35) -> Dict[str, Any]:
    fields = mk_fields(rng, rng.choice([1, 2, 2, 3]), p_spelled=0.25, p_ids=0.08, p_names=0.08)
    steps = []
    for _ in range(nsteps):
        while True:
            vname = rng.choice(VARIANTS + ["omitted", "identical", "identical"])
            v = make_variant(rng, fields, vname)
            if v is not None:
                break
        arg, sid = v
        build = "fresh" if arg is None or rng.random() < 0.5 else rng.choice(BUILD_MODES[1:])
        if build in KEEPS_SID:
            sid = 1
        steps.append({"handle": rng.choice(["A", "A", "B", "fresh"]), "variant": vname, "arg": arg, "sid": sid, "build": build,
                      "records": gen_records(rng, arg if arg is not None else fields, p_bad),
                      "commit_fails": rng.random() < 0.06})
        # handle provenance: the step's handle is (re-)obtained right before the append in one of the ways a handle
        # is obtained; now and then another handle is opened next to it and kept alive
        if rng.random() < p_open:
            steps[-1]["open"] = gen_open(rng, fields)
        if rng.random() < p_open / 3:
            steps[-1]["also_open"] = gen_open(rng, fields)
    return {"fields": fields, "steps": steps, "seed": rng.getrandbits(30)}


def _opens_of(s: Dict[str, Any]) -> Dict[str, Any]:
    return {k: s[k] for k in ("open", "also_open") if s.get(k)}


def case_json(case: Dict[str, Any]) -> Dict[str, Any]:
    return {"fields": case["fields"], "seed": case.get("seed", 0),
            "steps": [{"handle": s["handle"], "variant": s["variant"], "arg": s["arg"], "sid": s["sid"], "build": s.get("build", "fresh"),
                       "commit_fails": bool(s.get("commit_fails")), **_opens_of(s),
                       "records": [enc_record(r) for r in s["records"]]} for s in case["steps"]]}


def case_unjson(j: Dict[str, Any]) -> Dict[str, Any]:
    return {"fields": j["fields"], "seed": j.get("seed", 0),
            "steps": [{"handle": s["handle"], "variant": s["variant"], "arg": s["arg"], "sid": s["sid"], "build": s.get("build", "fresh"),
                       "commit_fails": bool(s.get("commit_fails")), **_opens_of(s),
                       "records": [dec_record(r) for r in s["records"]]} for s in j["steps"]]}


# ---------------------------------------------------------------------------------- running a case on the real library
def _eval_filter(rows: List[Dict[str, Any]], col: str, op: str, lit: Any) -> List[Dict[str, Any]]:
    out = []
    for r in rows:
        v = r.get(col)
        if v is None:
            continue
        if op == "==":
            ok = v == lit
        elif op == "!=":
            ok = v != lit
        elif op == "<":
            ok = v < lit
        elif op == "<=":
            ok = v <= lit
        elif op == ">":
            ok = v > lit
        elif op == "in":
            # membership is pyarrow's is_in, which tells -0.0 from 0.0 (== does not); what `in` should mean is
            # C12's subject -- here the question is only whether the file holding the row was wrongly skipped
            ok = any(v == x and (not isinstance(v, float) or not isinstance(x, float) or math.copysign(1, v) == math.copysign(1, x)) for x in lit)
        else:
            ok = v >= lit
        if ok:
            out.append(r)
    return out


def _rowkey(r: Dict[str, Any]) -> str:
    return repr(sorted((k, type(v).__name__, repr(v)) for k, v in r.items()))


def _same_rows(a: List[Dict[str, Any]], b: List[Dict[str, Any]]) -> bool:
    return sorted(map(_rowkey, a)) == sorted(map(_rowkey, b))


def run_case(case: Dict[str, Any], root: str, filters_per_col: int = 2) -> Dict[str, Any]:
    """Execute the history on the real library.  Returns {"violations": [(key, what)], "trace": [...]}.

    Judgement (independent of any model):
      rejected -> observe() before == observe() after
      accepted -> full scan does not raise and returns, as a multiset, every row accepted so far, each cell
                  `exact` for the type declared in the schema it was appended under; filtered scans on every
                  column return exactly the rows a direct evaluation over those returned rows selects."""
    from datashard import create_table, load_table
    from datashard.data_structures import Schema
    import random
    rng = random.Random(case.get("seed", 0))
    shutil.rmtree(root, ignore_errors=True)
    try:
        table_schema = Schema(schema_id=1, fields=copy.deepcopy(case["fields"]))
    except ValueError as e:
        # the schema itself is refused (e.g. field ids that are no integers): no table, nothing to append to
        return {"violations": [], "trace": [], "refused": str(e)[:160]}
    table = create_table(root, table_schema)
    handles: Dict[str, Any] = {"A": table}
    violations: List[Tuple[str, str]] = []
    trace: List[Dict[str, Any]] = []
    supplied: List[Tuple[Dict[str, str], Dict[str, Any]]] = []   # (types by column, record) of accepted rows
    types_now = {f["name"]: declared_type(f["type"]) for f in case["fields"]}
    alive: List[Any] = []                                        # handles opened next to the appending one, kept alive
    for si, step in enumerate(case["steps"]):
        h = step["handle"]
        ev: Dict[str, Any] = {"step": si, "variant": step["variant"], "handle": h, "build": step.get("build", "fresh")}
        extra = None
        if step.get("also_open"):
            extra, why = open_real(step["also_open"], root, case["fields"], handles.get("A"))
            alive.append(extra)
            ev["also_open"] = open_label(step["also_open"]) + (f" raised {why}" if why else "")
            ev["also_open_failed"] = bool(why)
        if step.get("open"):
            handle, why = open_real(step["open"], root, case["fields"], handles.get(h) if h != "fresh" else None)
            ev["open"] = open_label(step["open"]) + (f" raised {why}" if why else "")
            ev["open_failed"] = bool(why)
            if h != "fresh":
                handles[h] = handle                                  # the name is re-bound
        elif h == "fresh":
            handle = load_table(root)
        else:
            if h not in handles:
                handles[h] = load_table(root)
            handle = handles[h]
        before = observe(root)
        arg_fields = step["arg"]
        if step.get("commit_fails"):
            def failing_commit(*a, **k):
                raise RuntimeError("injected commit failure (before the commit point)")
            handle.metadata_manager.commit = failing_commit
        try:
            schema = build_schema(step.get("build", "fresh"), step["sid"], arg_fields, case["fields"], handle) if arg_fields is not None else None
            handle.append_records(copy.deepcopy(step["records"]), schema=schema)
            ev["outcome"] = "accepted"
        except Exception as e:                       # noqa: BLE001 - any exception is "the append raised"
            ev["outcome"] = "rejected"
            ev["error"] = type(e).__name__
            ev["message"] = str(e)[:160]
        finally:
            if step.get("commit_fails"):
                del handle.metadata_manager.commit
        after = observe(root)
        ev["files"] = [{"schema": f["schema"], "lo": f["lo"], "hi": f["hi"], "nrows": len(f["rows"]), "rows": f["rows"]} for f in after["files"]]
        ev["nsnaps"] = len(after["snapshots"])
        ev["store"] = len(after["store"])
        ev["cache"] = observe_cache(handle)
        ev["cache_extra"] = observe_cache(extra) if extra is not None else None
        if ev["outcome"] == "rejected":
            diff = same_table_state(before, after)
            if diff:
                violations.append((f"reject-trace:{step['variant']}", f"step {si}: append raised {ev['error']} but {diff}"))
            leaked = [f for f in after["store"] if f not in before["store"] and f.endswith(".parquet") and f.startswith("auto_")]
            ev["leaked"] = len(leaked)
        else:
            eff = arg_fields if arg_fields is not None else case["fields"]
            types = {f["name"]: declared_type(f["type"]) for f in eff}
            for r in step["records"]:
                supplied.append((types, r))
        # scans must keep working after every step (a rejected append must not break them either)
        fresh = load_table(root)
        scan_err = None
        try:
            got = fresh.scan()
        except Exception as e:                       # noqa: BLE001
            scan_err = f"{type(e).__name__}: {str(e)[:200]}"
            got = None
        ev["scan"] = "raises" if got is None else len(got)
        if got is None:
            violations.append((f"scan-raises:{_last_accepted_variant(trace, ev)}", f"step {si}: full scan raises after accepted appends: {scan_err}"))
        else:
            # "later scans" are scans through ANY handle: the one that just appended (whatever its provenance and
            # whatever it has cached) must see what a newly loaded one sees
            try:
                got_h = handle.scan()
                if not _same_rows(got_h, got):
                    violations.append((f"scan-differs-through-handle:{_last_accepted_variant(trace, ev)}",
                                       f"step {si}: the full scan through the handle that appended ({ev.get('open', 'default')}) returns {got_h!r:.200}, "
                                       f"a newly loaded handle returns {got!r:.200}"))
            except Exception as e:                   # noqa: BLE001
                violations.append((f"scan-raises-through-handle:{_last_accepted_variant(trace, ev)}",
                                   f"step {si}: the full scan through the handle that appended ({ev.get('open', 'default')}) raises {type(e).__name__}: {str(e)[:160]}"))
            bad = _judge_rows(supplied, got)
            if bad:
                violations.append((f"rows-differ:{bad[0]}", f"step {si}: {bad[1]}"))
            else:
                # filtered scans on every column, literals taken from the returned rows
                cols = sorted({k for r in got for k in r})
                for col in cols:
                    present = [r[col] for r in got if r.get(col) is not None and not (isinstance(r[col], float) and r[col] != r[col])]
                    if not present or is_seq(present[0]):
                        continue                     # what a filter on a list column means is C12's subject
                    probes = [(rng.choice(OPS), rng.choice(present)) for _ in range(filters_per_col)]
                    # directed probes at the EXTREMES of the file this step wrote: the stored bounds of a file
                    # are only ever consulted against literals near its minimum and maximum, so those are asked
                    # for explicitly, with every operator that prunes on that side
                    if ev["outcome"] == "accepted" and after["files"]:
                        mine = [r.get(col) for r in after["files"][-1]["rows"]]
                        mine = [v for v in mine if v is not None and not (isinstance(v, float) and v != v)]
                        try:
                            mx, mn = (max(mine), min(mine)) if mine else (None, None)
                        except TypeError:
                            mx = mn = None
                        if mx is not None:
                            probes += [("==", mx), (">=", mx), ("in", [mx]), ("==", mn), ("<=", mn)]
                            if mx != mn:
                                probes += [(">", mn), ("<", mx)]
                    coltype = types_now.get(col, "?")
                    for pi, (op, lit) in enumerate(probes):
                        try:
                            want = _eval_filter(got, col, op, lit)
                        except TypeError:
                            continue
                        try:
                            res = fresh.scan(filter={col: (op, lit)})
                            api = "scan"
                            if pi == filters_per_col:            # the first directed probe also through the streaming API
                                res2 = list(fresh.iter_records(filter={col: (op, lit)}))
                                if _same_rows(res, want) and not _same_rows(res2, want):
                                    res, api = res2, "iter_records"
                        except Exception as e:       # noqa: BLE001
                            violations.append((f"filter-raises:{_last_accepted_variant(trace, ev)}", f"step {si}: scan(filter={col} {op} {lit!r:.80}) raises {type(e).__name__}: {str(e)[:160]}"))
                            continue
                        ev.setdefault("filters", 0)
                        ev["filters"] += 1
                        if not _same_rows(res, want):
                            violations.append((f"mis-filter:{coltype}:{_last_accepted_variant(trace, ev)}",
                                               f"step {si}: {api}(filter={col} {op} {lit!r:.120}) returns {len(res)} rows {res!r:.200}, the full scan holds {len(want)} matching rows {want!r:.200}"))
                            break
                    if isinstance(present[0], bytes):
                        # the same question asked with a str literal (pyarrow compares it bytewise with the binary
                        # column): every present row is >= the smallest one
                        try:
                            s_lit = min(present).decode("utf-8")
                        except UnicodeDecodeError:
                            s_lit = None
                        if s_lit is not None:
                            try:
                                res = fresh.scan(filter={col: (">=", s_lit)})
                            except Exception:        # noqa: BLE001 - cross-kind literals are C12's concern
                                res = None
                            if res is not None:
                                ev["filters"] = ev.get("filters", 0) + 1
                                want = [r for r in got if r.get(col) is not None]
                                if not _same_rows(res, want):
                                    violations.append((f"mis-filter-str-literal:{_last_accepted_variant(trace, ev)}",
                                                       f"step {si}: scan(filter={col} >= {s_lit!r}) returns {len(res)} rows {res!r:.200}, the full scan holds {len(want)} matching rows {want!r:.200}"))
        trace.append(ev)
        if violations:
            break
    return {"violations": violations, "trace": trace}


BENIGN = ("omitted", "identical", "identical_new_sid", "required_key_dropped")


def _last_accepted_variant(trace: List[Dict[str, Any]], ev: Dict[str, Any]) -> str:
    """Label for a violation: the most recent accepted append whose schema argument was not
    equivalent to the table schema (falls back to the most recent accepted one)."""
    acc = [e for e in [ev] + trace[::-1] if e.get("outcome") == "accepted"]
    for e in acc:
        if e["variant"] not in BENIGN:
            return e["variant"]
    return "same-schema" if acc else "none"


def _judge_rows(supplied: List[Tuple[Dict[str, str], Dict[str, Any]]], got: List[Dict[str, Any]]) -> Optional[Tuple[str, str]]:
    """Match returned rows against supplied rows as multisets under `exact`."""
    if len(got) != len(supplied):
        return ("count", f"{len(supplied)} rows were accepted, the scan returns {len(got)}")
    remaining = list(got)
    for types, rec in supplied:
        lost = [k for k in rec if k not in types and rec[k] is not None]
        if lost:
            # a supplied cell whose key is no column of the table: there is no place a scan could return it from
            return (f"dropped-key:{type(lost[0]).__name__}", f"accepted row {rec!r:.160} holds a value under the key {lost[0]!r} "
                                                             f"({type(lost[0]).__name__}), which is no column ({sorted(types)}): the value is not returned by any scan")
        hit = None
        for i, r in enumerate(remaining):
            if set(r.keys()) != set(types.keys()):
                continue
            if all(exact(types[c], rec.get(c), r[c]) for c in types):
                hit = i
                break
        if hit is None:
            # name the offending cell when the row can be located positionally
            detail = ""
            for c, ty in types.items():
                cands = [r.get(c) for r in remaining]
                if not any(exact(ty, rec.get(c), x) for x in cands if True):
                    detail = f"; column {c!r} ({ty}) supplied {rec.get(c)!r} ({type(rec.get(c)).__name__}), stored values {cands!r:.120}"
                    return (f"{ty}:{type(rec.get(c)).__name__}", f"accepted row {rec!r:.160} is not returned exactly{detail}")
            return ("row", f"accepted row {rec!r:.160} is not returned exactly")
        remaining.pop(hit)
    return None


def run_tx_case(case: Dict[str, Any], root: str, filters_per_col: int = 1) -> Dict[str, Any]:
    """Explicit-transaction histories (harness/lib/c11_tx.py); here so that the worker process can be asked for it."""
    from harness.lib.c11_tx import run_tx_case as impl
    return impl(case, root, filters_per_col)


# ---------------------------------------------------------------------------------- bounded execution
_WORKER = None
CASE_TIMEOUT = float(os.environ.get("C11_CASE_TIMEOUT", "20"))
HANG_BUDGET = 6
_BOUNDED = {"bad": 0, "skipped": 0}


def bounded_case(case: Dict[str, Any], root: str, filters_per_col: int = 2, timeout: Optional[float] = None, worker: Any = None) -> Dict[str, Any]:
    """run_case in the worker process (address-space limit, deadline).  A library that loops, blocks,
    exhausts memory or kills the process yields a VIOLATION for this case instead of a stuck check."""
    global _WORKER
    from harness.lib.c11_worker import Worker
    fn = "run_tx_case" if case.get("kind") == "tx" else "run_case"
    if os.environ.get("C11_INPROCESS"):
        return globals()[fn](case, root, filters_per_col)
    if worker is None:
        if _WORKER is None:
            _WORKER = Worker()
        worker = _WORKER
    # circuit breaker: the first few hangs get the full deadline, later ones a short one, and after HANG_BUDGET
    # of them the remaining cases are not run at all (the hang is reported already; the check must end)
    if _BOUNDED["bad"] >= HANG_BUDGET:
        _BOUNDED["skipped"] += 1
        return {"violations": [], "trace": [], "bounded": "skipped"}
    limit = timeout or (CASE_TIMEOUT if _BOUNDED["bad"] < 2 else 5.0)
    status, res = worker.call(fn, (case, root, filters_per_col), limit)
    if status == "ok":
        return res
    _BOUNDED["bad"] += 1
    if status == "timeout":
        what = f"the library did not finish this history within {limit:.0f}s (an append or a scan loops or blocks)"
        key = "hang:history"
    elif status == "died":
        what = f"the process running this history died (return code {res}; address space limited to {os.environ.get('C11_WORKER_MEM', '8 GiB')})"
        key = "crash:history"
    else:
        what = f"running the history failed outside append/scan: {str(res)[:600]}"
        key = "error:history"
    return {"violations": [(key, what)], "trace": [], "bounded": status}


_WORKERS: List[Any] = []
PARALLEL = int(os.environ.get("C11_WORKERS", "4"))


def bounded_many(scratch: str, jobs: List[Tuple[Dict[str, Any], int]]) -> List[Dict[str, Any]]:
    """Independent cases [(case, filters_per_col)] on a small pool of worker processes; results in job order."""
    import threading
    from harness.lib.c11_worker import Worker
    if os.environ.get("C11_INPROCESS") or PARALLEL <= 1:
        return [bounded_case(c, os.path.join(scratch, "par0"), f) for c, f in jobs]
    while len(_WORKERS) < PARALLEL:
        _WORKERS.append(Worker())
    results: List[Any] = [None] * len(jobs)
    it = iter(range(len(jobs)))
    lock = threading.Lock()

    def loop(wi: int) -> None:
        while True:
            with lock:
                i = next(it, None)
            if i is None:
                return
            case, fpc = jobs[i]
            try:
                results[i] = bounded_case(case, os.path.join(scratch, f"par{wi}"), fpc, worker=_WORKERS[wi])
            except Exception as e:                   # noqa: BLE001 - never lose a case silently
                results[i] = {"violations": [("error:history", f"harness failure running the case: {e!r}")], "trace": []}

    threads = [threading.Thread(target=loop, args=(wi,)) for wi in range(PARALLEL)]
    for t in threads:
        t.start()
    for t in threads:
        t.join()
    return results


def guarded(ctx, what: str, payload: Any, fn, limit: float = 30.0) -> Tuple[bool, Any]:
    """An in-process library call under a deadline: (True, result), or (False, None) after reporting the hang."""
    from harness.lib.c11_worker import LibraryHang, time_limit
    try:
        with time_limit(limit, what):
            return True, fn()
    except LibraryHang:
        ctx.violation(f"hang:{what.split(':')[0]}", f"the library did not return within {limit:.0f}s: {what}", payload)
        return False, None


# ---------------------------------------------------------------------------------- shrinking
def shrink_case(case: Dict[str, Any], root: str, key: str) -> Dict[str, Any]:
    """Greedy delta debugging: drop steps, then records, then record keys, keeping the same violation key."""
    slow = key.split(":")[0] in ("hang", "crash", "error")

    def fails(c: Dict[str, Any]) -> bool:
        try:
            res = bounded_case(c, root, timeout=8.0 if slow else None)
        except Exception:                            # noqa: BLE001
            return False
        return any(k == key for k, _ in res["violations"])

    cur = copy.deepcopy(case)
    changed = True
    budget = 10 if slow else 60                      # every attempt on a hanging case costs its deadline
    while changed and budget > 0:
        changed = False
        for i in range(len(cur["steps"])):
            cand = copy.deepcopy(cur)
            del cand["steps"][i]
            budget -= 1
            if cand["steps"] and fails(cand):
                cur, changed = cand, True
                break
        if changed:
            continue
        for i, s in enumerate(cur["steps"]):
            for k in ("also_open", "open"):
                if s.get(k) and budget > 0:
                    cand = copy.deepcopy(cur)
                    del cand["steps"][i][k]
                    budget -= 1
                    if fails(cand):
                        cur, changed = cand, True
                        break
            if changed:
                break
        if changed:
            continue
        for i, s in enumerate(cur["steps"]):
            for j in range(len(s["records"])):
                cand = copy.deepcopy(cur)
                del cand["steps"][i]["records"][j]
                budget -= 1
                if fails(cand):
                    cur, changed = cand, True
                    break
            if changed or budget <= 0:
                break
    return cur


# ---------------------------------------------------------------------------------- oracles
def oracle_e2e(ctx) -> List[Tuple[Dict[str, Any], Dict[str, Any]]]:
    ncases = 70 if ctx.tier == "quick" else 2500
    runs = []
    stats = {"accepted": 0, "rejected": 0, "steps": 0, "filters": 0, "by_variant": {}}
    reported = set()
    cases = [gen_case(ctx.rng, ctx.rng.choice([3, 4, 5, 6])) for _ in range(ncases)]
    results = bounded_many(ctx.scratch, [(c, 2) for c in cases])
    for ci, (case, res) in enumerate(zip(cases, results)):
        root = os.path.join(ctx.scratch, f"e2e{ci}")
        runs.append((case, res))
        for ev in res["trace"]:
            stats["steps"] += 1
            stats[ev["outcome"]] += 1
            stats["filters"] += ev.get("filters", 0)
            bv = stats["by_variant"].setdefault(ev["variant"], {"accepted": 0, "rejected": 0})
            bv[ev["outcome"]] += 1
            ctx.count(1 + ev.get("filters", 0), ("e2e", ci, ev["step"]))
        for key, what in res["violations"]:
            if key in reported:
                continue
            reported.add(key)
            small = shrink_case(case, os.path.join(ctx.scratch, "shrink"), key)
            again = bounded_case(small, os.path.join(ctx.scratch, "shrink"))
            what2 = next((w for k, w in again["violations"] if k == key), what)
            ctx.violation(key, what2, {"kind": "history", "case": case_json(small)})
        shutil.rmtree(root, ignore_errors=True)
        if ci == 0:
            ctx.sample({"e2e_case": case_json(case), "outcomes": [e["outcome"] for e in res["trace"]]})
    ctx.stats["e2e"] = stats
    return runs


def oracle_tx(ctx) -> List[Tuple[Dict[str, Any], Dict[str, Any]]]:
    """Explicit transactions that outlive a rejected call: directed multi-file appends whose refused file is at
    every position, then random transaction histories (records and files calls, commit / rollback / abandon /
    failing commit, reused and fresh handles)."""
    from harness.lib.c11_tx import FILE_KINDS_BAD, META, STATS, TRUSTED_STATS, gen_file, gen_tx_case, shrink_tx, tx_case_json
    rng = ctx.rng
    cases: List[Dict[str, Any]] = []
    kinds = FILE_KINDS_BAD
    # what the caller CLAIMS about a well-formed pre-built file (DataFile.lower_bounds / upper_bounds): every claim x
    # column types x {one file, the claimed file next to an honest one} -- after the commit every stored value must
    # be found again by a filtered scan (run_tx_case probes == on every distinct value of every column)
    for stats in STATS[1:]:
        for ty in ("long", "string", "double", "timestamp") if ctx.tier == "thorough" else (rng.choice(["long", "string"]), rng.choice(["double", "timestamp", "date"])):
            fields = [{"id": 1, "name": "a", "type": ty, "required": False}, {"id": 2, "name": "b", "type": rng.choice(["long", "string"]), "required": False}]
            files = [gen_file(rng, fields, "good", stats)] + ([gen_file(rng, fields, "good", "none")] if rng.random() < 0.5 else [])
            cases.append({"kind": "tx", "fields": fields, "seed": rng.getrandbits(30), "txs": [
                {"handle": "A", "end": "commit", "calls": [{"op": "records", "variant": "omitted", "arg": None, "sid": 1, "build": "fresh", "records": gen_records(rng, fields, 0.0)}]},
                {"handle": rng.choice(["A", "fresh"]), "end": "commit", "calls": [{"op": "files", "files": files}]}]})
    # every OTHER caller-controlled field of a pre-built DataFile that a manifest stores (statistics maps and their keys,
    # checksum, record_count, size, partition values, adding snapshot): each claim on one well-formed file, alone or next
    # to an honest one -- the call raises and leaves no trace, or every later read (scan, filtered scan, row_count) works
    # and agrees with the content; and the call-level claim append_files(files, _statistics_computed_here=True) with
    # bounds that do not describe the file
    for meta in META:
        fields = [{"id": 1, "name": "a", "type": rng.choice(["long", "string"]), "required": False}, {"id": 2, "name": "b", "type": rng.choice(["long", "double"]), "required": False}]
        files = [dict(gen_file(rng, fields, "good", rng.choice(["none", "true"])), meta=meta)] + ([gen_file(rng, fields, "good", "none")] if rng.random() < 0.5 else [])
        cases.append({"kind": "tx", "fields": fields, "seed": rng.getrandbits(30), "txs": [
            {"handle": "A", "end": "commit", "calls": [{"op": "records", "variant": "omitted", "arg": None, "sid": 1, "build": "fresh", "records": gen_records(rng, fields, 0.0)}]},
            {"handle": rng.choice(["A", "fresh"]), "end": "commit", "calls": [{"op": "files", "files": files}]}]})
    for stats in TRUSTED_STATS:
        fields = [{"id": 1, "name": "a", "type": rng.choice(["long", "string"]), "required": False}, {"id": 2, "name": "b", "type": rng.choice(["long", "double"]), "required": False}]
        cases.append({"kind": "tx", "fields": fields, "seed": rng.getrandbits(30), "txs": [
            {"handle": "A", "end": "commit", "calls": [{"op": "records", "variant": "omitted", "arg": None, "sid": 1, "build": "fresh", "records": gen_records(rng, fields, 0.0)}]},
            {"handle": rng.choice(["A", "fresh"]), "end": "commit", "calls": [{"op": "files", "trusted": True, "files": [gen_file(rng, fields, "good", stats)]}]}]})
    for kind in kinds:
        for pos in (0, 1, 2):
            for follow in ((False, True) if ctx.tier == "thorough" or pos == 2 else (False,)):
                fields = mk_fields(rng, 2)
                files = [gen_file(rng, fields, "good") for _ in range(3)]
                files[pos]["kind"] = kind
                calls: List[Dict[str, Any]] = [{"op": "files", "files": files}]
                if follow:
                    calls.append({"op": "records", "variant": "omitted", "arg": None, "sid": 1, "records": gen_records(rng, fields, 0.0)})
                cases.append({"kind": "tx", "fields": fields, "seed": rng.getrandbits(30),
                              "txs": [{"handle": rng.choice(["A", "fresh"]), "calls": calls, "end": "commit"}]})
    for _ in range(40 if ctx.tier == "quick" else 1200):
        cases.append(gen_tx_case(rng, rng.choice([1, 2, 3])))
    results = bounded_many(ctx.scratch, [(c, 1) for c in cases])
    stats = {"cases": len(cases), "transactions": 0, "calls_accepted": 0, "calls_rejected": 0, "commits_ok": 0, "ends": {}}
    reported = set()
    runs = []
    for case, res in zip(cases, results):
        runs.append((case, res))
        for tev in res["trace"]:
            stats["transactions"] += 1
            stats["ends"][tev["commit"]] = stats["ends"].get(tev["commit"], 0) + 1
            stats["commits_ok"] += tev["commit"] == "ok"
            for c in tev["calls"]:
                stats["calls_" + c["outcome"]] += 1
            ctx.count(1 + len(tev["calls"]) + tev.get("filters", 0), ("tx", id(case), tev["tx"]))
        for key, what in res["violations"]:
            if key in reported:
                continue
            reported.add(key)
            slow = key.split(":")[0] in ("hang", "crash", "error")
            small = case if slow else shrink_tx(case, lambda c: any(k == key for k, _ in bounded_case(c, os.path.join(ctx.scratch, "shrinktx"), 1)["violations"]))
            again = bounded_case(small, os.path.join(ctx.scratch, "shrinktx"), 1)
            what2 = next((w for k, w in again["violations"] if k == key), what)
            ctx.violation(key, what2, {"kind": "tx-history", "case": tx_case_json(small)})
    ctx.stats["tx"] = stats
    if cases:
        ctx.sample({"tx_case": tx_case_json(cases[-1])})
    return runs


def oracle_objects(ctx) -> None:
    """Schema argument OBJECTS whose derived attributes disagree with their fields (every non-fresh build mode)
    x the divergent schema-argument variants x {fresh, reused} handle, after one ordinary append.  The two
    columns have the same type and disjoint value ranges, so bounds filed under the other column's id, a
    changed column order or a changed type cannot go unnoticed by the full and the extreme-value filtered scans."""
    rng = ctx.rng
    pairs = [("long", [100, 101], [1, 2]), ("string", ["x1", "x2"], ["a1", "a2"]), ("double", [10.5, 11.5], [0.5, 1.5])]
    variants = ["identical", "renumbered", "ids_shifted", "reordered", "reordered_new_sid", "retyped", "nullability", "extra", "missing", "renamed"]
    jobs, meta = [], []
    for mode in BUILD_MODES[1:]:
        for vname in variants:
            for hname in ("fresh", "A"):
                if ctx.tier == "quick" and hname == "A" and vname in ("extra", "missing", "renamed", "identical"):
                    continue
                ty, va, vb = rng.choice(pairs)
                fields = [{"id": 1, "name": "a", "type": ty, "required": False}, {"id": 2, "name": "b", "type": ty, "required": False}]
                v = make_variant(rng, fields, vname)
                if v is None:
                    continue
                arg, sid = v
                if mode in KEEPS_SID:
                    sid = 1
                first = [{"a": va[0], "b": vb[0]}]
                if vname in ("identical", "renumbered", "ids_shifted", "reordered", "reordered_new_sid", "nullability"):
                    recs = [{"a": va[1], "b": vb[1]}]
                else:
                    recs = gen_records(rng, arg, 0.0) or [{f["name"]: good_values(declared_type(f["type"]))[0] for f in arg}]
                case = {"fields": fields, "seed": rng.getrandbits(30), "steps": [
                    {"handle": "A", "variant": "omitted", "arg": None, "sid": 1, "build": "fresh", "records": first},
                    {"handle": hname, "variant": vname, "arg": arg, "sid": sid, "build": mode, "records": recs}]}
                jobs.append((case, 1))
                meta.append((mode, vname, hname))
    seen = set()
    outcomes: Dict[str, Dict[str, int]] = {}
    for (case, _), (mode, vname, hname), res in zip(jobs, meta, bounded_many(ctx.scratch, jobs)):
        ctx.count(1, ("objects", mode, vname, hname))
        if len(res["trace"]) > 1:
            o = outcomes.setdefault(mode, {"accepted": 0, "rejected": 0})
            o[res["trace"][1]["outcome"]] += 1
        for key, what in res["violations"]:
            k2 = f"object:{key}"
            if k2 in seen:                           # one replay per kind of failure; the build mode is in the text
                continue
            seen.add(k2)
            small = shrink_case(case, os.path.join(ctx.scratch, "shrink"), key)
            again = bounded_case(small, os.path.join(ctx.scratch, "shrink"))
            what2 = next((w for k, w in again["violations"] if k == key), what)
            ctx.violation(k2, f"schema argument built by '{mode}' ({vname}, handle {hname}): {what2}", {"kind": "history", "case": case_json(small)})
    ctx.stats["objects"] = {"cases": len(jobs), "by_build_mode": outcomes}


def oracle_ids_keys(ctx) -> List[Tuple[Dict[str, Any], Dict[str, Any]]]:
    """Directed: (1) field ids as a caller may write them (ID_MODES) in the TABLE schema, and written as other objects
    ("1", 1.0) in the schema ARGUMENT of an append to an int-id table -- two columns of one type with disjoint value
    ranges, so that statistics filed under a colliding or mangled id cannot go unnoticed by the extreme-value filtered
    scans; (2) record keys that are no strs but whose str() names a column (1 for "1", None for "None", True for
    "True"), alone and next to ordinary keys: the value under such a key is either refused or returned."""
    rng = ctx.rng
    pairs = [("long", [100, 101], [1, 2]), ("string", ["x1", "x2"], ["a1", "a2"]), ("double", [10.5, 11.5], [0.5, 1.5])]
    jobs: List[Tuple[Dict[str, Any], int]] = []
    meta: List[str] = []
    for mode in ID_MODES:
        for ty, va, vb in (pairs if ctx.tier == "thorough" else rng.sample(pairs, 2)):
            fields = [{"id": 1, "name": "a", "type": ty, "required": False}, {"id": 2, "name": "b", "type": ty, "required": False}]
            exotic_ids(rng, fields, mode)
            jobs.append(({"fields": fields, "seed": rng.getrandbits(30), "steps": [
                {"handle": "A", "variant": "omitted", "arg": None, "sid": 1, "build": "fresh", "records": [{"a": va[0], "b": vb[0]}]},
                {"handle": rng.choice(["A", "fresh"]), "variant": "identical", "arg": copy.deepcopy(fields), "sid": rng.choice([1, 7]), "build": "fresh",
                 "records": [{"a": va[1], "b": vb[1]}]}]}, 1))
            meta.append(f"table field ids {[f['id'] for f in fields]!r}")
    for vname in ("ids_as_str", "ids_as_float"):
        for hname in ("A", "fresh"):
            ty, va, vb = rng.choice(pairs)
            fields = [{"id": 1, "name": "a", "type": ty, "required": False}, {"id": 2, "name": "b", "type": ty, "required": False}]
            arg, sid = make_variant(rng, fields, vname)
            jobs.append(({"fields": fields, "seed": rng.getrandbits(30), "steps": [
                {"handle": "A", "variant": "omitted", "arg": None, "sid": 1, "build": "fresh", "records": [{"a": va[0], "b": vb[0]}]},
                {"handle": hname, "variant": vname, "arg": arg, "sid": sid, "build": "fresh", "records": [{"a": va[1], "b": vb[1]}]}]}, 1))
            meta.append(f"argument field ids {[f['id'] for f in arg]!r}")
    for name, key in sorted(KEY_TWINS.items()):
        for ty in ("string", "long"):
            fields = [{"id": 1, "name": "a", "type": "long", "required": False}, {"id": 2, "name": name, "type": ty, "required": False}]
            val = "x" if ty == "string" else 7
            for rec in ({"a": 1, key: val}, {key: val}, {"a": 2, name: val, key: val}):
                jobs.append(({"fields": fields, "seed": rng.getrandbits(30), "steps": [
                    {"handle": "A", "variant": "omitted", "arg": None, "sid": 1, "build": "fresh", "records": [rec]}]}, 1))
                meta.append(f"record key {key!r} ({type(key).__name__}) on a column named {name!r}")
    seen = set()
    runs = []
    outcomes = {"accepted": 0, "rejected": 0, "schema_refused": 0}
    for (case, _), what0, res in zip(jobs, meta, bounded_many(ctx.scratch, jobs)):
        runs.append((case, res))
        ctx.count(1 + len(res["trace"]), ("ids-keys", what0, len(runs)))
        if res.get("refused"):
            outcomes["schema_refused"] += 1
        for ev in res["trace"]:
            outcomes[ev["outcome"]] += 1
        for key, what in res["violations"]:
            k2 = ("field-ids:" if "field ids" in what0 else "record-keys:") + key
            if k2 in seen:
                continue
            seen.add(k2)
            small = shrink_case(case, os.path.join(ctx.scratch, "shrink"), key)
            again = bounded_case(small, os.path.join(ctx.scratch, "shrink"))
            what2 = next((w for k, w in again["violations"] if k == key), what)
            ctx.violation(k2, f"{what0}: {what2}", {"kind": "history", "case": case_json(small)})
    ctx.stats["ids_keys"] = {"cases": len(jobs), **outcomes}
    return runs


def oracle_handles(ctx) -> Tuple[List[Tuple[Dict[str, Any], Dict[str, Any]]], List[Tuple[Dict[str, Any], Dict[str, Any]]]]:
    """Handle PROVENANCE, directed (harness/lib/c11_open.py; the random histories and transactions draw from the same
    class): the appending handle is obtained by create_table(path, schema=S) / Table(path, schema=S) on the EXISTING
    table, S every variant of the table's schema under the table's schema_id and under another one, built fresh or
    derived from an existing object; on an empty and on a seeded table; the name re-bound or a new handle; then a
    schema-less append and an append with the identical schema through THAT handle.  Also: such a handle merely
    opened next to the one that appends (several handles alive in one process), and explicit transactions through
    such a handle that append records or pre-built files -- one of them carrying exactly the layout S describes.
    The columns have one type and disjoint value ranges; every value is exact for the declared type but not for
    its narrower sibling, so a foreign layout cannot be written unnoticed."""
    from harness.lib.c11_tx import gen_file, shrink_tx, tx_case_json
    rng = ctx.rng
    quick = ctx.tier == "quick"
    pairs = [("long", [100, 101], [1, 2]), ("string", ["x1", "x2"], ["a1", "a2"]), ("double", [10.1, 11.3], [0.1, 1.7]),
             ("float", [10.5, 11.5], [0.5, 1.5]), ("int", [100, 101], [1, 2])]
    variants = PLAIN_VARIANTS + ["spelled_dict", "identical_new_sid", "reordered_new_sid"]
    jobs: List[Tuple[Dict[str, Any], int]] = []
    meta: List[str] = []

    def table() -> Tuple[List[Dict[str, Any]], List[Any], List[Any]]:
        ty, va, vb = rng.choice(pairs)
        return ([{"id": 1, "name": "a", "type": ty, "required": False}, {"id": 2, "name": "b", "type": ty, "required": False}], va, vb)

    def spec_for(fields: List[Dict[str, Any]], how: str, vname: str, own_sid: bool) -> Optional[Dict[str, Any]]:
        v = make_variant(rng, fields, vname)
        if v is None or v[0] is None:
            return None
        arg, sid = v
        build = "fresh" if rng.random() < 0.7 else rng.choice(BUILD_MODES[1:])
        if (own_sid and not vname.endswith("_new_sid")) or build in KEEPS_SID:
            sid = 1
        return {"how": how, "variant": vname, "arg": arg, "sid": sid, "build": build}

    for how in ("create_schema", "ctor_schema"):
        for vname in variants:
            for own_sid in (True, False):
                for seeded in (True, False):
                    for hname in ("A", "fresh"):
                        if how == "ctor_schema" and quick and not (own_sid and seeded):
                            continue
                        fields, va, vb = table()
                        sp = spec_for(fields, how, vname, own_sid)
                        if sp is None:
                            continue
                        steps = []
                        if seeded:
                            steps.append({"handle": "A", "variant": "omitted", "arg": None, "sid": 1, "build": "fresh", "records": [{"a": va[0], "b": vb[0]}]})
                        steps.append({"handle": hname, "variant": "omitted", "arg": None, "sid": 1, "build": "fresh", "records": [{"a": va[1], "b": vb[1]}], "open": sp})
                        if hname == "A":             # the same handle again, now with the table's schema passed explicitly
                            steps.append({"handle": "A", "variant": "identical", "arg": copy.deepcopy(fields), "sid": 1, "build": "fresh",
                                          "records": [{"a": va[0], "b": vb[1]}]})
                        jobs.append(({"fields": fields, "seed": rng.getrandbits(30), "steps": steps}, 1))
                        meta.append(f"{open_label(sp)} handle {hname}, {'seeded' if seeded else 'empty'} table")
    for vname in variants:                           # several handles alive: the divergent one is only opened
        fields, va, vb = table()
        sp = spec_for(fields, "create_schema", vname, True)
        if sp is None:
            continue
        jobs.append(({"fields": fields, "seed": rng.getrandbits(30), "steps": [
            {"handle": "A", "variant": "omitted", "arg": None, "sid": 1, "build": "fresh", "records": [{"a": va[0], "b": vb[0]}]},
            {"handle": "A", "variant": "omitted", "arg": None, "sid": 1, "build": "fresh", "records": [{"a": va[1], "b": vb[1]}], "also_open": sp},
            {"handle": "B", "variant": "omitted", "arg": None, "sid": 1, "build": "fresh", "records": [{"a": va[1], "b": vb[0]}]}]}, 1))
        meta.append(f"{open_label(sp)} opened next to the appending handle")
    # per-handle state left behind by a call that RAISED: the handle's first use is an append with a divergent
    # schema argument (under the table's schema_id, records that fit that argument), the next one is schema-less;
    # for every provenance of the handle
    for how in ("named", "load", "create", "create_schema"):
        for vname in variants:
            fields, va, vb = table()
            v = make_variant(rng, fields, vname)
            if v is None or v[0] is None:
                continue
            arg = v[0]
            sp = None if how == "named" else ({"how": how} if how != "create_schema" else spec_for(fields, how, "identical", True))
            names = {f["name"] for f in arg}
            rec = {k: x for k, x in {"a": va[1], "b": vb[1]}.items() if k in names}
            for f in arg:
                if f["name"] not in rec:
                    rec[f["name"]] = good_values(declared_type(f["type"]))[0] if declared_type(f["type"]) != "opaque" else "s"
            mid = {"handle": "B", "variant": vname, "arg": arg, "sid": 1, "build": "fresh", "records": [rec]}
            if sp is not None:
                mid["open"] = sp
            jobs.append(({"fields": fields, "seed": rng.getrandbits(30), "steps": [
                {"handle": "A", "variant": "omitted", "arg": None, "sid": 1, "build": "fresh", "records": [{"a": va[0], "b": vb[0]}]},
                mid,
                {"handle": "B", "variant": "omitted", "arg": None, "sid": 1, "build": "fresh", "records": [{"a": va[1], "b": vb[1]}]}]}, 1))
            meta.append(f"{open_label(sp) if sp else 'load_table (default)'}; first call through it: append with a {vname} schema argument")
    for vname in PLAIN_VARIANTS:                     # explicit transactions through such a handle
        for calls_kind in ("records", "files"):
            fields, va, vb = table()
            sp = spec_for(fields, "create_schema", vname, True)
            if sp is None:
                continue
            if calls_kind == "records":
                calls = [{"op": "records", "variant": "omitted", "arg": None, "sid": 1, "build": "fresh", "records": [{"a": va[1], "b": vb[1]}]}]
            else:
                lay = gen_file(rng, sp["arg"], "layout")
                lay["layout"] = copy.deepcopy(sp["arg"])
                calls = [{"op": "files", "files": [gen_file(rng, fields, "good")]}, {"op": "files", "files": [lay]}]
            jobs.append(({"kind": "tx", "fields": fields, "seed": rng.getrandbits(30), "txs": [
                {"handle": "A", "end": "commit", "calls": [{"op": "records", "variant": "omitted", "arg": None, "sid": 1, "build": "fresh", "records": [{"a": va[0], "b": vb[0]}]}]},
                {"handle": rng.choice(["A", "fresh"]), "end": "commit", "calls": calls, "open": sp}]}, 1))
            meta.append(f"{open_label(sp)}, transaction appending {calls_kind}")
    seen = set()
    runs, tx_runs = [], []
    outcomes = {"accepted": 0, "rejected": 0}
    for (case, _), what0, res in zip(jobs, meta, bounded_many(ctx.scratch, jobs)):
        is_tx = case.get("kind") == "tx"
        (tx_runs if is_tx else runs).append((case, res))
        ctx.count(1 + len(res["trace"]), ("handles", what0, len(runs) + len(tx_runs)))
        for ev in res["trace"]:
            for c in (ev["calls"] if is_tx else [ev]):
                outcomes[c["outcome"]] += 1
        for key, what in res["violations"]:
            k2 = f"handle:{key}"
            if k2 in seen:
                continue
            seen.add(k2)
            if is_tx:
                slow = key.split(":")[0] in ("hang", "crash", "error")
                small = case if slow else shrink_tx(case, lambda c: any(k == key for k, _ in bounded_case(c, os.path.join(ctx.scratch, "shrinktx"), 1)["violations"]))
                again = bounded_case(small, os.path.join(ctx.scratch, "shrinktx"), 1)
                what2 = next((w for k, w in again["violations"] if k == key), what)
                ctx.violation(k2, f"handle obtained by {what0}: {what2}", {"kind": "tx-history", "case": tx_case_json(small)})
            else:
                small = shrink_case(case, os.path.join(ctx.scratch, "shrink"), key)
                again = bounded_case(small, os.path.join(ctx.scratch, "shrink"))
                what2 = next((w for k, w in again["violations"] if k == key), what)
                ctx.violation(k2, f"handle obtained by {what0}: {what2}", {"kind": "history", "case": case_json(small)})
    ctx.stats["handles"] = {"cases": len(jobs), "histories": len(runs), "transactions": len(tx_runs), **outcomes}
    return runs, tx_runs


def oracle_faults(ctx) -> List[Tuple[Dict[str, Any], Dict[str, Any]]]:
    """Storage faults DURING the append calls of explicit transactions: while the call runs, a window of failing
    storage operations (metadata reads for the whole call / only after the call's first write / the first n reads;
    marker writes; data-plane reads), cleared before the transaction ends.  Crossed with the divergent schema
    arguments and divergent pre-built footers, on fresh and reused handles, after one ordinary append.  A call
    that raises must leave no trace; whatever is accepted must scan back exactly.

    The GC-protection step of append_files (pre-built files get an in-flight marker, the adoption is refused while a
    collection run is announced, the files are checked to be still there, the markers the call wrote are removed when
    anything fails): directed transactions whose files call meets failing marker writes, a failing listing of the
    announced runs, a failing existence re-check, or an announcement (in force / unreadable / expired) -- followed, in
    the SAME transaction, by an ordinary files call and a records call under the same condition; a refused file next to
    good ones under each of them (validation comes first); and a file handed in twice (nothing left to protect)."""
    import random
    from harness.lib.c11_tx import COLLECTING, FAULT_SPECS, PROTECT_SPECS, gen_file, shrink_tx, tx_case_json
    rng = ctx.rng
    pairs = [("long", [100, 101], [1, 2]), ("string", ["x1", "x2"], ["a1", "a2"]), ("double", [10.5, 11.5], [0.5, 1.5])]
    variants = ["identical", "renumbered", "ids_shifted", "reordered", "reordered_new_sid", "retyped", "nullability"]
    specs = [FAULT_SPECS[0], FAULT_SPECS[2], FAULT_SPECS[4]] + (FAULT_SPECS[5:] if ctx.tier == "thorough" else [])
    cases: List[Dict[str, Any]] = []
    for spec in specs:
        for hname in ("fresh", "B", "A"):
            for vname in variants:
                ty, va, vb = rng.choice(pairs)
                fields = [{"id": 1, "name": "a", "type": ty, "required": False}, {"id": 2, "name": "b", "type": ty, "required": False}]
                v = make_variant(rng, fields, vname)
                if v is None:
                    continue
                arg, sid = v
                recs = [{"a": va[1], "b": vb[1]}] if vname != "retyped" else (gen_records(rng, arg, 0.0) or [{f["name"]: good_values(declared_type(f["type"]))[0] for f in arg}])
                cases.append({"kind": "tx", "fields": fields, "seed": rng.getrandbits(30), "txs": [
                    {"handle": "A", "end": "commit", "calls": [{"op": "records", "variant": "omitted", "arg": None, "sid": 1, "build": "fresh", "records": [{"a": va[0], "b": vb[0]}]}]},
                    {"handle": hname, "end": "commit", "calls": [{"op": "records", "variant": vname, "arg": arg, "sid": sid, "build": "fresh", "records": recs,
                                                                   "fault": copy.deepcopy(spec)}]}]})
            for kind in ("good", "reordered", "retyped", "nullability", "extra_col"):
                ty, va, vb = rng.choice(pairs)
                fields = [{"id": 1, "name": "a", "type": ty, "required": False}, {"id": 2, "name": "b", "type": ty, "required": False}]
                f1 = gen_file(rng, fields, "good")
                f2 = gen_file(rng, fields, kind)
                cases.append({"kind": "tx", "fields": fields, "seed": rng.getrandbits(30), "txs": [
                    {"handle": "A", "end": "commit", "calls": [{"op": "records", "variant": "omitted", "arg": None, "sid": 1, "build": "fresh", "records": [{"a": va[0], "b": vb[0]}]}]},
                    {"handle": hname, "end": "commit", "calls": [{"op": "files", "files": [f1, f2], "fault": copy.deepcopy(spec)}]}]})
    # ---- the protection step of append_files (a generator of its own: the cases above are what they were without it)
    r2 = random.Random((ctx.seed or 0) * 7919 + 11)
    conditions: List[Dict[str, Any]] = [{"fault": copy.deepcopy(sp)} for sp in PROTECT_SPECS] + [{"collecting": how} for how in COLLECTING]
    n_protect = 0
    for cond in conditions:
        for hname in ("fresh", "A"):
            ty, va, vb = r2.choice(pairs)
            fields = [{"id": 1, "name": "a", "type": ty, "required": False}, {"id": 2, "name": "b", "type": ty, "required": False}]
            first = {"handle": "A", "end": "commit", "calls": [{"op": "records", "variant": "omitted", "arg": None, "sid": 1, "build": "fresh", "records": [{"a": va[0], "b": vb[0]}]}]}
            calls = [{"op": "files", "files": [gen_file(r2, fields, "good"), gen_file(r2, fields, "good", "true")], **copy.deepcopy(cond)},
                     {"op": "files", "files": [gen_file(r2, fields, "good")]},
                     {"op": "records", "variant": "omitted", "arg": None, "sid": 1, "build": "fresh", "records": [{"a": va[1], "b": vb[1]}], **copy.deepcopy(cond)}]
            cases.append({"kind": "tx", "fields": fields, "seed": r2.getrandbits(30),
                          "txs": [first, {"handle": hname, "end": r2.choice(["commit", "commit", "abandon", "rollback"]), "calls": calls}]})
            n_protect += 1
        ty, va, vb = r2.choice(pairs)
        fields = [{"id": 1, "name": "a", "type": ty, "required": False}, {"id": 2, "name": "b", "type": ty, "required": False}]
        bad = r2.choice(["retyped", "missing", "reordered", "avro"])
        cases.append({"kind": "tx", "fields": fields, "seed": r2.getrandbits(30), "txs": [
            {"handle": r2.choice(["A", "fresh"]), "end": "commit",
             "calls": [{"op": "files", "files": [gen_file(r2, fields, "good"), gen_file(r2, fields, bad)], **copy.deepcopy(cond)},
                       {"op": "files", "files": [gen_file(r2, fields, "good")], **copy.deepcopy(cond)}]}]})
        n_protect += 1
    for end in ("rollback", "abandon"):
        # the same file handed in again: the transaction already holds its marker -- nothing to protect, no window can
        # hit; next to a new file the step runs (and fails) as usual.  (Never committed: the read path reads a path once,
        # so a file queued twice is listed twice and its rows are returned once -- whether the caller "supplied" them
        # twice is not for this check to say; Model/SchemaTx.v does not identify files by name when it scans.)
        fields = [{"id": 1, "name": "a", "type": "long", "required": False}]
        cases.append({"kind": "tx", "fields": fields, "seed": r2.getrandbits(30), "txs": [
            {"handle": "A", "end": end,
             "calls": [{"op": "files", "files": [gen_file(r2, fields, "good")]},
                       {"op": "files", "files": [{"kind": "again", "ref": [0, 0]}], "fault": copy.deepcopy(PROTECT_SPECS[0])},
                       {"op": "files", "files": [{"kind": "again", "ref": [0, 0]}, gen_file(r2, fields, "good")], "fault": copy.deepcopy(PROTECT_SPECS[1])},
                       {"op": "files", "files": [{"kind": "again", "ref": [0, 0]}], "collecting": "announced"}]}]})
        n_protect += 1
    results = bounded_many(ctx.scratch, [(c, 1) for c in cases])
    stats = {"cases": len(cases), "protection_step_cases": n_protect, "faulted_calls_accepted": 0, "faulted_calls_rejected": 0, "fault_hits": 0}
    reported = set()
    runs = []
    for case, res in zip(cases, results):
        runs.append((case, res))
        for tev in res["trace"]:
            ctx.count(1 + len(tev["calls"]), ("fault", id(case), tev["tx"]))
            for c in tev["calls"]:
                if c.get("fault") or c.get("collecting"):
                    stats["faulted_calls_" + c["outcome"]] += 1
                    stats["fault_hits"] += c.get("fault_hits", 0)
        for key, what in res["violations"]:
            k2 = "fault:" + key
            if k2 in reported:
                continue
            reported.add(k2)
            slow = key.split(":")[0] in ("hang", "crash", "error")
            small = case if slow else shrink_tx(case, lambda c: any(k == key for k, _ in bounded_case(c, os.path.join(ctx.scratch, "shrinktx"), 1)["violations"]))
            again = bounded_case(small, os.path.join(ctx.scratch, "shrinktx"), 1)
            what2 = next((w for k, w in again["violations"] if k == key), what)
            ctx.violation(k2, what2, {"kind": "tx-history", "case": tx_case_json(small)})
    ctx.stats["faults"] = stats
    return runs


def oracle_cells(ctx) -> None:
    """Every column type x every value class, one cell per table (the conversion boundary of the property)."""
    n = 0
    seen = set()
    outcomes = {"accepted": 0, "rejected": 0}
    types = TYPES
    jobs, meta = [], []
    for ty in types:
        for vi, v in enumerate(POOL):
            for required in ((False, True) if v is None or vi % 7 == 0 else (False,)):
                case = {"fields": [{"id": 1, "name": "a", "type": ty, "required": required}],
                        "steps": [{"handle": "A", "variant": "omitted", "arg": None, "sid": 1, "records": [{"a": v}]}]}
                jobs.append((case, 1))
                meta.append((ty, v, required))
    # list<element> columns (declared {"type": "list<e>"}): every list value of the pool and a few scalars
    scalars = [1, 1.5, "a", b"x", True]
    for lt in LIST_TYPES:
        for v in [x for x in POOL if x is None or is_seq(x)] + scalars:
            case = {"fields": [{"id": 1, "name": "a", "type": {"type": lt}, "required": False}],
                    "steps": [{"handle": "A", "variant": "omitted", "arg": None, "sid": 1, "records": [{"a": v}]}]}
            jobs.append((case, 1))
            meta.append((lt, v, False))
    for (case, _), (ty, v, required), res in zip(jobs, meta, bounded_many(ctx.scratch, jobs)):
        n += 1
        ctx.count(1, ("cell", ty, repr(v), required))
        if res["trace"]:
            outcomes[res["trace"][0]["outcome"]] += 1
        for key, what in res["violations"]:
            k2 = key if key.startswith("rows-differ") else f"{key}:{ty}:{type(v).__name__}"
            if k2 in seen:
                continue
            seen.add(k2)
            ctx.violation(k2, f"column type {ty}, value {v!r:.120}: {what}", {"kind": "history", "case": case_json(case)})
    ctx.stats["cells"] = {"cases": n, **outcomes}


def coercible_values(t: str) -> List[Any]:
    """Values plain pyarrow converts for the column type WITHOUT raising although the result is not the value
    supplied (judged by `exact`): the silently altering conversions."""
    out = []
    for v in POOL:
        if v is None:
            continue
        res = real_conv(t, v)
        if res[0] == "ok" and not exact(t, v, res[1]):
            out.append(v)
    return out


def oracle_spelling(ctx) -> None:
    """Type SPELLINGS x silently-coercible values.  A definition such as {"type": "int"} declares an int column
    (the writer maps it to int32); whether it reaches the table through create_table or through an explicit
    schema argument, a value the column cannot hold must be refused, not altered."""
    thorough = ctx.tier == "thorough"
    n = 0
    seen = set()
    outcomes = {"accepted": 0, "rejected": 0}

    pending: List[Tuple[str, str, Dict[str, Any], Any, str]] = []

    def one(tag: str, shape: str, case: Dict[str, Any], v: Any, decl: str) -> None:
        pending.append((tag, shape, case, v, decl))

    def judge(tag: str, shape: str, case: Dict[str, Any], v: Any, decl: str, res: Dict[str, Any]) -> None:
        nonlocal n
        n += 1
        ctx.count(1, ("spelling", tag, shape, decl, repr(v)))
        if res["trace"]:
            outcomes[res["trace"][-1]["outcome"]] += 1
        for key, what in res["violations"]:
            k2 = f"spelled-{tag}:{shape}:{key}"
            if k2 in seen:
                continue
            seen.add(k2)
            ctx.violation(k2, f"type spelled {shape} ({tag}), declared {decl}, value {v!r}: {what}", {"kind": "history", "case": case_json(case)})

    for t in TYPES:
        bad_vals = coercible_values(t)
        vals = (bad_vals if thorough else bad_vals[:4]) + (good_values(t)[1:2] or good_values(t)[:1])
        for shape in (SHAPES if thorough else ["dict", "dict_doc", "listof"]):
            td = spell(t, shape)
            decl = declared_type(td)
            wrap = {"listof": lambda x: [x], "listof2": lambda x: [[x], []]}.get(shape, lambda x: x)
            for v in [wrap(x) for x in (vals if shape in ("dict", "dict_doc") or thorough else vals[:2] + vals[-1:])] if decl != "opaque" else [b"x", "s", 1, 1.5]:
                plain = [{"id": 1, "name": "a", "type": t, "required": False}]
                spelled = [{"id": 1, "name": "a", "type": td, "required": False}]
                # (1) table declared with the plain string, argument spelled: fresh handle
                one("arg", shape, {"fields": plain, "steps": [{"handle": "fresh", "variant": "spelled_" + shape, "arg": copy.deepcopy(spelled), "sid": 1, "records": [{"a": v}]}]}, v, decl)
                # (2) table declared with the spelled definition, argument omitted
                one("table", shape, {"fields": spelled, "steps": [{"handle": "A", "variant": "omitted", "arg": None, "sid": 1, "records": [{"a": v}]}]}, v, decl)
                if thorough:
                    # (3) reused handle that already wrote under the plain schema, then the spelled argument under the same id
                    one("arg-reused", shape, {"fields": plain, "steps": [
                        {"handle": "A", "variant": "omitted", "arg": None, "sid": 1, "records": [{"a": good_values(t)[0]}]},
                        {"handle": "A", "variant": "spelled_" + shape, "arg": copy.deepcopy(spelled), "sid": 1, "records": [{"a": v}]}]}, v, decl)
                    # (4) spelled table, identical spelled argument under another schema id
                    one("table-arg", shape, {"fields": spelled, "steps": [{"handle": "fresh", "variant": "identical_new_sid", "arg": copy.deepcopy(spelled), "sid": 7, "records": [{"a": v}]}]}, v, decl)
    if not thorough:
        for shape in ["nested", "upper", "list", "empty", "listof2"]:
            for t in ("int", "string"):
                td = spell(t, shape)
                for v in ([b"x", "s", 1.5] if shape != "listof2" else [[[1.5]], [["s"]], [[1], [2]], [1]]):
                    one("table", shape, {"fields": [{"id": 1, "name": "a", "type": td, "required": False}],
                                          "steps": [{"handle": "A", "variant": "omitted", "arg": None, "sid": 1, "records": [{"a": v}]}]}, v, declared_type(td))
    for (tag, shape, case, v, decl), res in zip(pending, bounded_many(ctx.scratch, [(p[2], 1) for p in pending])):
        judge(tag, shape, case, v, decl, res)
    ctx.stats["spelling"] = {"cases": n, **outcomes}


def oracle_prebuilt(ctx, only: Optional[str] = None) -> None:
    """Pre-built parquet files through append_files: divergent footers must be refused or harmless."""
    import pyarrow as pa
    import pyarrow.parquet as pq
    from datashard import create_table, load_table
    from datashard.data_structures import DataFile, FileFormat, Schema
    fields = [{"id": 1, "name": "a", "type": "long", "required": False}, {"id": 2, "name": "b", "type": "string", "required": True}]
    base = pa.schema([pa.field("a", pa.int64(), True), pa.field("b", pa.string(), False)])
    footers = {
        "identical": base,
        "reordered": pa.schema([base.field(1), base.field(0)]),
        "retyped": pa.schema([pa.field("a", pa.int32(), True), base.field(1)]),
        "nullability": pa.schema([base.field(0), pa.field("b", pa.string(), True)]),
        "extra": pa.schema(list(base) + [pa.field("z", pa.int64(), True)]),
        "missing": pa.schema([base.field(0)]),
        "renamed": pa.schema([pa.field("q", pa.int64(), True), base.field(1)]),
        "with_metadata": base.with_metadata({"k": "v"}),
    }
    # the same rows in a format the read path does not read, and bytes that are no parquet file at all
    other_formats = {"avro_file": FileFormat.AVRO, "orc_declared": FileFormat.ORC, "garbage_parquet": FileFormat.PARQUET}
    n = 0
    def one(name: str) -> None:
        nonlocal n
        footer = footers.get(name, base)
        root = os.path.join(ctx.scratch, "prebuilt")
        shutil.rmtree(root, ignore_errors=True)
        t = create_table(root, Schema(schema_id=1, fields=copy.deepcopy(fields)))
        t.append_records([{"a": 1, "b": "x"}])
        os.makedirs(os.path.join(root, "data"), exist_ok=True)
        fname = "pre.parquet"
        if name == "avro_file":
            import fastavro
            fname = "pre.avro"
            with open(os.path.join(root, "data", fname), "wb") as fo:
                fastavro.writer(fo, {"type": "record", "name": "r", "fields": [{"name": "a", "type": ["null", "long"]}, {"name": "b", "type": "string"}]},
                                [{"a": 2, "b": "y"}])
        elif name in ("orc_declared", "garbage_parquet"):
            fname = "pre.orc" if name == "orc_declared" else "pre.parquet"
            with open(os.path.join(root, "data", fname), "wb") as fo:
                fo.write(b"ORC" + b"\x00" * 64)
        else:
            cols = {}
            for fl in footer:
                cols[fl.name] = pa.array(["y"] if pa.types.is_string(fl.type) else [2], fl.type)
            pq.write_table(pa.Table.from_arrays([cols[fl.name] for fl in footer], schema=footer), os.path.join(root, "data", fname))
        df = DataFile(file_path="/data/" + fname, file_format=other_formats.get(name, FileFormat.PARQUET), partition_values={}, record_count=1,
                      file_size_in_bytes=os.path.getsize(os.path.join(root, "data", fname)))
        before = observe(root)
        n += 1
        ctx.count(1, ("prebuilt", name))
        try:
            with load_table(root).new_transaction() as tx:
                tx.append_files([df])
                tx.commit()
            accepted = True
        except Exception:                            # noqa: BLE001
            accepted = False
        after = observe(root)
        payload = {"kind": "prebuilt", "footer": name}
        if not accepted:
            diff = same_table_state(before, after)
            if diff:
                ctx.violation(f"prebuilt-reject-trace:{name}", f"append_files raised for footer '{name}' but {diff}", payload)
            return
        try:
            rows = load_table(root).scan()
            rows_f = load_table(root).scan(filter={"a": (">=", 1)})
        except Exception as e:                       # noqa: BLE001
            ctx.violation(f"prebuilt-scan-raises:{name}", f"pre-built file with footer '{name}' accepted; scan raises {type(e).__name__}: {str(e)[:160]}", payload)
            return
        if len(rows) != 2 or len(rows_f) != 2:
            ctx.violation(f"prebuilt-rows:{name}", f"pre-built file with footer '{name}' accepted; scans return {rows!r:.200} / {rows_f!r:.200}", payload)

    for name in list(footers) + list(other_formats):
        if only is not None and name != only:
            continue
        guarded(ctx, f"prebuilt:{name}", {"kind": "prebuilt", "footer": name}, lambda: one(name), 60.0)
    ctx.stats["prebuilt_cases"] = n


def probe_legacy(ctx) -> None:
    """OUT OF THE PROVED SCOPE, recorded in the evidence only: a table created WITHOUT a schema enforces
    nothing on explicit schema arguments (the code says so: "legacy table: nothing to enforce"), so two
    appends with different schemas are both accepted and the next full scan raises; through a REUSED handle
    and the same schema_id the Arrow-schema cache answers with the first schema and the second batch's
    fields are silently dropped.  No small safe repair exists (it needs either schema adoption at the
    first append or a check against existing data files); reported as an open finding."""
    from datashard import create_table, load_table
    from datashard.data_structures import Schema
    f1 = [{"id": 1, "name": "a", "type": "long", "required": False}]
    f2 = [{"id": 1, "name": "b", "type": "string", "required": False}]
    out = {}
    for mode in ("fresh_handle", "reused_handle"):
        root = os.path.join(ctx.scratch, "legacy")
        shutil.rmtree(root, ignore_errors=True)
        t = create_table(root)
        try:
            t.append_records([{"a": 1}], schema=Schema(schema_id=1, fields=copy.deepcopy(f1)))
            h = t if mode == "reused_handle" else load_table(root)
            h.append_records([{"b": "x"}], schema=Schema(schema_id=1, fields=copy.deepcopy(f2)))
            try:
                out[mode] = "both accepted; scan returns " + repr(load_table(root).scan())
            except Exception as e:                   # noqa: BLE001
                out[mode] = f"both accepted; scan raises {type(e).__name__}"
        except Exception as e:                       # noqa: BLE001
            out[mode] = f"second append rejected ({type(e).__name__})"
    ctx.stats["open_finding_legacy_table_without_schema"] = out


# ---------------------------------------------------------------------------------- correspondence (model vs code)
NAME_NUM = {"a": 0, "b": 1, "c": 2, "z": 3, "q": 4, "zz": 5, "1": 6, "None": 7, "True": 8}
OTHER_NAME = 9                                       # every name no schema of this module uses


def key_coq(k: Any) -> int:
    """Model/Schema.v record key: the number of the name for a str; -(1 + the number of str(k)) for any other object."""
    if isinstance(k, str):
        return NAME_NUM.get(k, OTHER_NAME)
    return -(1 + NAME_NUM.get(str(k), OTHER_NAME))


class NotModelled(Exception):
    """The case lies outside the model's domain (e.g. field ids that are no integers: no such Schema exists once
    Schema.__post_init__ refuses them -- pinned by the translator)."""
REQ_P = REQ + ["DS.Proofs.SchemaProofs"]


def b2c(b: bool) -> str:
    return "true" if b else "false"


def field_coq(f: Dict[str, Any]) -> str:
    if type(f["id"]) is not int:
        raise NotModelled(f"field id {f['id']!r}")
    return (f"{{| fid := ({f['id']})%Z; fname := {NAME_NUM[f['name']]}%Z; ftype := {ctype_coq(resolved_type(f['type']))}; "
            f"fspell := {spell_code(f['type'])}%Z; freq := {b2c(bool(f.get('required', False)))} |}}")


def fields_coq(fs: List[Dict[str, Any]]) -> str:
    return "[" + "; ".join(field_coq(f) for f in fs) + "]"


def ischema_coq(sid: int, fs: List[Dict[str, Any]], stale: bool = False) -> str:
    return f"{{| sid := ({sid})%Z; sfields := {fields_coq(fs)}; sstring := {1 if stale else 0}%Z |}}"


def opener_coq(spec: Optional[Dict[str, Any]], failed: bool, table_fields: List[Dict[str, Any]]) -> str:
    """Model/SchemaOpen.v `opener` for an opening spec (an opening that raised went on through load_table)."""
    if not spec or failed or spec["how"] == "load":
        return "OLoad"
    if spec["how"] == "create":
        return "(OCreate None)"
    stale = spec.get("build", "fresh") != "fresh" and spec["arg"] != table_fields
    ctor = "OCreate" if spec["how"] == "create_schema" else "OCtor"
    return f"({ctor} (Some {ischema_coq(spec['sid'], spec['arg'], stale)}))"


def cache_coq(cache: Optional[List[Any]], tags: Dict[str, int]) -> Optional[str]:
    """An observed _arrow_schema_cache as a SchemaEval.real_cache term; None when it could not be read / rendered."""
    if cache is None:
        return None
    try:
        return "[" + "; ".join(f"(({int(k)})%Z, [" + "; ".join(f"({NAME_NUM[n]}%Z, {arrow_tag(ty, tags)}%Z, {b2c(nl)})" for n, ty, nl in a) + "])" for k, a in cache) + "]"
    except KeyError:
        return None


def record_coq(r: Dict[Any, Any]) -> str:
    return "[" + "; ".join(f"(({key_coq(k)})%Z, {pyval_to_coq(v)})" for k, v in r.items()) + "]"


def opt_pyval_coq(res: Tuple[str, Any]) -> str:
    return f"(Some {pyval_to_coq(res[1])})" if res[0] == "ok" else "None"


_REAL_ARROW: Dict[str, Any] = {}


def real_arrow_type(ptype: str):
    """The Arrow type the real _iceberg_type_to_arrow maps a resolved type (primitive or list<...>) to."""
    if ptype not in _REAL_ARROW:
        from datashard.data_operations import DataFileManager
        _REAL_ARROW[ptype] = DataFileManager._iceberg_type_to_arrow(DataFileManager.__new__(DataFileManager), ptype)
    return _REAL_ARROW[ptype]


def arrow_tag(ty: str, tags: Dict[str, int]) -> int:
    """SchemaEval.catype_tag of an Arrow type given by its str(): list<item: T> / list<element: T> -> 16 * (1 + tag T)."""
    if ty.startswith("list<") and ty.endswith(">") and ": " in ty:
        return 16 * (1 + arrow_tag(ty[ty.index(": ") + 2:-1], tags))
    return tags[ty]


def real_conv(ptype: str, v: Any) -> Tuple[str, Any]:
    """pyarrow's conversion of one cell for the (resolved) column type (what from_pylist does per column)."""
    import pyarrow as pa
    try:
        return ("ok", pa.array([v], type=real_arrow_type(ptype))[0].as_py())
    except Exception as e:                           # noqa: BLE001
        return ("raises", type(e).__name__)


_TAGS: Dict[str, int] = {}


def arrow_tags() -> Dict[str, int]:
    """str(real arrow type) -> Gen atype_tag, via the regenerated arrow_of_type."""
    if not _TAGS:
        names = sorted(TYPES)
        got = coqbuild.coq_eval(REQ, ["map (fun t => (ptype_tag t, atype_tag (arrow_of_type t))) all_ptypes"])[0]
        for ptag, atag in got:
            _TAGS[str(real_arrow_type(names[ptag]))] = atag
    return _TAGS


def q_coq(x: float) -> str:
    from fractions import Fraction
    fr = Fraction(x)
    return f"(Qmake ({fr.numerator})%Z ({fr.denominator})%positive)"


def rnd_tab_coq(values: List[Any]) -> str:
    from harness.lib.values import num_to_coq
    ents = []
    flat: List[Any] = []

    def walk(x: Any) -> None:
        if is_seq(x):
            for y in x:
                walk(y)
        else:
            flat.append(x)

    for v in values:
        walk(v)
    for v in flat:
        if isinstance(v, float) and v == v and v not in (float("inf"), float("-inf")):
            r = f32(v)
            if r is not None:
                ents.append(f"({q_coq(v)}, {num_to_coq(r)})")
    return "[" + "; ".join(ents) + "]"


def corr_accept_arrow(ctx) -> None:
    """_validate_schema_against_table vs accept_schema; create_arrow_schema (fresh and cached) vs arrow_of / the cache."""
    from datashard import create_table
    from datashard.data_operations import DataFileManager
    from datashard.data_structures import Schema
    rng = ctx.rng
    ntables = 14 if ctx.tier == "quick" else 120
    acc_cases, acc_impl, acc_exprs = [], [], []
    ar_cases, ar_impl, ar_exprs = [], [], []
    tags = arrow_tags()
    def one_table(ti) -> None:
        fields = mk_fields(rng, rng.choice([1, 2, 3]), p_spelled=0.3)
        root = os.path.join(ctx.scratch, "acc")
        shutil.rmtree(root, ignore_errors=True)
        table = create_table(root, Schema(schema_id=1, fields=copy.deepcopy(fields)))
        tx = table.new_transaction().begin()
        args = []
        for vname in VARIANTS[1:]:
            for _ in range(1 if ctx.tier == "quick" else 3):
                v = make_variant(rng, fields, vname)
                if v is not None:
                    args.append((vname, v[0], v[1]))
        # second-order mutations (variant of a variant)
        for _ in range(4):
            v1 = make_variant(rng, fields, rng.choice(VARIANTS[1:]))
            if v1 is None:
                continue
            v2 = make_variant(rng, v1[0], rng.choice(VARIANTS[1:]))
            if v2 is not None and len({f["name"] for f in v2[0]}) == len(v2[0]) and len({f["id"] for f in v2[0]}) == len(v2[0]):
                args.append(("double", v2[0], v2[1]))
        args = [a for a in args if int_ids(a[1])]    # ids that are no ints: no such Schema object (pinned); e2e / oracle_ids_keys
        for vname, arg, sid in args:
            mode = rng.choice(BUILD_MODES)
            try:
                tx._validate_schema_against_table(build_schema(mode, sid, arg, fields, table))
                ok = True
            except ValueError:
                ok = False
            acc_cases.append((vname + "/" + mode, fields, arg))
            acc_impl.append(ok)
            acc_exprs.append(f"accept_schema {fields_coq(fields)} {fields_coq(arg)}")
            ctx.count(1, ("accept", ti, vname, repr(arg)))
        tx.rollback()
        # create_arrow_schema through one manager: a sequence of calls with colliding / distinct schema ids
        dfm = table.file_manager.data_file_manager
        dfm._arrow_schema_cache.clear()
        seq = [(sid, arg) for _, arg, sid in rng.sample(args, min(4, len(args)))]
        cache = "[]"
        impl_seq, model_parts = [], []
        for sid, arg in seq:
            a = dfm.create_arrow_schema(Schema(schema_id=sid, fields=copy.deepcopy(arg)))
            impl_seq.append([(NAME_NUM[fl.name], arrow_tag(str(fl.type), tags), fl.nullable) for fl in a])
        # model: thread the cache through the same calls
        expr = "[]"
        calls = "; ".join(ischema_coq(sid, arg) for sid, arg in seq)
        expr = (f"snd (fold_left (fun st s => let (a, c) := create_arrow_schema (fst st) s in (c, (snd st ++ [aschema_tags a])%list)) "
                f"[{calls}] (@nil (Z * aschema), @nil (list (Z * Z * bool))))")
        ar_cases.append(seq)
        ar_impl.append(impl_seq)
        ar_exprs.append(expr)
        ctx.count(1, ("arrow-seq", ti))
    for ti in range(ntables):
        if not guarded(ctx, f"corr-accept:{ti}", {"kind": "hang", "where": "corr-accept", "iteration": ti}, lambda: one_table(ti), 20.0)[0]:
            break
    got = coqbuild.coq_eval(REQ, acc_exprs)
    bad = [{"variant": c[0], "table": c[1], "arg": c[2], "impl_accepts": i, "model_accepts": g}
           for c, i, g in zip(acc_cases, acc_impl, got) if i != g]
    ctx.correspondence("accept", len(acc_cases), bad)
    ctx.stats["accept_cases"] = len(acc_cases)
    ctx.stats["accept_accepted"] = sum(1 for x in acc_impl if x)
    got = coqbuild.coq_eval(REQ, ar_exprs)
    bad = []
    for seq, i, g in zip(ar_cases, ar_impl, got):
        g2 = [[tuple(x) for x in a] for a in g]
        if g2 != i:
            bad.append({"calls": [(sid, arg) for sid, arg in seq], "impl": i, "model": g2})
    ctx.correspondence("arrow+cache", len(ar_cases), bad)


def corr_records(ctx) -> None:
    """validate_records_strict vs validate_record; _value_fits vs value_fits; pyarrow vs canon (conv_sound, conv_kinds)."""
    from datashard.data_operations import DataFileManager
    from datashard.data_structures import Schema
    rng = ctx.rng
    dfm = DataFileManager.__new__(DataFileManager)
    # (1) value_fits, exhaustively over types x pool; list<...> types x (the lists of the pool + some scalars)
    cases = [(t, v) for t in TYPES for v in POOL] + [(t, v) for t in LIST_TYPES for v in POOL if v is None or is_seq(v) or v in (1, "a")]
    okf, impl = guarded(ctx, "corr-value_fits", {"kind": "hang", "where": "_value_fits over types x value pool"},
                        lambda: [bool(DataFileManager._value_fits(t, v)) if hasattr(DataFileManager, "_value_fits") else True for t, v in cases], 60.0)
    if not okf:
        return
    got = coqbuild.coq_eval(REQ, [f"value_fits_c {ctype_coq(t)} {pyval_to_coq(v)}" for t, v in cases])
    bad = [{"type": t, "value": enc(v), "impl": i, "model": g} for (t, v), i, g in zip(cases, impl, got) if i != g]
    # the same test through every other SPELLING of the type definition (resolved as the code resolves it)
    shapes = SHAPES if ctx.tier == "thorough" else ["dict", "upper", "list", "listof"]
    scases = [(spell(t, sh), v) for sh in shapes for t in TYPES for v in POOL if not sh.startswith("listof") or v is None or is_seq(v)]
    scases += [({"type": "list<lon"}, ["a"]), ({"type": "list<lon"}, [1]), ({"type": "list<map<string,long>>"}, ["a"]), ({"type": "map<string,long>"}, "a"),
               ({"type": "list<>"}, ["a"]), ({"type": "list<"}, ["a"]), ({"type": "list<LONG>"}, [1])]
    okf, simpl = guarded(ctx, "corr-value_fits", {"kind": "hang", "where": "_value_fits over spelled types x value pool"},
                         lambda: [bool(DataFileManager._value_fits(td, v)) if hasattr(DataFileManager, "_value_fits") else True for td, v in scases], 60.0)
    if not okf:
        return
    sgot = coqbuild.coq_eval(REQ, [f"value_fits_c {ctype_coq(resolved_type(td))} {pyval_to_coq(v)}" for td, v in scases])
    bad += [{"type": td, "value": enc(v), "impl": i, "model": g} for (td, v), i, g in zip(scases, simpl, sgot) if i != g]
    ctx.correspondence("value_fits", len(cases) + len(scases), bad)
    ctx.count(len(scases), ("fits-spelled", len(scases)))
    for t, v in cases:
        ctx.count(1, ("fits", t, repr(v)))
    # (2) conv_sound / conv_kinds on every admitted value (admitted by the MODEL: the hypothesis' own premise)
    admitted = [(t, v) for (t, v), g in zip(cases, got) if g]
    rnd = rnd_tab_coq([v for _, v in admitted])
    exprs, kept, raises = [], [], 0
    for t, v in admitted:
        res = real_conv(t, v)
        if res[0] != "ok":
            raises += 1
            continue
        kept.append((t, v, res[1]))
        exprs.append(f"(pyval_eqb (canon_c (rnd_tab {rnd}) {ctype_coq(t)} {pyval_to_coq(v)}) {pyval_to_coq(res[1])}, "
                     f"has_kind (kind_of_catype (arrow_of_ctype {ctype_coq(t)})) (bval {pyval_to_coq(res[1])}))")
    got2 = coqbuild.coq_eval(REQ_P, exprs)
    bad = [{"type": t, "value": enc(v), "pyarrow_stores": enc(r), "canon_equal": g[0], "kind_ok": g[1]}
           for (t, v, r), g in zip(kept, got2) if not (g[0] and g[1])]
    ctx.correspondence("conv_sound", len(kept), bad)
    ctx.stats["conv_admitted"] = len(admitted)
    ctx.stats["conv_pyarrow_raises_on_admitted"] = raises
    # conv_kinds must also hold for values the library does NOT admit (it is stated for every conversion)
    exprs, kept = [], []
    for t, v in cases:
        res = real_conv(t, v)
        if res[0] == "ok":
            kept.append((t, v, res[1]))
            exprs.append(f"has_kind (kind_of_catype (arrow_of_ctype {ctype_coq(t)})) (bval {pyval_to_coq(res[1])})")
    got3 = coqbuild.coq_eval(REQ_P, exprs)
    bad = [{"type": t, "value": enc(v), "pyarrow_stores": enc(r)} for (t, v, r), g in zip(kept, got3) if not g]
    ctx.correspondence("conv_kinds", len(kept), bad)
    # (3) validate_records_strict on random batches
    n = 150 if ctx.tier == "quick" else 1500
    rcases, rimpl, rexprs = [], [], []
    def one_batch(ri) -> None:
        fields = mk_fields(rng, rng.choice([1, 2, 3]), p_spelled=0.3, p_names=0.15)
        recs = gen_records(rng, fields, 0.3)
        if recs and recs[0] and rng.random() < 0.2:
            del recs[0][rng.choice(list(recs[0].keys()))]
        schema = Schema(schema_id=1, fields=copy.deepcopy(fields))
        try:
            dfm.validate_records_strict(copy.deepcopy(recs), schema)
            ok = True
        except ValueError:
            ok = False
        rcases.append((fields, recs))
        rimpl.append(ok)
        rexprs.append(f"forallb (validate_record {fields_coq(fields)}) [" + "; ".join(record_coq(r) for r in recs) + "]")
        ctx.count(1, ("records", repr(fields), repr(recs)))
    for ri in range(n):
        if not guarded(ctx, f"corr-records:{ri}", {"kind": "hang", "where": "corr-records", "iteration": ri}, lambda: one_batch(ri), 20.0)[0]:
            break
    got4 = coqbuild.coq_eval(REQ, rexprs)
    bad = [{"fields": f, "records": [enc_record(r) for r in rs], "impl": i, "model": g}
           for (f, rs), i, g in zip(rcases, rimpl, got4) if i != g]
    ctx.correspondence("records", len(rcases), bad)
    ctx.stats["records_valid"] = sum(1 for x in rimpl if x)


def _decode_bound_indep(raw: str) -> Any:
    """Independent decoder of the tagged bound encoding written into manifests."""
    p = json.loads(raw)
    t, v = p["t"], p["v"]
    if t == "bool":
        return bool(v)
    if t == "int":
        return int(v)
    if t == "float":
        return float(v)
    if t == "ts":
        return dt.datetime.fromisoformat(v)
    if t == "date":
        return dt.date.fromisoformat(v)
    if t == "time":
        return dt.time.fromisoformat(v)
    return str(v)


def bound_id(k: Any) -> int:
    """The field id a stored bound is keyed by (manifests store the keys as strings)."""
    try:
        return int(k)
    except (TypeError, ValueError):
        raise NotModelled(f"a stored bound is keyed by {k!r}, which is no integer") from None


def classify(ev: Dict[str, Any]) -> int:
    if ev["outcome"] == "accepted":
        return 0
    msg = ev.get("message", "")
    if msg.startswith("Provided schema does not match"):
        return 2
    if msg.startswith("No schema available"):
        return 1
    if ev.get("error") == "ValueError" and msg.startswith("Record "):
        return 3
    if msg.startswith("injected commit failure"):
        return 5
    if ev.get("error") == "ValueError" and msg.startswith("Data file ") and "does not match the" in msg:
        return 6                                     # the file just written failed append_files' re-check
    if "injected storage fault" in msg:
        return 7
    return 4


def corr_machine(ctx, runs: List[Tuple[Dict[str, Any], Dict[str, Any]]]) -> None:
    """The e2e histories through the append machine, with pyarrow's observed conversions as the oracle."""
    tags = arrow_tags()
    exprs, kept, impl = [], [], []
    skipped = 0
    nopens = ncaches = 0
    def one(case: Dict[str, Any], res: Dict[str, Any]) -> None:
        nonlocal nopens, ncaches
        steps = case["steps"][:len(res["trace"])]
        # conversion table: every type in play x every cell value in play
        ptypes = {resolved_type(f["type"]) for f in case["fields"]}
        values: List[Any] = [None]
        for st in steps:
            for f in (st["arg"] or []) + ((st.get("open") or {}).get("arg") or []) + ((st.get("also_open") or {}).get("arg") or []):
                ptypes.add(resolved_type(f["type"]))
            for r in st["records"]:
                for v in r.values():
                    if not any(same_cell(v, w) and type(v) is type(w) for w in values):
                        values.append(v)
        tab = []
        for t in sorted(ptypes):
            for v in values:
                tab.append(f"(arrow_of_ctype {ctype_coq(t)}, {pyval_to_coq(v)}, {opt_pyval_coq(real_conv(t, v))})")
        conv = "(conv_tab [" + "; ".join(tab) + "])"
        fresh_id = 10
        extra_id = 100
        evs = []
        obs = []
        for st, ev in zip(steps, res["trace"]):
            if st["handle"] == "fresh":
                h = fresh_id
                fresh_id += 1
            else:
                h = {"A": 0, "B": 1}[st["handle"]]
            # handle provenance: the openings performed right before the append, and the caches observed after it
            opens, rcs = [], []
            if st.get("also_open"):
                extra_id += 1
                opens.append(f"({extra_id}%Z, {opener_coq(st['also_open'], ev.get('also_open_failed', False), case['fields'])})")
                rc = cache_coq(ev.get("cache_extra"), tags)
                if rc is not None:
                    rcs.append(f"({extra_id}%Z, {rc})")
            if st.get("open") or st["handle"] == "fresh":
                opens.append(f"({h}%Z, {opener_coq(st.get('open'), ev.get('open_failed', False), case['fields'])})")
            rc = cache_coq(ev.get("cache"), tags)
            if rc is not None:
                rcs.append(f"({h}%Z, {rc})")
                ncaches += 1
            if st["arg"] is not None and not int_ids(st["arg"]):
                # the argument object could not even be built (Schema refuses ids that are no ints): no append took
                # place, nothing to step the model with -- provided that is what happened and no handle was opened
                if ev["outcome"] == "rejected" and "is not an integer" in ev.get("message", "") and not opens:
                    continue
                raise NotModelled("an append went ahead with a schema argument whose field ids are no integers")
            stale = st.get("build", "fresh") != "fresh" and st["arg"] != case["fields"]
            arg = f"(Some {ischema_coq(st['sid'], st['arg'], stale)})" if st["arg"] is not None else "None"
            recs = "[" + "; ".join(record_coq({k: v for k, v in r.items()}) for r in st["records"]) + "]"
            real_files = []
            for f in ev["files"]:
                footer = "[" + "; ".join(f"({NAME_NUM[n]}%Z, {arrow_tag(ty, tags)}%Z, {b2c(nl)})" for n, ty, nl in f["schema"]) + "]"
                rows = "[" + "; ".join("[" + "; ".join(f"({NAME_NUM[k]}%Z, {pyval_to_coq(v)})" for k, v in r.items()) + "]" for r in f["rows"]) + "]"
                lo = "[" + "; ".join(f"(({bound_id(k)})%Z, {val_to_coq(_decode_bound_indep(v))})" for k, v in (f["lo"] or {}).items()) + "]"
                hi = "[" + "; ".join(f"(({bound_id(k)})%Z, {val_to_coq(_decode_bound_indep(v))})" for k, v in (f["hi"] or {}).items()) + "]"
                real_files.append(f"({footer}, {rows}, {lo}, {hi})")
            evs.append(f"([{'; '.join(opens)}], {{| e_handle := {h}%Z; e_arg := {arg}; e_recs := {recs}; e_commit_ok := {b2c(not st.get('commit_fails'))} |}}, "
                       f"[{'; '.join(real_files)}], [{'; '.join(rcs)}])")
            nopens += len(opens)
            obs.append((classify(ev), ev["nsnaps"], ev["store"], len(ev["files"]), True, ev["scan"] != "raises", True))
        exprs.append(f"htrace {conv} (init (Some {ischema_coq(1, case['fields'])})) [{'; '.join(evs)}]")
        kept.append(case)
        impl.append(obs)
    for case, res in runs:
        if not res["trace"]:
            continue
        try:
            one(case, res)
        except NotModelled:
            skipped += 1
    got = coqbuild.coq_eval(REQ, exprs, chunk=8)
    bad = []
    nsteps = 0
    for case, i, g in zip(kept, impl, got):
        g2 = [tuple(x) for x in g]
        nsteps += len(i)
        if g2 != i:
            k = next((n for n, (a, b) in enumerate(zip(i, g2)) if a != b), None)
            bad.append({"case": case_json(case), "first_differing_step": k,
                        "impl (outcome, snapshots, stored files, current files, files match, scan ok, handle caches match)": i[k] if k is not None else i,
                        "model": g2[k] if k is not None else g2})
    ctx.correspondence("machine", len(kept), bad)
    ctx.stats["machine_steps"] = nsteps
    ctx.stats["machine_openings"] = nopens
    ctx.stats["machine_handle_caches_compared"] = ncaches
    ctx.stats["machine_cases_not_modelled"] = skipped


def claim_coq(d: Optional[Dict[Any, Any]]) -> str:
    """Caller-supplied DataFile.lower_bounds / upper_bounds as Model/SchemaTx.v pf_lo / pf_hi (the model never looks
    inside: what is stored is recomputed from the file)."""
    if d is None:
        return "None"
    ents = []
    for k, v in d.items():
        try:
            ents.append(f"(({int(k)})%Z, {val_to_coq(v)})")
        except Exception:                            # noqa: BLE001 - a claimed value outside the shared value domain
            continue
    return "(Some [" + "; ".join(ents) + "])"


def pclaims_coq(meta: Optional[str], fo: Dict[str, Any]) -> str:
    """The other caller-supplied fields of a pre-built DataFile as Model/SchemaTx.v pclaims: the keys of the statistics
    maps (Some z: int(str(k)) = z; None: str(k) does not read back as an int), whether a supplied checksum is the
    file's, the supplied record_count (a count that is no int: 0 -- the model never looks at it)."""
    import hashlib
    from harness.lib.c11_tx import meta_kwargs
    if not meta:
        return "no_claims"
    full = os.path.join("/nonexistent", fo.get("path", ""))
    kw = meta_kwargs(meta, [{"id": 1}, {"id": 2}, {"id": 3}], full, len(fo.get("rows", [])))
    keys = []
    for m in ("column_sizes", "value_counts", "null_value_counts"):
        for k in (kw.get(m) or {}):
            try:
                keys.append(f"(Some ({int(str(k))})%Z)")
            except ValueError:
                keys.append("None")
    if "checksum" in kw:
        csum = "(Some true)" if meta == "checksum_true" else "(Some false)"
    else:
        csum = "None"
    cnt = kw.get("record_count", max(1, len(fo.get("rows", []))))
    cnt = cnt if isinstance(cnt, int) else 0
    return f"{{| pc_stat_keys := [{'; '.join(keys)}]; pc_sum := {csum}; pc_count := ({cnt})%Z |}}"


def fault_coq(spec: Optional[Dict[str, Any]], collecting: Optional[str] = None) -> Optional[str]:
    """The model's name for what a call meets (Model/SchemaTx.v fault); "" when there is nothing; None when it is not
    modelled (a bounded number of failing operations, other planes, a window AND an announced collection run)."""
    if collecting in ("announced", "garbage"):
        return None if spec else "FCollecting"
    if not spec:
        return ""                                    # (an expired announcement is no run in progress)
    if spec.get("count") is not None:
        return None
    start = spec.get("start", "call")
    if spec["plane"] == "metadata" and spec["ops"] in ("read", "all"):
        return {"call": "FBefore", "first-write": "FAfterWrite"}.get(start)
    if spec["plane"] == "inflight" and spec["ops"] in ("write", "all") and start == "call":
        return "FMarker"
    if spec["plane"] == "collecting" and spec["ops"] in ("read", "all") and start == "call":
        return "FAnnounce"
    if spec["plane"] == "data" and spec["ops"] == "read" and start == "first-write":
        return "FRecheck"
    return None


def corr_tx(ctx, runs: List[Tuple[Dict[str, Any], Dict[str, Any]]]) -> None:
    """The transaction histories through Model/SchemaTx.v (run_calls / end_tx), pyarrow's observed conversions
    as the oracle: per transaction the tags of its calls, snapshot count, library-written files on storage,
    every file of the current snapshot (footer, rows, bounds), scan_ok, and per call the number of in-flight markers
    of pre-built files it left behind (the GC-protection step of append_files: Model/SchemaTx.v call_marks)."""
    tags = arrow_tags()
    by_arrow = {}
    for t in TYPES:
        by_arrow.setdefault(str(real_arrow_type(t)), f"(APrim (arrow_of_type T_{t}))")
    exprs, kept, impl = [], [], []
    typed_exprs: List[str] = []                      # hypothesis pf_typed of C11_tx_history_filter, per pre-built file
    unmodelled = 0
    for case, res in runs:
        if not res["trace"]:
            continue
        txs = case["txs"][:len(res["trace"])]
        ptypes = {resolved_type(f["type"]) for f in case["fields"]}
        values: List[Any] = [None]
        for tx in txs:
            for c in tx["calls"]:
                if c["op"] != "records":
                    continue
                for f in (c["arg"] or []) + ((tx.get("open") or {}).get("arg") or []) + ((tx.get("also_open") or {}).get("arg") or []):
                    ptypes.add(resolved_type(f["type"]))
                for r in c["records"]:
                    for v in r.values():
                        if not any(same_cell(v, w) and type(v) is type(w) for w in values):
                            values.append(v)
        tab = [f"(arrow_of_ctype {ctype_coq(t)}, {pyval_to_coq(v)}, {opt_pyval_coq(real_conv(t, v))})" for t in sorted(ptypes) for v in values]
        conv = "(conv_tab [" + "; ".join(tab) + "])"
        fresh_id, pid, extra_id = 10, 1000, 100
        evs, obs = [], []
        ok = True
        for tx, tev in zip(txs, res["trace"]):
            if tx["handle"] == "fresh":
                h = fresh_id
                fresh_id += 1
            else:
                h = {"A": 0, "B": 1}[tx["handle"]]
            opens, rcs = [], []
            if tx.get("also_open"):
                extra_id += 1
                opens.append(f"({extra_id}%Z, {opener_coq(tx['also_open'], tev.get('also_open_failed', False), case['fields'])})")
                rc = cache_coq(tev.get("cache_extra"), tags)
                if rc is not None:
                    rcs.append(f"({extra_id}%Z, {rc})")
            if tx.get("open") or tx["handle"] == "fresh":
                opens.append(f"({h}%Z, {opener_coq(tx.get('open'), tev.get('open_failed', False), case['fields'])})")
            rc = cache_coq(tev.get("cache"), tags)
            if rc is not None:
                rcs.append(f"({h}%Z, {rc})")
            calls, ctags = [], []
            pids: Dict[Tuple[int, int], int] = {}
            for ci, (c, cev) in enumerate(zip(tx["calls"], tev["calls"])):
                ft = fault_coq(c.get("fault"), c.get("collecting"))
                if ft is None:
                    ok = False
                    unmodelled += 1
                    break
                if c["op"] == "records":
                    stale = c.get("build", "fresh") != "fresh" and c["arg"] != case["fields"]
                    arg = f"(Some {ischema_coq(c['sid'], c['arg'], stale)})" if c["arg"] is not None else "None"
                    calls.append((f"CRecordsF {ft} " if ft else "CRecords ") + f"{arg} [" + "; ".join(record_coq(r) for r in c["records"]) + "]")
                    ctags.append(classify(cev))
                else:
                    pfs = []
                    for fi, (spec, fo) in enumerate(zip(c["files"], cev.get("files", []))):
                        if spec["kind"] == "again":  # the SAME file as an earlier one of this transaction: same name
                            ref = tuple(spec["ref"])
                            while tx["calls"][ref[0]]["files"][ref[1]]["kind"] == "again":
                                ref = tuple(tx["calls"][ref[0]]["files"][ref[1]]["ref"])
                            spec = tx["calls"][ref[0]]["files"][ref[1]]
                            this_id = pids[ref]
                        else:
                            pid += 1
                            this_id = pid
                        pids[(ci, fi)] = this_id
                        if fo["footer"] is None:
                            foot = "None"
                        else:
                            try:
                                foot = "(Some [" + "; ".join(f"({NAME_NUM[n]}%Z, {by_arrow[ty]}, {b2c(nl)})" for n, ty, nl in fo["footer"]) + "])"
                            except KeyError:
                                ok = False
                                foot = "None"
                        rows = "[" + "; ".join("[" + "; ".join(f"({NAME_NUM[k]}%Z, {pyval_to_coq(v)})" for k, v in r.items()) + "]" for r in fo["rows"]) + "]"
                        if foot.startswith("(Some ") and fo["rows"] and len(typed_exprs) < (150 if ctx.tier == "quick" else 1500):
                            fl = foot[len("(Some "):-1]
                            typed_exprs.append(f"forallb (fun row => forallb (fun x => has_kind (colkind {fl} (fst (fst x))) (cell (vrow row) (fst (fst x)))) {fl}) {rows}")
                        k = spec["kind"]
                        claim = fo.get("claim") or (None, None)
                        pfs.append(f"{{| pf_id := {this_id}%Z; pf_canonical := {b2c(k != 'noncanonical')}; pf_exists := {b2c(k != 'missing')}; "
                                   f"pf_parquet := {b2c(k not in ('avro', 'orc_declared'))}; pf_footer := {foot}; pf_rows := {rows}; "
                                   f"pf_lo := {claim_coq(claim[0])}; pf_hi := {claim_coq(claim[1])}; pf_claims := {pclaims_coq(spec.get('meta'), fo)} |}}")
                    if len(pfs) != len(c["files"]):
                        ok = False
                    calls.append((f"CFilesF {ft} [" if ft else "CFiles [") + "; ".join(pfs) + "]")
                    ctags.append(0 if cev["outcome"] == "accepted" else (7 if "injected storage fault" in cev.get("message", "") else 6))
            end = {"commit": "EndCommit true", "commit_fails": "EndCommit false", "rollback": "EndRollback", "abandon": "EndAbandon"}[tx["end"]]
            # a claim the manifest writer itself refuses (partition_values keyed by an int: fastavro raises when the manifest
            # is built, before the commit point): the commit of that transaction fails -- the model's EndCommit false; that it
            # leaves no trace is judged by the tx oracle
            if tx["end"] == "commit" and str(tev.get("commit", "")).startswith("raised") and \
                    any(f.get("meta") == "partition_int_key" for c, cev in zip(tx["calls"], tev["calls"]) if c["op"] == "files" and cev["outcome"] == "accepted" for f in c["files"]):
                end = "EndCommit false"
            real_files = []
            for f in tev["files"]:
                try:
                    footer = "[" + "; ".join(f"({NAME_NUM[n]}%Z, {arrow_tag(ty, tags)}%Z, {b2c(nl)})" for n, ty, nl in f["schema"]) + "]"
                except KeyError:
                    ok = False
                    footer = "[]"
                rows = "[" + "; ".join("[" + "; ".join(f"({NAME_NUM[k]}%Z, {pyval_to_coq(v)})" for k, v in r.items()) + "]" for r in f["rows"]) + "]"
                try:
                    lo = "[" + "; ".join(f"(({bound_id(k)})%Z, {val_to_coq(_decode_bound_indep(v))})" for k, v in (f["lo"] or {}).items()) + "]"
                    hi = "[" + "; ".join(f"(({bound_id(k)})%Z, {val_to_coq(_decode_bound_indep(v))})" for k, v in (f["hi"] or {}).items()) + "]"
                except NotModelled:
                    ok = False
                    lo = hi = "[]"
                real_files.append(f"({footer}, {rows}, {lo}, {hi})")
            evs.append(f"([{'; '.join(opens)}], {{| t_handle := {h}%Z; t_calls := [{'; '.join(calls)}]; t_end := {end} |}}, [{'; '.join(real_files)}], [{'; '.join(rcs)}])")
            obs.append((ctags, tev["nsnaps"], tev["store"], len(tev["files"]), True, tev["scan"] != "raises", True,
                        [cev.get("marks", 0) for cev in tev["calls"]]))
        if not ok:
            continue
        exprs.append(f"thtrace {conv} (init (Some {ischema_coq(1, case['fields'])})) [{'; '.join(evs)}]")
        kept.append(case)
        impl.append(obs)
    got = coqbuild.coq_eval(REQ, exprs, chunk=8)
    from harness.lib.c11_tx import tx_case_json
    bad = []
    ntx = 0
    for case, i, g in zip(kept, impl, got):
        g2 = [(list(x[0]),) + tuple(x[1:7]) + (list(x[7]),) for x in g]
        ntx += len(i)
        if g2 != i:
            k = next((n for n, (a, b) in enumerate(zip(i, g2)) if a != b), None)
            bad.append({"case": tx_case_json(case), "first_differing_tx": k,
                        "impl (call tags, snapshots, library files stored, current files, files match, scan ok, handle caches match, "
                        "markers of pre-built files left per call)": i[k] if k is not None else i,
                        "model": g2[k] if k is not None else g2})
    ctx.correspondence("transactions", len(kept), bad)
    # pf_typed (hypothesis of C11_tx_history_filter): every cell pyarrow reads from a parquet column has the kind of the
    # column's footer type -- on the pre-built files of these histories
    tgot = coqbuild.coq_eval(REQ_P, typed_exprs)
    ctx.correspondence("pf_typed", len(typed_exprs), [{"file": e[:400]} for e, g in zip(typed_exprs, tgot) if g is not True])
    ctx.stats["tx_corr_transactions"] = ntx
    ctx.stats["tx_corr_cases_with_unmodelled_fault_window"] = unmodelled


# ---------------------------------------------------------------------------------- driver
def run(ctx) -> None:
    ctx.rule = ("e2e: random histories (3-6 append attempts) over 1-3 column schemas of 12 primitive types (+ spellings incl. list<e>, "
                "field ids written as other objects, column names that are the str() of a non-str key) x 25 schema-argument "
                "variants x {reused A, reused B, fresh} handles x batches drawn from a pool of value classes; a history is "
                "distinct by (case index, step); handle provenance: each step's handle may be re-obtained (load_table / "
                "create_table / Table(...) x schema-argument variants x schema ids x build modes) and further handles opened; "
                "cells: 12 types x value pool; after every step the independent reader "
                "and full + filtered scans judge the property")
    ctx.trusted_base += [
        "translator/gen_schema.py (literal tables and the signature's shape from the source; other functions pinned by golden AST)",
        "translator/gen_open.py (the actions of create_table / load_table / Table.__init__ from the source, helpers inlined; "
        "_get_current_schema read-only, _arrow_schema_cache touched only by DataFileManager.__init__ / create_arrow_schema: checked, fail-closed)",
        "hypothesis conv_sound (C11_exact_partial, C11_tx_exact_partial, C11_handles_exact_partial): pyarrow stores an admitted value as Model/Schema.v canon_c or raises -- validated by the 'conv_sound' correspondence",
        "hypotheses conv_kinds (filter / bounds_true theorems) and pf_typed (C11_tx_history_filter): a cell pyarrow converts / reads from parquet has the kind of its column's Arrow type -- validated by the 'conv_kinds' and 'pf_typed' correspondences",
        "rnd32 = IEEE binary32 round-to-nearest-even (struct.pack('f')), a parameter of canon",
        "harness: harness/props/c11.py, harness/lib/c11_values.py (independent reader, reference judgement `exact`)",
    ]
    ctx.assumptions += ["the table has a persisted, non-empty schema (create_table(path, schema)); legacy tables enforce nothing",
                        "handles are obtained on a table that already exists (Table.__init__ initialises only when refresh() is None: pinned by gen_open.py)",
                        "field names and ids unique within a schema, ids integers (enforced by Schema.__post_init__, and again by "
                        "append_data on the argument object as it is at the call; pinned by the translator)",
                        "field names are strs (a Schema whose field name is no str is accepted by the constructor; every append to it raises)",
                        "a pre-built file is handed to append_files at most once per table (the model recognises a file by its name only where "
                        "the code does for the outcome of a call: the GC-protection step skips a file the transaction already holds a marker for; "
                        "its scans list a file queued twice twice, the read path reads a path once)",
                        "column types are the primitive types of Schema.__post_init__ and list<...> of them ({'type': 'list<e>'}); every other definition is a string column",
                        "C11_tx_history_filter: every cell of a pre-built parquet file's column has the kind of the column's footer type (pf_typed)",
                        "C13: pruning by bounds stored under the looked-up id never changes a filtered scan (composed in C11_history_filter)"]
    ctx.proofs(THEOREMS, gen_files=["GenSchema.v", "GenPrune.v", "GenOpen.v"])
    ctx.allow_axioms([])
    oracle_cells(ctx)
    oracle_spelling(ctx)
    oracle_objects(ctx)
    ik_runs = oracle_ids_keys(ctx)
    oracle_prebuilt(ctx)
    h_runs, h_tx_runs = oracle_handles(ctx)
    runs = oracle_e2e(ctx) + h_runs + ik_runs
    tx_runs = oracle_tx(ctx) + h_tx_runs
    tx_runs += oracle_faults(ctx)
    guarded(ctx, "legacy-probe", {"kind": "hang", "where": "probe_legacy"}, lambda: probe_legacy(ctx), 60.0)
    # correspondence needs the model to build
    try:
        corr_accept_arrow(ctx)
        corr_records(ctx)
        corr_machine(ctx, runs)
        corr_tx(ctx, tx_runs)
    except RuntimeError as e:
        ctx.proof_problems.append("model evaluation failed: " + str(e)[:600])
    ctx.stats["bounded_execution"] = {"cases_hung_or_died": _BOUNDED["bad"], "cases_skipped_after_hang_budget": _BOUNDED["skipped"],
                                      "worker_restarts": _WORKER.restarts if _WORKER else 0}


def replay_correspondence(ctx, payload) -> int:
    """A replay file written for a broken correspondence (kind no-failing-input-found): print every recorded
    disagreement IN FULL (the check's own output shows the first 600 characters only) and run the recorded transaction
    histories again through the real library and through the model, side by side, per transaction."""
    from harness.lib.c11_tx import tx_case_unjson
    broken = payload.get("broken_correspondence", {})
    for p in payload.get("broken_theorems_or_build", []):
        print("  proof / build:", p)
    for name, ds in broken.items():
        print(f"correspondence {name}: {len(ds)} disagreement(s) recorded (at most 5 are kept)")
        for n, d in enumerate(ds):
            print(f"--- {name} disagreement {n}")
            for k, v in d.items():
                if k == "case" and isinstance(v, dict) and v.get("kind") == "tx":
                    print(f"  case: fields={json.dumps(v['fields'])} seed={v.get('seed')}")
                    for ti, tx in enumerate(v["txs"]):
                        print(f"    tx {ti}: handle={tx['handle']} end={tx['end']}" + "".join(f" {o}={json.dumps(tx[o])}" for o in ("open", "also_open") if tx.get(o)))
                        for ci, c in enumerate(tx["calls"]):
                            print(f"      call {ci}: {json.dumps(c)}")
                else:
                    print(f"  {k}: {json.dumps(v)}")
    still = 0
    for n, d in enumerate(broken.get("transactions", [])):
        if not (isinstance(d.get("case"), dict) and d["case"].get("kind") == "tx"):
            continue
        case = tx_case_unjson(d["case"])
        res = bounded_case(case, os.path.join(ctx.scratch, "replay"), 1)
        print(f"--- transactions disagreement {n}, run again now")
        for tev in res["trace"]:
            print("  impl  tx", tev["tx"], tev["handle"], [(c["op"], c["outcome"], c.get("error", ""), c.get("message", "")[:100], "marks=%d" % c.get("marks", 0))
                                                     for c in tev["calls"]], "->", tev["commit"], "snapshots:", tev["nsnaps"], "scan:", tev["scan"])
        for k, w in res["violations"]:
            print("  impl  ORACLE", k, "-", w)
        before = len(ctx.corr.get("transactions", {}).get("disagreements", []))
        corr_tx(ctx, [(case, res)])
        now = ctx.corr.get("transactions", {}).get("disagreements", [])[before:]
        if now:
            still += 1
            for x in now:
                print("  STILL DISAGREES at tx", x.get("first_differing_tx"))
                for k, v in x.items():
                    if k not in ("case", "first_differing_tx"):
                        print(f"    {k}: {json.dumps(v)}")
        else:
            print("  model and implementation agree on this history now (or a call of it meets a window that is not modelled)")
    if broken.get("transactions") is not None:
        ctx.corr.pop("transactions", None)
        ctx.corr.pop("pf_typed", None)
    print("replay: STILL FAILS" if still else "replay: passes now" if broken.get("transactions") else "replay: nothing replayable (see the text above)")
    return 1 if still else 0


def replay(ctx, payload) -> int:
    if payload.get("kind") == "no-failing-input-found":
        return replay_correspondence(ctx, payload)
    case = payload.get("case", {})
    if case.get("kind") == "history":
        c = case_unjson(case["case"])
        res = bounded_case(c, os.path.join(ctx.scratch, "replay"))
        if res.get("refused"):
            print("  the table schema itself is refused:", res["refused"])
        for ev in res["trace"]:
            print("  step", ev["step"], ev["variant"], ev["handle"], ev["outcome"], ev.get("error", ""), "scan:", ev["scan"])
        if res["violations"]:
            for k, w in res["violations"]:
                print("replay: STILL FAILS", k, "-", w)
            return 1
        print("replay: passes now")
        return 0
    if case.get("kind") == "tx-history":
        from harness.lib.c11_tx import tx_case_unjson
        res = bounded_case(tx_case_unjson(case["case"]), os.path.join(ctx.scratch, "replay"), 1)
        for tev in res["trace"]:
            print("  tx", tev["tx"], tev["handle"], [(c["op"], c["outcome"], c.get("error", "")) for c in tev["calls"]], "->", tev["commit"],
                  "snapshots:", tev["nsnaps"], "scan:", tev["scan"])
        if res["violations"]:
            for k, w in res["violations"]:
                print("replay: STILL FAILS", k, "-", w)
            return 1
        print("replay: passes now")
        return 0
    if case.get("kind") == "prebuilt":
        oracle_prebuilt(ctx, only=case["footer"])
        if ctx.violations:
            for v in ctx.violations:
                print("replay: STILL FAILS", v["key"], "-", v["what"])
            return 1
        print("replay: passes now")
        return 0
    print("replay: payload kind not replayable directly; re-run ./bin/check C11 thorough")
    return 2
