"""C06 -- Garbage collection is safe against concurrently committing transactions.

Proof      : coq/Props/C06.v over Model/GCRace.v: for every interleaving of collection runs (each shorter than its
             grace period) with transactions that write, commit, retry or roll back -- any amount of time may pass at
             any point of a transaction, in particular between the registration of a marker and the moment its file is
             in place (a slow write), and files may be arbitrarily older than the grace period when they commit --
             referenced files and in-flight files are never deleted, for every file whose marker no run treated as
             abandoned (C06_gc_race_safe); a marker is treated as abandoned only when it is older than the abandonment
             timeout, whatever the grace period and whether or not its file exists yet (C06_swept_only_abandoned), and
             stays in place until then (C06_unswept_marker_kept).  The unit of the model is a marker-protected FILE
             (data file, manifest, manifest list).  The collector's decisions are not modelled by hand: the marker age
             test / action of _load_inflight_protection and the cutoff / deletion guard of _gc_prefix are REGENERATED
             from garbage_collector.py (translator/gen_gcrace.py -> Gen/GenGCRace.v, fail-closed) and the machine and
             the invariant proof are stated over them (C06_marker_kernel, C06_delete_kernel are their interface).
             The proof rests on the ORDER of the collector's reads: protection markers first, then metadata.
             PRE-BUILT files (Transaction.append_files) exist before their transaction and may be older than any grace
             period: the machine has them staged with any age and adopted by marker + a look for an ANNOUNCED collection
             run (Table.garbage_collect announces a run before it loads the markers; adoption is refused while one is
             announced) -- repair ae2d4aa; adoption as the code did it before (no marker, no handshake) refutes the
             statement (C06_unmarked_adoption_refuted: the counter-run, 4 ms against a grace period of 1 h).
             The TRANSACTION's side of that contract -- a file is published only while its marker is in place -- is the
             marker LEDGER of one transaction (Model/TxMarkers.v): written files, ADOPTED pre-built files, the manifests of the
             attempt in progress, through any number of commit attempts that LOSE the OCC race and are retried; at every step
             up to and including the pointer flip the transaction holds a marker for every file it is going to publish
             (C06_tx_markers_cover_payload, by induction over the history) -- stated over kernels REGENERATED from transaction.py
             (translator/gen_txmarkers.py -> Gen/GenTxMarkers.v: which methods grow / drop self._inflight_markers, which methods
             are reachable from the RETRY arm of commit's conflict handler, registration before write / before queueing);
             C06_tx_markers_cover_payload_kernels is the statement for any kernels that protect and do not drop on retry, and
             C06_dropping_retry_refuted shows the condition is necessary (a retry arm that drops publishes an unmarked file), and
             C06_dropped_marker_loses_file what that costs on the collector x transactions machine (Model/GCRaceDrop.v: an adopted
             file 10 h old, its marker dropped by the lost attempt, is deleted by a 4 ms run before the retry publishes it).
Tie        : the real GarbageCollector.collect runs as an actor under the scheduler against real transactions on the
             local backend in VIRTUAL time (time.time in the collector, datetime in the library, and file modification
             times all come from the scheduler clock, so 'five hours pass' is one schedule event); the storage log is
             projected onto the model's events per file (marker write, file write, flip, marker removal, abandoning the
             manifests of a lost attempt, rollback; marker load, marker deletion by the collector, metadata read,
             listing, deletion) and `grun_strict` must accept it -- in particular the collector must load the markers
             BEFORE it reads the metadata, and may delete a marker only when the regenerated kernel says so.
Oracle     : at the end every file referenced by every retained snapshot exists (independent reader), for every run
             whose collection lasted less than the grace period and in which no transaction outlived the abandonment
             window.  Schedules: bounded-preemption enumeration, random, and directed families -- old file at commit,
             OCC retry window, two collection runs, ambiguous (delayed) pointer write, long run / long grace, grace
             boundary crossing, long-open transaction, clock jumps at EVERY point of a transaction (slow writes of the
             data file / manifest / manifest list) with a collection run inside the gap and a second one later,
             transactions beyond the abandonment window (traced against the model, not judged), random two-run
             interleavings with four clock jumps; transactions that ADOPT a pre-built file ten hours old
             (append_files + commit) at every point of a collection run; CONTENTION (directed_contended): a transaction of any
             kind -- appending, ADOPTING a 10 h old pre-built file, or both in one transaction -- loses the OCC race to another
             writer and retries, with the collector's steps placed between every two steps of the lost attempt and of the whole
             retry (j steps of the committer, k of the collector, m of the committer, rest).  An adoption that append_files refuses (run in
             progress, or the orphan was already collected) is an accepted outcome: nothing references the file.
"""
from __future__ import annotations

import os
import random as _r
import shutil
from typing import Any, Dict, List, Optional, Tuple

from harness.lib import coqbuild, protocol as P, sched as S
from harness.props import c01

LEVEL = "proof"
THEOREMS = ["C06_gc_race_safe", "C06_swept_only_abandoned", "C06_unswept_marker_kept", "C06_marker_kernel", "C06_delete_kernel",
            "C06_unmarked_adoption_refuted",
            "C06_tx_markers_cover_payload", "C06_tx_markers_cover_payload_kernels", "C06_dropping_retry_refuted",
            "C06_dropped_marker_loses_file",
            "C06_marker_key_injective", "C06_basename_marker_collision_refuted"]
REQ = ["DS.Model.GCRace"]
REQ_LEDGER = ["DS.Gen.GenTxMarkers", "DS.Model.TxMarkers"]
MANIFEST_ENTRY = {
    "level_text": "C06_gc_race_safe proved in Coq by an inductive invariant over every interleaving of collector steps, "
                  "transaction steps on any number of marker-protected files (data files, manifests, manifest lists; slow writes: "
                  "any time between a marker and its file; retries abandoning the lost attempt's manifests; rollbacks) and clock "
                  "ticks, several runs, under the property's proviso (run shorter than grace), for every file whose marker no run "
                  "treated as abandoned; pre-built files of any age adopted by append_files (marker + refusal while a collection run "
                  "is announced; C06_unmarked_adoption_refuted: the unrepaired adoption violates the statement); C06_swept_only_abandoned / C06_unswept_marker_kept: a marker is deleted by the collector "
                  "only when older than the abandonment timeout and stays in place until then; the collector's marker-age and "
                  "deletion kernels are regenerated from garbage_collector.py (GenGCRace.v) and the proofs are stated over them; "
                  "C06_tx_markers_cover_payload: the marker ledger of one transaction (written + adopted files + manifests of the attempt "
                  "in progress, any number of lost OCC attempts and retries) covers everything it is going to publish at every step up to "
                  "the flip, over kernels regenerated from transaction.py (GenTxMarkers.v: who grows / drops the marker list, what the "
                  "retry arm of commit reaches); C06_dropping_retry_refuted: a retry arm that drops markers publishes an unmarked file; "
                  "C06_marker_key_injective: the machines give every file its OWN marker, which is a fact about the code iff the marker key "
                  "_register_inflight writes is injective in the file's table-relative path -- proved of the function REGENERATED from "
                  "transaction.py (GenNorm.v register_marker_path); C06_basename_marker_collision_refuted: with the key made from the basename "
                  "(the unchanged library, written down by hand) two accepted files share one marker, the second is adopted unmarked; "
                  "the real collector and real transactions run under the deterministic scheduler in virtual time and their "
                  "storage log must be accepted by the model's strict run (markers before metadata; marker deletions only as the "
                  "regenerated kernel allows); an implementation-only oracle re-reads every retained snapshot",
    "level_note": "NOT proved (second audit F2-F4, open): the machine's TAdopt is enabled only while no run is announced, whereas the code ignores "
                  "an announcement older than its grace period (equivalent under the proviso 'run shorter than grace' only); gen_retry_arm_drops "
                  "inspects the else-arm of the conflict handler only; the order marker / announcement check / existence re-check inside "
                  "_protect_adopted_files is modelled by hand; markers-before-metadata is hard-wired in GCRace.v (MARKERS_FIRST is used by GC.v only); "
                  "trusted: Coq kernel; translator/gen_gcrace.py, translator/gen_txmarkers.py, translator/gen_norm.py (fail-closed; the latter classifies uses of "
                  "self._inflight_markers syntactically and over-approximates reachability by every self.<method> mentioned); scheduler harness with virtual clock and virtual "
                  "modification times; transactions younger than the 24 h abandonment window (older ones are traced against the "
                  "model but not judged: the code deliberately stops protecting them)",
    "technique": "Coq invariant proof over a collector x transactions machine stated over regenerated collector kernels + "
                 "scheduled trace validation in virtual time (clock jumps at every point of a transaction, two collection runs, "
                 "adoption of old pre-built files at every point of a run -- also several per transaction and one each in two transactions, in sub-directories of data/ with equal basenames; adopting / writing+adopting committers that lose the OCC race, "
                 "collector at every step of the retry) + per-transaction marker-ledger trace validation",
    "design_ref": "DESIGN.md section 5 C06",
}

GRACE = 1000
ABANDON_MS = 24 * 3600 * 1000        # the documented abandonment window of in-flight markers (24 h)
COLLECTING = "metadata/collecting"   # announcements of collection runs in progress
STAGED_AGE_MS = 10 * 3600 * 1000     # age of a pre-built file when the schedule starts (older than every grace period used)
FIELDS = [{"id": 1, "name": "x", "type": "long", "required": False}]
ADOPTING = ("adopt", "mixed")        # transaction kinds that adopt a pre-built file (append_files)


def adopted_names(i: int, spec: Dict[str, Any]) -> List[str]:
    """The pre-built files transaction i adopts, as paths below data/ (default: one file directly under data/)."""
    return list(spec.get("files") or [f"prebuilt_{i}.parquet"])


INFLIGHT_DIR = "metadata/inflight/"


def marker_stem(path: str) -> str:
    """What a marker's KEY says, independent of how the library names markers: the key below metadata/inflight/ without the
    '.inflight' suffix."""
    p = path.lstrip("/")
    p = p[len(INFLIGHT_DIR):] if p.startswith(INFLIGHT_DIR) else p
    return p[:-len(".inflight")] if p.endswith(".inflight") else p


def marker_file(path: str, known: Any) -> str:
    """The table-relative path of the file a marker KEY stands for.  A key that spells a whole table-relative path names that
    file; a bare name names the file of that basename a transaction of this run is known to handle (the first such file: the
    payload of a marker that is not re-written is the first registration's), else the file of that name under data/ or -- the
    manifests and lists of a commit -- metadata/manifests/."""
    stem = marker_stem(path)
    if "/" in stem:
        return stem
    for k in known:
        if k.rsplit("/", 1)[-1] == stem:
            return k
    return ("metadata/manifests/" if stem.startswith("manifest") else "data/") + stem


def yield_filter(op: str, path: str, phase: tuple) -> bool:
    if P.protocol_yield_filter(op, path, phase):
        return True
    if op in ("list_files", "get_modified_time", "Tick", "Land"):
        return True
    if op in ("read_file", "open_file") and any(p.startswith("GarbageCollector.") for p in phase):
        return True
    if op == "write_file" and P.path_class(path) in ("marker", "manifest", "mlist"):
        return True
    if op == "write_file" and path.lstrip("/").startswith(COLLECTING):
        return True                                   # a collection run announces itself
    return False


def run_case(ctx, txns: List[Dict[str, Any]], chooser_factory, age_jump: int, second_gc: bool = False,
             delayed_flip: bool = False, grace: int = 0, jumps: Optional[List[int]] = None) -> Dict[str, Any]:
    grace = grace or GRACE
    """delayed_flip: the storage answers transaction 0's pointer write with a timeout and applies it LATER (actor N lands
    it): an ambiguous commit outcome on a store whose write failures are not atomic."""
    """txns: [{"kind": "append"|"rollback", "rows": [...]}]; actor G = collector; actor K = the clock (jumps by age_jump)."""
    import datashard
    import datashard.garbage_collector as gcmod
    from datashard.data_structures import Schema
    from datashard.storage_backend import LocalStorageBackend
    sc = S.Scheduler()
    sc.yield_filter = yield_filter
    root = os.path.join(ctx.scratch, "c06")
    shutil.rmtree(root, ignore_errors=True)
    vmtime: Dict[str, float] = {}

    pending_flip: Dict[str, Any] = {}

    class AmbiguousLocal(LocalStorageBackend):
        """A local directory behind a network: a failed write may still land."""
        @property
        def atomic_write_failures(self) -> bool:      # type: ignore[override]
            return False

    def factory(tp: str) -> Any:
        raw = AmbiguousLocal(tp) if delayed_flip else LocalStorageBackend(tp)
        if delayed_flip:
            raw_write = raw.write_file

            def lossy_write(path: str, content: bytes) -> None:
                me = sc.me()
                if me is not None and me.name == "A0" and path.endswith(P.HINT) and "done" not in pending_flip:
                    pending_flip["done"] = False
                    pending_flip["land"] = lambda: raw_write(path, content)
                    raise TimeoutError("injected: no answer to the pointer write (it lands later)")
                return raw_write(path, content)
            raw.write_file = lossy_write
        b = S.instrument_backend(sc, raw)
        real_mtime = b.get_modified_time
        real_write = b.write_file

        def write_file(path: str, content: bytes) -> None:
            real_write(path, content)
            vmtime[path.lstrip("/")] = sc.clock_ms / 1000.0

        def get_modified_time(path: str) -> float:
            real_mtime(path)                                  # existence / containment checks still apply
            return vmtime.get(path.lstrip("/"), 0.0)
        b.write_file = write_file
        b.get_modified_time = get_modified_time
        return b

    class VTime:
        def __getattr__(self, name: str) -> Any:
            import time as _t
            return getattr(_t, name)

        @staticmethod
        def time() -> float:
            return sc.clock_ms / 1000.0
    out: Dict[str, Any] = {}
    saved_time = gcmod.time
    with S.patched(sc, factory, shared_rlock=True):
        gcmod.time = VTime()
        import datashard.data_operations as dops
        real_wdf = dops.DataFileManager.write_data_file

        def wdf(self: Any, *a: Any, **kw: Any) -> Any:
            r = real_wdf(self, *a, **kw)
            fp = kw.get("file_path", a[0] if a else "")
            vmtime[str(fp).lstrip("/")] = sc.clock_ms / 1000.0
            return r
        dops.DataFileManager.write_data_file = wdf
        try:
            t0 = datashard.create_table(root, Schema(schema_id=1, fields=FIELDS))
            t0.append_records([{"x": -1}])
            # pre-built files for the transactions that adopt one (Transaction.append_files): a copy of the table's own
            # first data file (same schema, one row), in place long before the schedule starts
            staged: Dict[str, Dict[str, Any]] = {}
            first = sorted(os.listdir(os.path.join(root, "data")))[0]
            for i, spec in enumerate(txns):
                if spec["kind"] in ADOPTING:
                    for name in adopted_names(i, spec):
                        # `name` is the path below data/: any canonical path there is accepted by append_files, in particular
                        # sub-directories (partition layouts), where two files of one table share their BASENAME
                        os.makedirs(os.path.dirname(os.path.join(root, "data", name)), exist_ok=True)
                        shutil.copy(os.path.join(root, "data", first), os.path.join(root, "data", name))
                        vmtime[f"data/{name}"] = (sc.clock_ms - STAGED_AGE_MS) / 1000.0
                        staged[name] = {"tx": i, "mtime_ms": sc.clock_ms - STAGED_AGE_MS,
                                        "size": os.path.getsize(os.path.join(root, "data", name))}
            out["staged"] = staged
            out["kinds"] = {f"A{i}": spec["kind"] for i, spec in enumerate(txns)}
            sc.clock_ms += 10
            sc.log.clear()
            gc_window: Dict[str, int] = {}

            def tx_body(i: int, spec: Dict[str, Any]):
                def body() -> Any:
                    t = datashard.load_table(root)
                    if spec["kind"] == "append":
                        t.append_records(spec["rows"])
                        return "ok"
                    if spec["kind"] == "adopt":
                        from datashard.data_structures import DataFile, FileFormat
                        t.append_data([DataFile(file_path=f"/data/{name}", file_format=FileFormat.PARQUET, partition_values={},
                                                record_count=1, file_size_in_bytes=staged[name]["size"])
                                       for name in adopted_names(i, spec)])
                        return "ok"
                    if spec["kind"] == "mixed":
                        # one transaction that WRITES a data file of its own and ADOPTS a pre-built one
                        from datashard.data_structures import DataFile, FileFormat
                        with t.new_transaction() as tx:
                            tx.append_data(spec["rows"])
                            tx.append_files([DataFile(file_path=f"/data/{name}", file_format=FileFormat.PARQUET, partition_values={},
                                                      record_count=1, file_size_in_bytes=staged[name]["size"])
                                             for name in adopted_names(i, spec)])
                            tx.commit()
                        return "ok"
                    tx = t.new_transaction().begin()
                    tx.append_data(spec["rows"])
                    tx.rollback()
                    return "rolledback"
                return body

            gc_windows: List[Dict[str, int]] = []

            def gc_body() -> Any:
                t = datashard.load_table(root)
                w = {"start": sc.clock_ms}
                gc_windows.append(w)
                try:
                    return t.garbage_collect(grace_period_ms=grace)
                finally:
                    w["end"] = sc.clock_ms
                    # the proviso is judged on the LONGEST run of the case
                    done = [x for x in gc_windows if "end" in x]
                    longest = max(done, key=lambda x: x["end"] - x["start"])
                    gc_window.clear()
                    gc_window.update(longest if len(done) == len(gc_windows) else {"start": longest["start"]})

            def clock_body() -> Any:
                for j in (jumps if jumps is not None else [age_jump, age_jump]):
                    sc.yield_point("Tick", "")
                    sc.clock_ms += j
                return "ticked"
            for i, spec in enumerate(txns):
                sc.spawn(f"A{i}", tx_body(i, spec))
            sc.spawn("G", gc_body)
            if second_gc:
                sc.spawn("H", gc_body)          # a second collection run (schedules keep it after G's)
            sc.spawn("K", clock_body)
            if delayed_flip:
                def net_body() -> Any:
                    sc.yield_point("Land", P.HINT)
                    if "land" in pending_flip:
                        pending_flip["land"]()
                        pending_flip["done"] = True
                        return "landed"
                    return "nothing-pending"
                sc.spawn("N", net_body)
            sc.step_hook = lambda a: setattr(sc, "clock_ms", sc.clock_ms + 1)
            enabled_at: List[List[str]] = []
            chooser = chooser_factory(sc)

            def rec(en: List[str], s: S.Scheduler) -> Optional[str]:
                enabled_at.append(list(en))
                return chooser(en, s)
            try:
                out["schedule"] = sc.run(rec)
                out["deadlock"] = None
            except S.Deadlock as e:
                out["schedule"] = []
                out["deadlock"] = str(e)
                sc.kill_remaining()
            out["enabled_at"] = enabled_at
            out["log"] = sc.log
            out["outcomes"] = {n: (("raised", type(a.error).__name__ + ": " + str(a.error)[:120]) if a.error else ("ok", str(a.result))) for n, a in sc.actors.items()}
            out["gc_window"] = gc_window
            out["delayed_flip"] = delayed_flip
            out["grace"] = grace
            out["inflight_timeout"] = int(getattr(gcmod, "DEFAULT_INFLIGHT_TIMEOUT_MS", ABANDON_MS))
            try:
                out["final"] = P.read_table_independent(root)
            except Exception as e:
                out["final"] = {"error": repr(e)[:300]}
        finally:
            gcmod.time = saved_time
            dops.DataFileManager.write_data_file = real_wdf
    return out


def outside_abandonment(out: Dict[str, Any]) -> bool:
    """Independent of the collector's decision: did a collection run load the markers while a marker some transaction
    had written (and not yet removed) was older than the documented abandonment window?  Such a transaction has, by
    design, given up its protection ('markers younger than the abandonment window' is the recorded assumption)."""
    written: Dict[str, int] = {}
    for e in out["log"]:
        if P.path_class(e["path"]) == "marker" and e["actor"].startswith("A"):
            if e["op"] == "write_file":
                written[e["path"].lstrip("/")] = e["clock"]
            elif e["op"] == "delete_file":
                written.pop(e["path"].lstrip("/"), None)
        elif e["actor"] in ("G", "H") and e["op"] == "list_files" and e["path"].rstrip("/") == "metadata/inflight":
            if any(e["clock"] - c >= ABANDON_MS - 1000 for c in written.values()):
                return True
    return False


def oracle(out: Dict[str, Any]) -> Optional[str]:
    if out["deadlock"]:
        return "deadlock: " + out["deadlock"]
    w = out["gc_window"]
    if "end" in w and w["end"] - w["start"] >= out.get("grace", GRACE):
        return None                                    # outside the proviso: the run lasted longer than the grace period
    if outside_abandonment(out):
        return None                                    # outside the assumption: a transaction outlived the abandonment window
    if "error" in out["final"]:
        return "table unreadable after the run: " + out["final"]["error"]
    if out["final"]["missing"]:
        return f"files referenced by retained snapshots were deleted by the collector: {out['final']['missing'][:3]}"
    for n, (st, d) in out["outcomes"].items():
        if st != "ok" and not (out.get("delayed_flip") and n == "A0" and "AmbiguousCommitError" in d):
            if out.get("kinds", {}).get(n) in ADOPTING and d.split(":")[0] in ("CollectionInProgressError", "FileNotFoundError") \
                    and not any(e["actor"] == n and "Transaction.commit" in e["phase"] for e in out["log"]):
                # append_files REFUSED the pre-built file before anything was queued: a collection run was in progress, or an
                # earlier run had collected the (unreferenced, unmarked, old) file as the orphan it was.  Nothing references it.
                continue
            if n in ("G", "H") and d.startswith("GarbageCollectionAborted:"):
                # a collection that gives up (e.g. the pointer moved between its two resolutions of it, repair d28ca28)
                # is the fail-closed outcome: the property is about what a run DELETES, and nothing is missing (above)
                continue
            return f"actor {n} raised: {d}"
    return None


def project(out: Dict[str, Any], ntx: int) -> Tuple[List[str], Optional[str], int]:
    """Model events (Model/GCRace.v); reason the trace is non-conforming (behaviour the model has no event for); number
    of model files.  The model's unit is a marker-protected FILE: every data file, manifest and manifest list a
    transaction writes gets its own id, in the order the markers appear."""
    evs: List[str] = []
    fid: Dict[str, int] = {}                  # table-relative path of the protected file -> model file id
    owner: Dict[int, int] = {}                # file id -> transaction
    kind: Dict[int, str] = {}                 # file id -> data | manifest | mlist
    state: Dict[int, str] = {}                # file id -> marked | written | flipped | done | rolled | orphaned
    last_clock = None
    gc_open: List[Optional[str]] = [None]
    timeout = out.get("inflight_timeout", ABANDON_MS)

    def flip(t: int) -> None:
        """Transaction t's pointer write took effect: its data files and the manifest / manifest list of THIS attempt
        (the newest ones it wrote) are referenced from now on."""
        mine = [f for f in sorted(owner) if owner[f] == t]
        now_ref = [f for f in mine if kind[f] == "data"]
        for k in ("manifest", "mlist"):
            ks = [f for f in mine if kind[f] == k and state[f] in ("written",)]
            now_ref += ks[-1:]
        for f in sorted(now_ref):
            evs.append(f"TFlip {f}%nat")
            if state[f] == "written":
                state[f] = "flipped"

    # pre-built files: in place (with their age) before the first event
    t_first = out["log"][0]["clock"] if out["log"] else 0
    for name, st in sorted(out.get("staged", {}).items()):
        f = fid["data/" + name] = len(fid)
        owner[f] = st["tx"]
        kind[f] = "data"
        state[f] = "staged"
        evs.append(f"TStage {f}%nat ({st['mtime_ms'] - t_first})")
    adopted_ok = {n for n, (st_, _d) in out.get("outcomes", {}).items() if st_ == "ok"} | \
                 {e["actor"] for e in out["log"] if "Transaction.commit" in e["phase"]}

    for e in out["log"]:
        a, op, path, phase = e["actor"], e["op"], e["path"], e["phase"]
        pcs = P.path_class(path)
        base = path.rsplit("/", 1)[-1]
        rel = path.lstrip("/")
        if last_clock is not None and e["clock"] > last_clock:
            evs.append(f"Tick {e['clock'] - last_clock}")
        last_clock = e["clock"] if last_clock is None or e["clock"] > last_clock else last_clock
        if a.startswith("A"):
            t = int(a[1:])
            if op == "write_file" and pcs == "marker":
                if "Transaction._register_inflight" not in phase:
                    return evs, f"transaction {t} wrote the marker {base} outside _register_inflight (in {phase[-1] if phase else '?'})", len(fid)
                name = marker_file(path, list(fid))
                if name not in fid:
                    f = fid[name] = len(fid)
                    owner[f] = t
                    kind[f] = {"mlist": "mlist", "manifest": "manifest"}.get(P.path_class(name), "data")
                    state[f] = "marked"
                if state[fid[name]] == "staged":
                    state[fid[name]] = "adoptmarked"      # append_files registers the marker of a pre-built file
                    evs.append(f"TAdoptMark {fid[name]}%nat")
                else:
                    evs.append(f"TMarkW {fid[name]}%nat")
            elif op == "list_files" and path.rstrip("/") == COLLECTING:
                # append_files looks for an announced collection run; when it goes on (the transaction reaches its commit), the
                # files it marked are adopted HERE -- the model allows that only while no run is announced
                if a in adopted_ok:
                    for f in sorted(owner):
                        if owner[f] == t and state[f] == "adoptmarked":
                            state[f] = "written"
                            evs.append(f"TAdopt {f}%nat")
            elif op == "DataW" or (op == "write_file" and pcs in ("manifest", "mlist") and e["result"] == "ok"):
                if rel not in fid:
                    return evs, f"transaction {t} wrote {path} without registering an in-flight marker for it first", len(fid)
                f = fid[rel]
                evs.append(f"TDataW {f}%nat")
                if state[f] == "marked":
                    state[f] = "written"
            elif op == "write_file" and pcs == "hint" and e["result"] == "ok":
                flip(t)
            elif op == "delete_file" and pcs == "marker":
                known_phase = "Transaction._finish_committed" in phase or "Transaction._rollback" in phase \
                    or "Transaction._protect_adopted_files" in phase          # (a refused adoption takes its markers back)
                if not known_phase:
                    return evs, (f"transaction {t} removed the in-flight marker {base} outside _finish_committed / _rollback "
                                 f"(in {phase[-1] if phase else '?'}): protection dropped while the file may not be reachable yet"), len(fid)
                name = marker_file(path, list(fid))
                f = fid.get(name)
                if f is None:
                    continue
                if state[f] == "flipped":
                    state[f] = "done"
                    evs.append(f"TMarkD {f}%nat")
                elif state[f] == "adoptmarked":
                    state[f] = "orphaned"          # adoption refused / given up: the pre-built file is an orphan again
                    evs.append(f"TAbandon {f}%nat")
                elif state[f] == "written":
                    # the marker goes although the file stays and is not referenced: the manifests of a lost commit attempt
                    # (legitimate: the file is an orphan from now on) -- or protection dropped from a file that is published
                    # later, which the model then refuses (TFlip of an abandoned file)
                    state[f] = "orphaned"
                    evs.append(f"TAbandon {f}%nat")
                elif state[f] == "marked":
                    state[f] = "rolled"
                    evs.append(f"TRollback {f}%nat")
            elif op == "delete_file" and pcs in ("data", "manifest", "mlist") and "Transaction._rollback" in phase:
                f = fid.get(rel)
                if f is not None and state[f] in ("marked", "written"):
                    state[f] = "rolled"
                    evs.append(f"TRollback {f}%nat")
        elif a == "N" and op == "Land":
            if out.get("outcomes", {}).get("N", ("", ""))[1] == "landed":
                flip(0)                             # the delayed pointer write takes effect: transaction 0 is committed now
        elif a in ("G", "H") and any(p.startswith("GarbageCollector.") for p in phase):
            if op == "write_file" and path.lstrip("/").startswith(COLLECTING):
                if gc_open[0] is not None:
                    evs.append("GEnd")          # the previous run is over (schedules never overlap two collectors)
                gc_open[0] = a
                evs.append("GAnnounce")         # Table.garbage_collect announces the run before anything else
            elif op == "delete_file" and path.lstrip("/").startswith(COLLECTING):
                if "GarbageCollector.withdraw_run" in phase and gc_open[0] == a:
                    gc_open[0] = None
                    evs.append("GEnd")          # the announcement is withdrawn: the run is over
            elif op == "list_files" and path.rstrip("/") == "metadata/inflight":
                if gc_open[0] is not None and gc_open[0] != a:
                    evs.append("GEnd")
                gc_open[0] = a                  # (a run that did not announce itself: the model refuses its GMarks)
                evs.append(f"GMarks {timeout}")
            elif op == "delete_file" and pcs == "marker":
                # the model decides (regenerated kernel): enabled only for a marker older than the abandonment timeout
                name = marker_file(path, list(fid))
                if name not in fid:
                    return evs, f"collector removed an in-flight marker no transaction of this run wrote: {base}", len(fid)
                evs.append(f"GSweep {fid[name]}%nat")
            elif op in ("read_file",) and pcs == "hint" and "GarbageCollector.collect" in phase and "GarbageCollector._load_inflight_protection" not in phase \
                    and "GarbageCollector._require_hinted_metadata_present" not in phase:
                # (the hint re-read of _require_hinted_metadata_present only decides abort / go on: the view of the table
                #  the sweeps use is the one refresh() took -- a stutter step of the model)
                evs.append("GMeta")
            elif op == "list_files" and path.rstrip("/") in ("data", "metadata/manifests"):
                evs.append(f"GList {out.get('grace', GRACE)}")
            elif op == "delete_file" and pcs in ("data", "manifest", "mlist"):
                if rel in fid:
                    evs.append(f"GDel {fid[rel]}%nat")
                else:
                    return evs, f"collector deleted a file no transaction of this run wrote (it belongs to the table as set up): {path}", len(fid)
    if gc_open[0] is not None:
        evs.append("GEnd")
    return evs, None, len(fid)


def project_ledger(out: Dict[str, Any], actor: str) -> Tuple[List[str], Optional[str], Dict[str, Any]]:
    """One transaction's storage log as events of its marker LEDGER (Model/TxMarkers.v), the reason the log is non-conforming
    (a marker handled in a way the ledger has no event for), and what the log itself says about the transaction: how many
    commit attempts it lost, which markers it held when the pointer write took effect, which it holds at the end."""
    evs: List[str] = []
    fid: Dict[str, int] = {}
    held: List[str] = []                      # markers this transaction wrote and has not removed (by name of the protected file)
    in_attempt = progressed = False           # an attempt has read its base / has gone on into _commit_file_ops
    flipped = False
    ended: Optional[str] = None
    at_flip: Optional[List[str]] = None
    pending_adopt: List[str] = []             # markers registered by _protect_adopted_files, outcome not yet known

    def settle(accepted: bool) -> None:
        for nm in pending_adopt:
            evs.append(f"{'XAdopt' if accepted else 'XRefuse'} {fid[nm]}%nat")
        pending_adopt.clear()

    for e in out["log"]:
        if e["actor"] != actor:
            continue
        op, path, phase = e["op"], e["path"], e["phase"]
        pcs = P.path_class(path)
        base = path.rsplit("/", 1)[-1]
        name = marker_stem(path) if pcs == "marker" else base
        if "Transaction._commit_file_ops" in phase:
            progressed = True
        if op == "write_file" and pcs == "marker" and e["result"] == "ok":
            if name not in fid:
                fid[name] = len(fid)
            if name not in held:
                held.append(name)
            if "Transaction._protect_adopted_files" in phase:
                pending_adopt.append(name)
            elif "Transaction._commit_file_ops" in phase:
                evs.append(f"XAttempt {fid[name]}%nat")
            elif "Transaction.append_data" in phase:
                evs.append(f"XWrite {fid[name]}%nat")
            else:
                return evs, f"{actor} registered the marker {base} in {phase[-2:] if phase else '?'}: not a step of the ledger", {}
        elif op == "delete_file" and pcs == "marker" and e["result"] == "ok":
            if "Transaction._protect_adopted_files" in phase:
                if name in pending_adopt:
                    pending_adopt.remove(name)
                    evs.append(f"XRefuse {fid[name]}%nat")
                    held.remove(name)
                    continue
                return evs, f"{actor}: a refused adoption removed the marker {base}, which it had not registered itself", {}
            if "Transaction._finish_committed" in phase:
                if ended is None:
                    settle(True)
                    ended = "finish"
                    evs.append("XFinish")
            elif "Transaction._rollback" in phase:
                if ended is None:
                    settle(True)
                    ended = "rollback"
                    evs.append("XRollback")
            else:
                return evs, (f"{actor} removed the in-flight marker {base} in {phase[-1] if phase else '?'} -- neither the end of the "
                             f"transaction nor a refused adoption: the ledger has no such step"), {}
            if name in held:
                held.remove(name)
        elif op == "read_file" and pcs == "hint" and "Transaction.commit" in phase and "Transaction._commit_file_ops" not in phase:
            settle(True)
            if in_attempt and progressed and not flipped:
                evs.append("XConflict")         # a new base is read although the attempt in progress did not commit: it lost the race
            in_attempt, progressed = True, False
        elif op == "write_file" and pcs == "hint" and e["result"] == "ok" and "Transaction.commit" in phase:
            settle(True)
            flipped = True
            at_flip = list(held)
            evs.append("XCommit")
    if pending_adopt:
        settle(ended is None and not any(o == actor and st != "ok" for o, (st, _d) in out["outcomes"].items()))
    obs = {"lost": evs.count("XConflict"), "held_at_flip": None if at_flip is None else len(at_flip), "held_at_end": len(held),
           "flipped": flipped, "ended": ended}
    return evs, None, obs


def ledger_expr(evs: List[str]) -> str:
    return (f"match xrun_strict gen_xkernels xinit [{'; '.join(evs)}] 0%nat with "
            f"| inl s => (1, (Z.of_nat (x_lost s), (Z.of_nat (List.length (x_markers s)), (Z.of_nat (List.length (x_bare s)), "
            f"match x_phase s with XOpen => 0 | XFlipped => 1 | XDone => 2 | XRolled => 3 end)))) "
            f"| inr i => (0, (Z.of_nat i, (0, (0, 0)))) end")


def model_expr(evs: List[str], nfiles: int) -> str:
    return (f"match grun_strict (ginit [(0%nat, -1000000)]) [{'; '.join(evs)}] 0%nat with "
            f"| inl w => (1, (Z.of_nat (List.length (g_deleted w)), map (fun t => if g_present w t then 1 else 0) (seq 0%nat {nfiles}%nat))) "
            f"| inr i => (0, (Z.of_nat i, [])) end")


def explore(ctx, txns, age_jump: int, max_preempt: int, limit: int):
    from collections import deque
    queue = deque([()])
    seen = set()
    n = 0
    while queue and n < limit:
        dev = queue.popleft()
        out = run_case(ctx, txns, c01.dev_chooser(dict(dev)), age_jump)
        key = tuple(out["schedule"])
        if key in seen:
            continue
        seen.add(key)
        n += 1
        yield dev, out
        if len(dev) < max_preempt:
            start = (dev[-1][0] + 1) if dev else 0
            for i in range(start, len(out["schedule"])):
                for b in out["enabled_at"][i]:
                    if b != out["schedule"][i]:
                        queue.append(dev + ((i, b),))


def segment_chooser(segments: List[Tuple[str, int]]):
    """Run actor a for n steps, for each (a, n) in order (skipping disabled actors), then first-enabled."""
    def factory(_sc: S.Scheduler):
        state = {"seg": 0, "left": segments[0][1] if segments else 0}

        def choose(enabled: List[str], _s: S.Scheduler) -> Optional[str]:
            while state["seg"] < len(segments):
                a, _n = segments[state["seg"]]
                if state["left"] > 0 and a in enabled:
                    state["left"] -= 1
                    return a
                state["seg"] += 1
                state["left"] = segments[state["seg"]][1] if state["seg"] < len(segments) else 0
            return enabled[0]
        return choose
    return factory


def directed(ctx, txns, quick: bool, cap: int = 160):
    """Old-file patterns: transaction 0 runs i steps, the clock jumps, the collector runs j steps, the transaction
    finishes, the collector finishes -- for all i, j (the shape of every 'file already old when it commits' race)."""
    base = run_case(ctx, txns, segment_chooser([("A0", 10**6), ("K", 10**6), ("G", 10**6)]), 5000)
    na = sum(1 for a in base["schedule"] if a == "A0")
    ng = sum(1 for a in base["schedule"] if a == "G")
    iset = range(1, na + 1)
    jset = range(0, ng + 1)
    pairs = [(i, j) for i in iset for j in jset]
    if quick and len(pairs) > cap:
        pairs = ctx.rng.sample(pairs, cap)
    for i, j in pairs:
        seg = [("A0", i), ("K", 10**6), ("G", j), ("A0", 10**6), ("G", 10**6)]
        yield [("segments", seg)], run_case(ctx, txns, segment_chooser(seg), 5000)


def directed_retry(ctx, txns, quick: bool):
    """Old file + OCC retry + collector inside the retry window: transaction 0 reads its base, the clock jumps,
    transaction 1 commits (so 0 will conflict and retry), 0 runs j more steps (into its retry), the collector runs k
    steps, 0 finishes, the collector finishes."""
    probe = run_case(ctx, txns, segment_chooser([("A0", 10**6), ("A1", 10**6), ("K", 10**6), ("G", 10**6)]), 5000)
    # A0's base read = the pointer read inside Transaction.commit.  Segments count SCHEDULER steps: step 1 starts the
    # thread and parks it before its first yielding operation, every further step performs the parked operation and
    # runs to the next yielding one -- so "performed through log entry n" = 1 + #yielding entries among a0[0..n].
    a0 = [e for e in probe["log"] if e["actor"] == "A0"]
    begin = next((n for n, e in enumerate(a0) if "Transaction.commit" in e["phase"] and e["op"] == "read_file" and P.path_class(e["path"]) == "hint"), 4)
    # ... and through the metadata read that follows it (the base is in memory then)
    while begin + 1 < len(a0) and not (a0[begin]["op"] == "read_file" and P.path_class(a0[begin]["path"]) == "meta"):
        begin += 1
    i = 1 + sum(1 for e in a0[:begin + 1] if yield_filter(e["op"], e["path"], e["phase"]))
    na = sum(1 for a in probe["schedule"] if a == "A0") - i + 16      # the rest of the commit + a retry
    ng = sum(1 for a in probe["schedule"] if a == "G")
    combos = [(j, k) for j in range(0, na) for k in range(1, ng + 1)]
    if quick and len(combos) > 90:
        combos = ctx.rng.sample(combos, 90)       # (directed_contended covers the same window with a third parameter)
    for j, k in combos:
        seg = [("A0", i), ("K", 10**6), ("A1", 10**6), ("A0", j), ("G", k), ("A0", 10**6), ("G", 10**6)]
        yield [("segments", seg)], run_case(ctx, txns, segment_chooser(seg), 5000)


def directed_contended(ctx, txns, quick: bool, cap: int = 60):
    """CONTENTION x any kind of committer x a collector at every step of the retry.  Transaction 0 (of any kind: it writes
    its own file, ADOPTS a pre-built file older than every grace period, or both) has read its base; time passes; transaction 1
    commits first, so 0's attempt loses the OCC race and is retried internally; 0 runs j more steps (through the lost attempt
    and through the WHOLE retry), the collector runs k steps, 0 runs m more steps, the collector finishes, 0 finishes -- for
    all j, k, m: the collector's marker load, metadata read, listings and deletions fall between every two steps of the
    retrying committer, and the committer's steps between every two of the collector's.  Whatever the transaction holds when
    its attempt is lost -- markers of files it wrote, of files it adopted, of the manifests of the lost attempt -- must
    protect every file the retry finally publishes.  The oracle is the property's own (final table re-read)."""
    jumps = [5000, 5000]
    probe = run_case(ctx, txns, segment_chooser([("A0", 10**6), ("A1", 10**6), ("K", 10**6), ("G", 10**6)]), 0, jumps=jumps)
    a0 = [e for e in probe["log"] if e["actor"] == "A0"]
    begin = next((n for n, e in enumerate(a0) if "Transaction.commit" in e["phase"] and e["op"] == "read_file" and P.path_class(e["path"]) == "hint"), None)
    if begin is None:
        return                                   # (the transaction never reached its commit in the probe: nothing to contend)
    while begin + 1 < len(a0) and not (a0[begin]["op"] == "read_file" and P.path_class(a0[begin]["path"]) == "meta"):
        begin += 1
    i = 1 + sum(1 for e in a0[:begin + 1] if yield_filter(e["op"], e["path"], e["phase"]))
    rest = sum(1 for a in probe["schedule"] if a == "A0") - i          # steps of one attempt after the base read
    ng = sum(1 for a in probe["schedule"] if a == "G")
    na = 2 * rest + 6                                                   # the lost attempt + the whole retry
    combos = [(j, k, m) for j in range(0, na) for k in range(1, ng + 1) for m in (0, 1, 2, 3, 5, 8, 10**6)]
    if quick and len(combos) > cap:
        # every j with the whole run inside one gap of the committer is the backbone; the rest is sampled
        step = max(1, na // (cap // 3))
        fixed = [(j, ng, 0) for j in range(0, na, step)]
        others = [c for c in combos if c not in fixed]
        combos = fixed + ctx.rng.sample(others, max(0, cap - len(fixed)))
    elif len(combos) > 300:
        combos = ctx.rng.sample(combos, 300)           # (thorough tier)
    for j, k, m in combos:
        # K: step 1 starts the clock actor, steps 2 and 3 perform the jumps
        seg = [("A0", i), ("K", 10**6), ("A1", 10**6), ("A0", j), ("G", k), ("A0", m), ("G", 10**6), ("A0", 10**6)]
        yield sched_case(ctx, txns, seg, jumps=jumps)


def directed_two_runs(ctx, txns, quick: bool):
    """Two collection runs around one long transaction: the first run (G) falls entirely between two steps of the
    transaction's write phase (marker written / file not yet written / file written), the transaction goes on, the clock
    jumps (the file is old now), and the second run (H) is interleaved with the rest of the transaction at every point."""
    probe = run_case(ctx, txns, segment_chooser([("A0", 10**6), ("K", 10**6), ("G", 10**6), ("H", 10**6)]), 5000, second_gc=True)
    a0 = [e for e in probe["log"] if e["actor"] == "A0"]
    # scheduler steps of A0 up to (and including) its data-file write
    dw = next((n for n, e in enumerate(a0) if e["op"] == "DataW"), len(a0) - 1)
    upto = 1 + sum(1 for e in a0[:dw + 1] if yield_filter(e["op"], e["path"], e["phase"]))
    nh = sum(1 for a in probe["schedule"] if a == "H")
    combos = [(i, j, k) for i in range(1, upto + 1) for j in range(0, upto - i + 3) for k in range(0, nh + 1)]
    if quick and len(combos) > 110:
        combos = ctx.rng.sample(combos, 110)
    for i, j, k in combos:
        seg = [("A0", i), ("G", 10**6), ("A0", j), ("K", 10**6), ("H", k), ("A0", 10**6), ("H", 10**6)]
        yield [("segments2", seg)], run_case(ctx, txns, segment_chooser(seg), 5000, second_gc=True)


def directed_delayed_flip(ctx, txns, quick: bool):
    """Ambiguous commit: transaction 0's pointer write is answered by a timeout and lands later.  The transaction ends
    (AmbiguousCommitError), the clock jumps (its file is old), the collector runs k steps, the write lands, the collector
    finishes -- for every k; and the landing before / after the clock jump."""
    probe = run_case(ctx, txns, segment_chooser([("A0", 10**6), ("K", 10**6), ("G", 10**6), ("N", 10**6)]), 5000, delayed_flip=True)
    ng = sum(1 for a in probe["schedule"] if a == "G")
    for k in range(0, ng + 1):
        for order in (("A0", "K", "G", "N", "G"), ("A0", "N", "K", "G", "G"), ("K", "A0", "G", "N", "G")):
            seg = []
            gdone = False
            for a in order:
                if a == "G" and not gdone:
                    seg.append(("G", k))
                    gdone = True
                else:
                    seg.append((a, 10**6))
            yield [("segments3", seg)], run_case(ctx, txns, segment_chooser(seg), 5000, delayed_flip=True)


def directed_long_run(ctx, txns, quick: bool):
    """A LONG collection run under a LONG grace period (10 min; the run lasts 200 s, inside the proviso): the collector has
    loaded markers and metadata, a transaction writes everything and commits, time passes, the collector sweeps.  Files
    created during the run are younger than the grace period whatever else is true of them."""
    big = 600_000
    probe = run_case(ctx, txns, segment_chooser([("G", 10**6), ("A0", 10**6), ("K", 10**6)]), 100_000, grace=big)
    ng = sum(1 for a in probe["schedule"] if a == "G")
    na = sum(1 for a in probe["schedule"] if a == "A0")
    ks = list(range(1, ng))
    js = [0, max(1, na // 3), max(2, 2 * na // 3)]
    combos = [(k, j) for k in ks for j in js]
    if quick and len(combos) > 24:
        combos = ctx.rng.sample(combos, 24)
    for k, j in combos:
        seg = [("A0", j), ("G", k), ("A0", 10**6), ("K", 10**6), ("G", 10**6)]
        yield [("segments4", seg)], run_case(ctx, txns, segment_chooser(seg), 100_000, grace=big)


def directed_boundary(ctx, txns, quick: bool):
    """A file whose age crosses the grace boundary DURING a short run: the transaction has written marker and file; time
    passes until both are a little younger than the grace period; the collector loads markers and metadata (k steps); a
    little more time passes (the run stays far shorter than the grace period, the file is now older than it); the
    transaction commits; the collector sweeps."""
    probe = run_case(ctx, txns, segment_chooser([("A0", 10**6), ("K", 10**6), ("G", 10**6)]), 0, jumps=[GRACE - 100, 250])
    a0 = [e for e in probe["log"] if e["actor"] == "A0"]
    dw = next((n for n, e in enumerate(a0) if e["op"] == "DataW"), len(a0) - 1)
    upto = 1 + sum(1 for e in a0[:dw + 1] if yield_filter(e["op"], e["path"], e["phase"]))
    ng = sum(1 for a in probe["schedule"] if a == "G")
    na = sum(1 for a in probe["schedule"] if a == "A0")
    combos = [(i, k) for i in range(upto, min(na, upto + 8)) for k in range(1, ng)]
    if quick and len(combos) > 40:
        combos = ctx.rng.sample(combos, 40)
    for i, k in combos:
        # K: step 1 starts the clock actor, step 2 performs the first jump, step 3 the second
        seg = [("A0", i), ("K", 2), ("G", k), ("K", 10**6), ("A0", 10**6), ("G", 10**6)]
        yield [("segments5", seg)], run_case(ctx, txns, segment_chooser(seg), 0, jumps=[GRACE - 100, 250])


def directed_long_open(ctx, txns, quick: bool):
    """A transaction that stays open for a long time (700 s: far longer than the 10 min grace period, far shorter than the
    24 h abandonment window) before the collection starts: its marker is old but NOT abandoned, its file is older than
    the grace period and unreferenced -- the marker is all that protects it."""
    big = 600_000
    probe = run_case(ctx, txns, segment_chooser([("A0", 10**6), ("K", 10**6), ("G", 10**6)]), 0, grace=big, jumps=[700_000, 0])
    a0 = [e for e in probe["log"] if e["actor"] == "A0"]
    dw = next((n for n, e in enumerate(a0) if e["op"] == "DataW"), len(a0) - 1)
    upto = 1 + sum(1 for e in a0[:dw + 1] if yield_filter(e["op"], e["path"], e["phase"]))
    na = sum(1 for a in probe["schedule"] if a == "A0")
    ng = sum(1 for a in probe["schedule"] if a == "G")
    combos = [(i, k) for i in range(upto, na) for k in (ng, max(1, ng // 2), 3)]
    if quick and len(combos) > 18:
        combos = ctx.rng.sample(combos, 18)
    for i, k in combos:
        seg = [("A0", i), ("K", 2), ("G", k), ("A0", 10**6), ("G", 10**6), ("K", 10**6)]
        yield [("segments6", seg)], run_case(ctx, txns, segment_chooser(seg), 0, grace=big, jumps=[700_000, 0])


def sched_case(ctx, txns, seg: List[Tuple[str, int]], **kw: Any):
    """One run under a segment schedule; the replay payload carries the schedule and every parameter of the run."""
    return [("sched", {"segments": [list(x) for x in seg], "kw": kw})], run_case(ctx, txns, segment_chooser(seg), 0, **kw)


def no_overlap(chooser):
    """The second collection run starts only when the first is over (the model has one collector)."""
    def choose(enabled: List[str], s: S.Scheduler) -> Optional[str]:
        en = [a for a in enabled if not (a == "H" and "G" in enabled)]
        return chooser(en or enabled, s)
    return choose


def directed_slow_steps(ctx, txns, quick: bool, who: int = 0):
    """Time passes INSIDE a transaction, at every point of it -- in particular between the registration of a marker and the
    moment its file is in place (a slow write of the data file, of a manifest, of a manifest list): transaction `who`
    runs p steps, the clock jumps (far beyond the grace period, far below the abandonment window), a first collection
    runs completely, the transaction runs j more steps, the clock jumps again (whatever the transaction has written is
    old now), a second collection runs k steps, the transaction finishes, the second collection finishes -- for all
    p, j, k.  Both runs last a few milliseconds.  The oracle reads the final table."""
    me = f"A{who}"
    jumps = [5000, 5000]
    probe = run_case(ctx, txns, segment_chooser([(me, 10**6), ("K", 10**6), ("G", 10**6), ("H", 10**6)]), 0, second_gc=True, jumps=jumps)
    na = sum(1 for a in probe["schedule"] if a == me)
    nh = sum(1 for a in probe["schedule"] if a == "H")
    combos = []
    for p in range(1, na + 1):
        mine = [(p, j, k) for j in range(0, na - p + 1) for k in range(0, nh + 1)]
        if quick:
            # every p: the file in place right after the jump and the second run complete before the transaction goes on;
            # then a sample of the rest
            fixed = [c for c in mine if (c[1], c[2]) in ((1, nh), (2, nh))]
            rest = [c for c in mine if c not in fixed]
            mine = fixed + ctx.rng.sample(rest, min(len(rest), 2))
        combos += mine
    if not quick and len(combos) > 500:
        combos = ctx.rng.sample(combos, 500)
    for p, j, k in combos:
        # K: step 1 starts the clock actor, step 2 performs the first jump, step 3 the second
        seg = [(me, p), ("K", 2), ("G", 10**6), (me, j), ("K", 10**6), ("H", k), (me, 10**6), ("H", 10**6)]
        yield sched_case(ctx, txns, seg, second_gc=True, jumps=jumps)


def directed_abandoned(ctx, txns, quick: bool):
    """A transaction that outlives the abandonment window (25 h pass at some point of it): the collector deletes its
    markers -- the one situation in which it may -- and its files fall back to ordinary orphan handling.  Outside the
    recorded assumption, so the oracle does not judge these runs; the correspondence does: the model must accept the
    marker deletions (the regenerated kernel: older than the timeout) and what is deleted afterwards."""
    jumps = [ABANDON_MS + 3_600_000, 0]
    probe = run_case(ctx, txns, segment_chooser([("A0", 10**6), ("K", 10**6), ("G", 10**6)]), 0, jumps=jumps)
    a0 = [e for e in probe["log"] if e["actor"] == "A0"]
    # up to the point where the commit takes the lock (a lock held for 25 h has expired: another story, C08 / C19)
    lk = next((n for n, e in enumerate(a0) if e["op"] == "LockTry"), len(a0) - 1)
    upto = 1 + sum(1 for e in a0[:lk] if yield_filter(e["op"], e["path"], e["phase"]))
    ps = list(range(1, upto + 1))
    if quick and len(ps) > 8:
        ps = ctx.rng.sample(ps, 8)
    for p in ps:
        seg = [("A0", p), ("K", 2), ("G", 10**6), ("A0", 10**6), ("K", 10**6)]
        yield sched_case(ctx, txns, seg, jumps=jumps)


def random_two_runs(ctx, txns, n: int):
    """Random interleavings of the transactions with TWO collection runs (one after the other) and a clock that jumps four
    times, by amounts on both sides of the grace period, anywhere."""
    for _ in range(n):
        seed = ctx.rng.randrange(1 << 30)
        jumps = [ctx.rng.choice([0, 300, 900, 1100, 5000, 5000]) for _ in range(4)]
        yield ([("random2", {"seed": seed, "jumps": jumps})],
               run_case(ctx, txns, lambda sc, seed=seed: no_overlap(S.random_chooser(_r.Random(seed), 0.3)), 0, second_gc=True, jumps=jumps))


TXSETS = [
    [{"kind": "append", "rows": [{"x": 100}]}],
    [{"kind": "append", "rows": [{"x": 100}]}, {"kind": "rollback", "rows": [{"x": 200}]}],
    [{"kind": "append", "rows": [{"x": 100}]}, {"kind": "append", "rows": [{"x": 200}]}],
    [{"kind": "adopt"}],                                                    # append_files of a pre-built file, 10 h old
    [{"kind": "append", "rows": [{"x": 100}]}, {"kind": "adopt"}],
    # contention: the FIRST transaction adopts (or writes and adopts) and loses the OCC race to the second
    [{"kind": "adopt"}, {"kind": "append", "rows": [{"x": 200}]}],
    [{"kind": "mixed", "rows": [{"x": 100}]}, {"kind": "append", "rows": [{"x": 200}]}],
    # pre-built files in SUB-DIRECTORIES of data/ (partition layouts: append_files accepts every canonical path below data/)
    # that share their BASENAME: two of them adopted by ONE transaction ...
    [{"kind": "adopt", "files": ["p1/x.parquet", "p2/x.parquet"]}],
    # ... and one each by TWO transactions (whatever one transaction does to its markers -- registering, taking back a refused
    # adoption, cleaning up after its commit or rollback -- must leave the other's file protected)
    [{"kind": "adopt", "files": ["p1/x.parquet"]}, {"kind": "adopt", "files": ["p2/x.parquet"]}],
]
CONTENDED = (2, 5, 6, 8)             # transaction sets in which transaction 1 can commit under transaction 0
SUBDIRS = (7, 8)                     # adopted files in sub-directories, same basenames


def run(ctx) -> None:
    ctx.rule = ("schedules of one or two collection runs (grace 1000 ms / 10 min) with 1-2 transactions (append incl. OCC retry, rollback, "
                "append_files of a pre-built file 10 h old, append_data + append_files in one transaction; adopting committers that lose the "
                "OCC race and retry with the collector at every step of the retry) "
                "and a clock actor that jumps time (5000 ms twice; at every point of a transaction incl. between a marker and its file; "
                "25 h; four random amounts), at storage-operation granularity; bounded-preemption enumeration + directed families + "
                "random; distinct = executed schedule")
    ctx.trusted_base += ["harness/lib/sched.py; harness/props/c06.py (virtual time: collector clock, library clock and file mtimes)",
                         "translator/gen_gcrace.py (collector kernels regenerated from garbage_collector.py, fail-closed)",
                         "translator/gen_txmarkers.py (marker-list kernels regenerated from transaction.py, fail-closed)"]
    ctx.assumptions += ["collection run shorter than the grace period (runs violating the proviso are not judged)",
                        "markers younger than the abandonment window (runs with an older marker at a marker load are not judged)"]
    ctx.proofs(THEOREMS, gen_files=["GenGCRace.v", "GenTxMarkers.v", "GenNorm.v"])
    ctx.allow_axioms([])
    quick = ctx.tier == "quick"
    exprs, metas, bad = [], [], []
    total = judged = gc_gave_up = abandoned = adopt_refused = 0
    ledger_cases = ledger_lost_max = 0
    ledger_bad: List[Dict[str, Any]] = []
    ledger_seen: Dict[Any, Dict[str, Any]] = {}
    import time as _time
    secs: Dict[str, float] = {}
    for ti, txns in enumerate(TXSETS):
        if quick and ti == 4:
            continue                                # (append + adopt together: thorough tier)
        _t0 = _time.time()
        runs = list(explore(ctx, txns, 5000, 2 if quick else 3, (40 if ti < 2 else 25 if ti == 3 else 12 if ti < 5 else 10 if ti == 8 else 4) if quick else 900 if ti < 5 else 150))
        if ti == 0 or not quick:
            runs += list(directed(ctx, txns, quick))
        elif ti == 3:
            # a pre-built OLD file adopted and committed at every point of a collection run
            runs += list(directed(ctx, txns, quick, cap=55))
        elif ti == 7:
            # ... and several old files of one transaction, in sub-directories
            runs += list(directed(ctx, txns, quick, cap=45))
        if ti == 2:
            runs += list(directed_retry(ctx, txns, quick))
        if ti in CONTENDED:
            runs += list(directed_contended(ctx, txns, quick, cap=12 if ti == 2 else 40 if ti == 5 else 18 if ti == 8 else 24))
        if ti == 0:
            runs += list(directed_two_runs(ctx, txns, quick))
            runs += list(directed_delayed_flip(ctx, txns, quick))
            runs += list(directed_long_run(ctx, txns, quick))
            runs += list(directed_boundary(ctx, txns, quick))
            runs += list(directed_long_open(ctx, txns, quick))
            runs += list(directed_abandoned(ctx, txns, quick))
        if ti == 0 or not quick:
            for who in range(len(txns)):
                if txns[who]["kind"] == "append":
                    runs += list(directed_slow_steps(ctx, txns, quick, who))
        runs += list(random_two_runs(ctx, txns, (8 if ti < 5 else 2) if quick else 120))
        for k in range((10 if ti < 5 else 3) if quick else 200):
            seed = ctx.rng.randrange(1 << 30)
            runs.append(([("random", seed)], run_case(ctx, txns, lambda sc, seed=seed: S.random_chooser(_r.Random(seed), 0.4), 5000)))
        secs[f"{ti}:" + "+".join(t["kind"] for t in txns)] = round(_time.time() - _t0, 1)
        for dev, out in runs:
            total += 1
            ctx.count(1, (ti, tuple(out["schedule"])))
            w = out["gc_window"]
            in_proviso = "end" in w and w["end"] - w["start"] < out.get("grace", GRACE)
            judged += 1 if in_proviso else 0
            gc_gave_up += 1 if any(st != "ok" and n in ("G", "H") for n, (st, _d) in out["outcomes"].items()) else 0
            adopt_refused += 1 if any(st != "ok" and out.get("kinds", {}).get(n) in ADOPTING for n, (st, _d) in out["outcomes"].items()) else 0
            why = oracle(out)
            if why:
                cls = ("referenced-file-deleted" if why.startswith("files referenced") else "table-unreadable" if why.startswith("table unreadable")
                       else "deadlock" if why.startswith("deadlock") else "actor-raised")
                ctx.violation(f"gc-race:{'+'.join(t['kind'] + ('-subdir-x' + str(len(t['files'])) if t.get('files') else '') for t in txns)}:{cls}", why,
                              {"txns": txns, "deviations": list(dev), "schedule": out["schedule"], "age_jump": 5000})
            if not out["deadlock"]:
                # every transaction of the run against its marker ledger (whatever the collection did)
                for i in range(len(txns)):
                    levs, lnc, obs = project_ledger(out, f"A{i}")
                    ledger_cases += 1
                    if lnc:
                        ledger_bad.append({"txns": txns, "schedule": out["schedule"], "nonconforming": lnc})
                        continue
                    cut = levs.index("XCommit") + 1 if "XCommit" in levs else len(levs)
                    ledger_seen.setdefault((tuple(levs), cut, obs["held_at_flip"], obs["held_at_end"], obs["ended"], obs["lost"]),
                                           {"txns": txns, "schedule": out["schedule"], "actor": f"A{i}"})
                    ledger_lost_max = max(ledger_lost_max, obs["lost"])
            if not in_proviso:
                continue
            abandoned += 1 if outside_abandonment(out) else 0
            evs, nc, nfiles = project(out, len(txns))
            if nc:
                bad.append({"txns": txns, "schedule": out["schedule"], "nonconforming": nc})
                continue
            exprs.append(model_expr(evs, nfiles))
            metas.append((txns, dev, out, evs))
    ctx.stats["schedules"] = total
    ctx.stats["seconds_running_schedules_per_transaction_set"] = secs
    ctx.stats["runs_within_proviso"] = judged
    ctx.stats["runs_in_which_a_collection_gave_up"] = gc_gave_up     # GarbageCollectionAborted (pointer moved under it): fail closed
    ctx.stats["runs_in_which_an_adoption_was_refused"] = adopt_refused     # append_files: collection in progress / orphan already collected
    ctx.stats["runs_with_a_transaction_beyond_the_abandonment_window"] = abandoned      # not judged by the oracle; traced against the model
    try:
        vals = coqbuild.coq_eval(REQ, exprs, chunk=60)
    except RuntimeError as e:
        ctx.proof_problems.append("model evaluation failed: " + str(e)[:800])
        vals = []
    for (txns, dev, out, evs), val in zip(metas, vals):
        ok, (ndel, present) = val
        if ok != 1:
            bad.append({"txns": txns, "schedule": out["schedule"], "rejected_event_index": ndel, "events": evs[max(0, ndel - 6): ndel + 1]})
    if metas:
        t, d, o, e = metas[len(metas) // 2]
        ctx.sample({"txns": t, "schedule": o["schedule"], "model_events": e})
    ctx.correspondence("gc-race-trace", judged, bad)
    # the marker ledger: the model must accept every transaction's log, hold as many markers at the pointer flip and at the end
    # as the transaction really does on storage, count the same lost attempts, end in the same phase, and never see bare payload
    keys = list(ledger_seen)
    lex: List[str] = []
    for (levs, cut, _hf, _he, _en, _lo) in keys:
        lex.append(ledger_expr(list(levs[:cut])))
        lex.append(ledger_expr(list(levs)))
    try:
        lvals = coqbuild.coq_eval(REQ_LEDGER, lex, chunk=60) if lex else []
    except RuntimeError as e:
        ctx.proof_problems.append("ledger evaluation failed: " + str(e)[:800])
        lvals = []
    for n, key in enumerate(keys):
        if 2 * n + 1 >= len(lvals):
            break
        levs, cut, held_flip, held_end, ended, lost = key
        where = ledger_seen[key]
        (ok1, (lost1, (nm1, (bare1, _ph1)))), (ok2, (lost2, (nm2, (bare2, ph2)))) = lvals[2 * n], lvals[2 * n + 1]
        if ok1 != 1 or ok2 != 1:
            ledger_bad.append(dict(where, rejected_event_index=lost2 if ok2 != 1 else lost1, events=list(levs)))
            continue
        want_phase = {"finish": 2, "rollback": 3}.get(ended, 1 if "XCommit" in levs else 0)
        if (held_flip is not None and nm1 != held_flip) or bare1 != 0 or bare2 != 0 or lost2 != lost or ph2 != want_phase \
                or (ended is not None and nm2 != held_end):
            ledger_bad.append(dict(where, events=list(levs), model={"markers_at_flip": nm1, "markers_at_end": nm2, "bare": bare2, "lost": lost2, "phase": ph2},
                                   implementation={"held_at_flip": held_flip, "held_at_end": held_end, "lost": lost, "ended": ended}))
    ctx.stats["ledger_transactions"] = ledger_cases
    ctx.stats["ledger_distinct_histories"] = len(keys)
    ctx.stats["ledger_most_lost_attempts_in_one_transaction"] = ledger_lost_max
    ctx.correspondence("tx-marker-ledger", ledger_cases, ledger_bad)


def replay(ctx, payload) -> int:
    c = payload.get("case", {})
    if "txns" not in c:
        print("replay: no concrete case")
        return 2
    dev = c.get("deviations", [])
    if dev and dev[0][0] == "sched":
        d = dev[0][1]
        out = run_case(ctx, c["txns"], segment_chooser([(a, n) for a, n in d["segments"]]), 0, **d.get("kw", {}))
    elif dev and dev[0][0] == "random2":
        d = dev[0][1]
        out = run_case(ctx, c["txns"], lambda sc: no_overlap(S.random_chooser(_r.Random(d["seed"]), 0.3)), 0, second_gc=True, jumps=d["jumps"])
    elif dev and dev[0][0] == "segments6":
        out = run_case(ctx, c["txns"], segment_chooser([(a, n) for a, n in dev[0][1]]), 0, grace=600_000, jumps=[700_000, 0])
    elif dev and dev[0][0] == "segments5":
        out = run_case(ctx, c["txns"], segment_chooser([(a, n) for a, n in dev[0][1]]), 0, jumps=[GRACE - 100, 250])
    elif dev and dev[0][0] == "segments4":
        out = run_case(ctx, c["txns"], segment_chooser([(a, n) for a, n in dev[0][1]]), 100_000, grace=600_000)
    elif dev and dev[0][0] == "segments3":
        out = run_case(ctx, c["txns"], segment_chooser([(a, n) for a, n in dev[0][1]]), c.get("age_jump", 5000), delayed_flip=True)
    elif dev and dev[0][0] == "segments2":
        out = run_case(ctx, c["txns"], segment_chooser([(a, n) for a, n in dev[0][1]]), c.get("age_jump", 5000), second_gc=True)
    elif dev and dev[0][0] == "segments":
        out = run_case(ctx, c["txns"], segment_chooser([(a, n) for a, n in dev[0][1]]), c.get("age_jump", 5000))
    elif dev and dev[0][0] == "random":
        out = run_case(ctx, c["txns"], lambda sc: S.random_chooser(_r.Random(dev[0][1]), 0.4), c.get("age_jump", 5000))
    else:
        out = run_case(ctx, c["txns"], c01.dev_chooser({int(i): a for i, a in dev}), c.get("age_jump", 5000))
    why = oracle(out)
    print("replay:", "STILL FAILS: " + why if why else "passes now")
    return 1 if why else 0
