"""C17 -- No operation escapes the table root.

Proof      : coq/Props/C17.v over coq/Model/Path.v (symlink file-system model, CPython's non-strict
             realpath incl. its give-up-on-a-loop branch, commonpath, relpath, the repaired resolver
             canonical_path/_resolve_path, _get_arrow_path, list_files, the kernel's own path walk) and
             coq/Gen/GenPath.v (the guard structure of the anchored functions and the STATE of a handle -- attributes, stores
             outside __init__, attributes the guards read -- regenerated from the source); sessions in which the names a listing
             handed out come back in (Proofs/SessionProofs.v), handle state fixed at construction (Proofs/HandleState.v).
Tie        : translator/gen_path.py (fail-closed golden shapes + regenerated constants + handle-state tables; a decorator or
             global / nonlocal in a guard, setattr / __dict__ on self fail closed) and differential
             correspondence on trees materialised with real symlinks:
               resolve   LocalStorageBackend._resolve_path      vs Model/Path.v resolve
               arrow     DataFileManager._get_arrow_path        vs arrow_path
               listing   LocalStorageBackend.list_files         vs list_files
               realpath  os.path.realpath (the modelled stdlib)  vs realpath
               kernel    O_PATH + /proc/self/fd (the real kernel) vs kwalk
               scans     the directories list_files hands to os.scandir (audit hook) vs list_scans
               entrypoints  audited OS calls of the real entry points vs run_entry (outcome class + locations)
               rand-*    the same on random symlink arrangements (multi-link cycles, dangling, absolute/relative)
             over the exhaustive path grammar x root spelled directly / through a symlink / relatively.
Oracle /   : implementation-only entry-point audit (harness/lib/pathaudit.py): every storage / read entry
search       point x the grammar under sys.addaudithook; kernel-judged locations must lie under the
             canonical root (touch), the tree outside the root keeps its fingerprint (sentinel), kernel-escaping
             paths raise (reject), a listing returns only entries under the root (listed), and every call
             returns within its time / memory limit (runaway; harness/lib/bounded.py).  Two arrangements:
             pathfs.standard_spec (symlink cycles included) and pathfs.acyclic_spec (cycle-free, outward /
             inward / sibling directory links at depth >= 1 below the prefixes that get listed).
             HISTORIES: one long-lived LocalStorageBackend / DataFileManager / Table handle uses a string, the
             arrangement inside the root is CHANGED (directory -> outward link, files -> outward links,
             subdirectory -> outward link, directory -> sibling link, metadata -> outward link, outward link ->
             directory), and the same handle uses the string again; every use is judged against the arrangement
             current at that use (pathaudit.run_history), and differentially against the stateless model
             (hist-resolve / hist-arrow / hist-listing).
             SESSIONS: operation SEQUENCES on ONE long-lived LocalStorageBackend / DataFileManager / Table handle over a STATIC
             arrangement (pathfs.filelink_spec: FILE symlinks -- outward absolute / relative / to the sibling-prefix directory /
             through a second link / dangling, and inward controls -- in every directory a table operation lists: data/, a partition
             directory, metadata/, metadata/manifests/, metadata/inflight/, the root).  The handle first lists a prefix / probes /
             reads / collects garbage (grace 0 and default) / refreshes (with and without the version hint) / scans, then every
             entry point is called with EVERY NAME A LISTING OF THE ROOT CAN HAND OUT (os.walk reports a link to a file among the
             files), table-relative, Iceberg-style and absolute; on a Table each name is registered with append_files + commit and
             scanned.  Every step is judged on its own by the kernel (touch / sentinel / reject / listed); a failing step is shrunk to
             [that step] / [head, that step] / the prefix.  Differentially: Model/Path.v run_session (its own listing feeds its later
             steps, SListed i k) vs one backend + one DataFileManager object listing and then resolving every returned name (sessions),
             and the resolver / arrow / listing / realpath / kernel / scans correspondences on the file-link tree (*-filelink).
             OBJECT STORE: S3StorageBackend over an in-memory client (harness/lib/mems3.py), 5 prefix configurations
             (two-level, trailing slash, one level, three levels, none), conditional writes on / off, 17 entry points
             x the path grammar ('..', '.', '', absolute, sibling-prefix names): every request key / listing Prefix
             must be the table prefix or below it (opaque, component-wise), objects outside the prefix keep their
             content, a listing returns existing keys below the prefix (oracle_s3); real _get_s3_key / listing
             Prefix vs Gen/GenS3.v (s3-keys).
"""
from __future__ import annotations

import collections
import logging
import os
import shutil
import tempfile
from typing import Any, Callable, Dict, List, Optional, Sequence, Tuple

from harness.lib import bounded, coqbuild, pathaudit, pathfs
from harness.lib.coqio import C
from harness.lib.pathfs import Audit, Codes, coq_list

LEVEL = "proof"
THEOREMS = [
    "C17_commonpath_prefix",
    "C17_resolve_inside",
    "C17_resolve_kernel",
    "C17_reject_outside",
    "C17_absolute_is_rerooted",
    "C17_realpath_agrees_with_kernel",
    "C17_kernel_outside_rejected",
    "C17_resolve_is_kernel_location",
    "C17_arrow_inside",
    "C17_listing_relative",
    "C17_listing_scans_inside",
    "C17_entrypoints",
    "C17_history_inside",
    "C17_history_stateless",
    "C17_session_stateless",
    "C17_session_inside",
    "C17_session_listed_name_rejected",
    "C17_listed_name_rejected",
    "C17_session_of_literals_is_history",
    "C17_handle_state_fixed_at_construction",
    "C17_memoising_handle_refuted",
    "C17_s3_key_under_prefix",
    "C17_s3_list_prefix_under_prefix",
    "C17_fuel_sufficient",
    "C17_legacy_resolver_refuted",
]
REQ = ["DS.Model.Path", "DS.Gen.GenPath"]
REQ_S3 = ["DS.Model.Str", "DS.Gen.GenS3"]
GEN_FILES = ["GenPath.v", "GenS3.v"]

MANIFEST_ENTRY = {
    "level_text": "Coq theorems, for EVERY symlink tree (loops included), base spelling, working directory, path string and fuel: "
                  "the repaired resolver returns only link-free locations under the canonical root (C17_resolve_inside); the "
                  "kernel's own walk of such a location and of each of its ancestors stays on it (C17_resolve_kernel); whenever the "
                  "kernel can walk a string the modelled os.path.realpath returns exactly the kernel's location "
                  "(C17_realpath_agrees_with_kernel), so a string the kernel resolves outside the root is Err Security "
                  "(C17_kernel_outside_rejected, C17_reject_outside) and an answer is never some other file "
                  "(C17_resolve_is_kernel_location); 'escaping' is judged on the JOINED string: a true absolute string such as /etc/passwd is "
                  "stripped of its leading slashes and re-rooted under the table by design, and is answered exactly as its relative "
                  "spelling (C17_absolute_is_rerooted); likewise _get_arrow_path's three-way split (C17_arrow_inside); list_files yields "
                  "only '..'-free names of files below the resolved prefix (C17_listing_relative) and scans only real, link-free "
                  "directories at or below it -- never through a directory link, inward or outward (C17_listing_scans_inside); every entry point of the table "
                  "regenerated from the source hands the OS only its guard's result or that result's parent (C17_entrypoints), also at "
                  "every step of a history in which the arrangement changes between uses of one handle -- a handle carries no "
                  "validated-path state (C17_history_inside, C17_history_stateless); in every SESSION on one handle, where the string of a "
                  "step may be a name an earlier listing of the same handle returned (file symlinks are listed among the files), the "
                  "outcome of a step is run_entry of its own tree on the string denoted and nothing else of the past (C17_session_stateless, "
                  "C17_session_of_literals_is_history), every returning step stays inside (C17_session_inside) and a listed name that the "
                  "kernel walks out of the root is Err Security for every entry point (C17_session_listed_name_rejected, "
                  "C17_listed_name_rejected); the model's handle is its base string because, over tables regenerated from the source, no "
                  "attribute a path guard reads is stored into after construction (C17_handle_state_fixed_at_construction); a handle that "
                  "remembers listed names is refuted by a concrete tree (C17_memoising_handle_refuted); on the object-store backend every request key and "
                  "listing Prefix is the configured prefix + '/' + the path's bytes verbatim, hence under the table prefix, for every "
                  "string (C17_s3_key_under_prefix, C17_s3_list_prefix_under_prefix, over Gen/GenS3.v regenerated from the source); "
                  "commonpath containment is component-wise prefix (C17_commonpath_prefix); fuel = number of links suffices "
                  "(C17_fuel_sufficient); the resolver as found is refuted by a concrete tree (C17_legacy_resolver_refuted). Model tied "
                  "to the code by golden-shape / taint translation of the guards and by differential execution against real symlink "
                  "trees (resolver, arrow path, listing, realpath, kernel, entry points) over the exhaustive path grammar; "
                  "implementation-only OS-call audit of 30 entry points over three arrangements (one with symlink cycles, one cycle-free with "
                  "outward directory links below the listed prefixes, one with file symlinks in every listed directory), single calls, "
                  "histories with an arrangement change between two uses, and operation sequences on one long-lived storage / "
                  "DataFileManager / Table handle that re-use the names a listing hands out, searches for a failing input; every library call is bounded (time, "
                  "memory, hard limit, external monitor) so that a non-terminating change is reported as a violation with its input",
    "level_note": "trusted: Coq kernel; translator/gen_path.py; the model of posixpath.realpath/commonpath/relpath and of the kernel "
                  "walk (validated on every run against CPython 3.12 and the running kernel); the audit harness (sys.addaudithook sees "
                  "Python-level OS calls only); not modelled: time-of-check/time-of-use races, hard links, mount points, the S3 "
                  "backend (C20). Two defects found and repaired on the library branch: realpath's give-up result on a symlink loop "
                  "trusted by the resolver (escape), and temp files staged next to the root when writing at the root itself",
    "technique": "Coq proof over a symlink file-system model (single calls, histories, sessions with listing feedback) + golden-shape/taint/handle-state translation + differential correspondence + OS-call audit of calls, histories and operation sequences",
    "design_ref": "DESIGN.md section 5 C17",
}

FUEL = 40          # >= number of links in every tree used (C17_fuel_sufficient)
KFUEL = 400        # kernel walk budget in model evaluations


# ------------------------------------------------------------------------------------------ helpers
def quiet_library() -> None:
    logging.getLogger("datashard").setLevel(logging.CRITICAL)
    for name in list(logging.root.manager.loggerDict):
        if name.startswith("datashard"):
            logging.getLogger(name).setLevel(logging.CRITICAL)


def warm_up() -> None:
    """Import everything the entry points import lazily, so that imports do not show up in the audit."""
    import datashard  # noqa: F401
    import datashard.data_operations  # noqa: F401
    import datashard.file_lock  # noqa: F401
    import datashard.garbage_collector  # noqa: F401
    import datashard.integrity  # noqa: F401
    import datashard.lock_provider  # noqa: F401
    import fastavro  # noqa: F401
    import pyarrow.parquet  # noqa: F401
    tempfile.gettempdir()
    quiet_library()


def strings_for(ctx, wsp_ws: str, depth: int, sample: Optional[int]) -> List[str]:
    g = pathfs.grammar(depth)
    fixed = pathfs.grammar(2) + pathfs.absolute_spellings(wsp_ws) + pathfs.loop_spellings() + \
        pathfs.grammar(2, ["..", "data", "ln_loop", "ln_c1", "ln_sib", "ln_abs", "ln_out", "new"]) + ["", ".", "/", "//", "data/..", "a//b", "data//f.parquet"] + \
        pathfs.missing_then_up_spellings(3, full=ctx.tier != "quick")
    if sample is not None and len(g) > sample:
        g = ctx.rng.sample(g, sample)
    out: Dict[str, None] = {}
    for s in fixed + g:
        out.setdefault(s)
    return list(out)


# ------------------------------------------------------------------------------------------ oracle: entry-point audit
def report(ctx, problems: List[Dict[str, Any]]) -> None:
    for pr in problems:
        key = f"{pr['rule']}:{pr['entry']}"
        what = {
            "touch": "entry point {entry}({path!r}) [root {base}, {arrangement}] made the OS reach {touched} outside the table root",
            "sentinel": "entry point {entry}({path!r}) [root {base}, {arrangement}] changed the tree outside the table root: {changed}",
            "reject": "entry point {entry}({path!r}) [root {base}, {arrangement}] addresses a location outside the root but returned normally: {result}",
            "listed": "entry point {entry}({path!r}) [root {base}, {arrangement}] returned names of files that are not under the table root: {foreign}",
            "runaway": "entry point {entry}({path!r}) [root {base}, {arrangement}] did not return: {why} ({os_calls_before_the_limit} audited OS calls so far)",
        }[pr["rule"]].format(**{"touched": None, "changed": None, "result": None, "foreign": None, "why": None,
                                "os_calls_before_the_limit": None, "arrangement": "standard_spec", **pr})
        if pr.get("history"):
            before = [" ".join(st) for st in pr["history"]["steps"][:pr.get("step", 0)]]
            if len(before) > 6:
                before = before[:3] + [f"... {len(before) - 5} more steps ..."] + before[-2:]
            what = ("after the history [" + " ; ".join(before) +
                    f"] on ONE long-lived {pr['history']['handle']} handle: " + what)
        ctx.violation(key, what, pr)


class Breaker:
    """After `limit` runaways of one entry point the remaining strings for it are skipped: every further case would
    cost a full time limit, and the violation is already reported with a concrete input."""

    def __init__(self, limit: int = 2):
        self.limit = limit
        self.count: collections.Counter = collections.Counter()
        self.skipped: collections.Counter = collections.Counter()

    def tripped(self, entry: str) -> bool:
        if self.count[entry] >= self.limit:
            self.skipped[entry] += 1
            return True
        return False

    def note(self, entry: str, outcome: str) -> None:
        if outcome == "runaway":
            self.count[entry] += 1


def install_guard(ctx) -> bounded.Guard:
    """Every library call of this check runs under harness/lib/bounded.py: soft time limit, memory limit, and a hard
    limit after which the violation is recorded, the evidence written and the process ended."""
    g = bounded.get_guard()
    g.soft_s, g.hard_s, g.mem_mb = (2.5, 45.0, 1500.0)

    def on_hard(label: str, payload: Any, why: str) -> None:
        case = dict(payload) if isinstance(payload, dict) else {"case": repr(payload)}
        case.update({"rule": "runaway", "why": why})
        ctx.violation(f"runaway:{case.get('entry', 'library-call')}", f"library call {label} {why}; the check was ended", case)
        ctx.finish(LEVEL)

    g.on_hard = on_hard

    def report_from_monitor(label: str, payload: Any, why: str) -> None:
        # runs in the forked monitor process: plain files and stdout only
        import json
        from harness.lib import common
        case = dict(payload) if isinstance(payload, dict) else {"case": repr(payload)}
        case.update({"rule": "runaway", "why": why})
        os.makedirs(common.REPLAY_DIR, exist_ok=True)
        path = os.path.join(common.REPLAY_DIR, f"C17-runaway_{str(case.get('entry', 'library-call')).replace(':', '_')}.json")
        with open(path, "w") as f:
            json.dump({"property": "C17", "tier": ctx.tier, "seed": ctx.seed, "key": f"runaway:{case.get('entry', 'library-call')}", "kind": "concrete",
                       "what": f"library call {label} {why}; the check was killed by its monitor", "case": case}, f, indent=1)
        with open(os.path.join(common.EVIDENCE_DIR, "C17.json"), "w") as f:
            json.dump({"property_id": "C17", "tier": ctx.tier, "seed": ctx.seed, "level": "other", "violations": 1,
                       "coverage": {"explanation": "check killed by its monitor: a library call neither returned nor could be interrupted", "replay": path},
                       "assumptions": [], "wall_s": round(__import__("time").time() - ctx.t0, 1)}, f, indent=1)
        print(f"VIOLATION property=C17 replay={path}", flush=True)
        print(f"  oracle: runaway - library call {label} {why}", flush=True)

    g.start_external(report_from_monitor)
    return g


def oracle_storage(ctx, strings: Sequence[str]) -> Tuple[str, List[Any]]:
    wsp = pathaudit.Workspace(os.path.join(ctx.scratch, "ws-storage"))
    obs: List[Any] = []
    judge = pathaudit.Judge(wsp)
    audit = Audit.get()
    from datashard.storage_backend import LocalStorageBackend
    outcomes: collections.Counter = collections.Counter()
    n = 0
    shrunk: set = set()          # shrink only the first failure of each (entry point, root spelling)
    brk = Breaker()
    bases = [("direct", wsp.root), ("symlink", wsp.lnroot)]
    for base_kind, base in bases:
        b = LocalStorageBackend(base)
        for name, fn in pathaudit.storage_entry_points().items():
            for p in strings:
                if brk.tripped(name):
                    continue
                outcome, problems = pathaudit.run_case(wsp, judge, audit, name, lambda: fn(b, p), p, base_kind, False,
                                                       call=(lambda s_, fn=fn, b=b: (lambda: fn(b, s_))) if (name, base_kind) not in shrunk else None)
                brk.note(name, outcome)
                if problems:
                    shrunk.add((name, base_kind))
                outcomes[f"{name}:{outcome}"] += 1
                n += 1
                ctx.count(1, ("storage", name, base_kind, p))
                report(ctx, problems)
                if not problems:
                    observe(obs, name, base_kind, base, p, outcome, audit)
    dfm_n = 0
    for base_kind, base in bases:
        dfm = pathaudit.make_dfm(base)
        for name, fn in pathaudit.dfm_entry_points().items():
            for p in strings:
                if brk.tripped(name):
                    continue
                outcome, problems = pathaudit.run_case(wsp, judge, audit, name, lambda: fn(dfm, p), p, base_kind, True,
                                                       call=(lambda s_, fn=fn, dfm=dfm: (lambda: fn(dfm, s_))) if (name, base_kind) not in shrunk else None)
                brk.note(name, outcome)
                if problems:
                    shrunk.add((name, base_kind))
                outcomes[f"{name}:{outcome}"] += 1
                dfm_n += 1
                ctx.count(1, ("dfm", name, base_kind, p))
                report(ctx, problems)
                if not problems:
                    observe(obs, name, base_kind, base, p, outcome, audit)
    ctx.stats["audit_storage_calls"] = n
    ctx.stats["audit_dfm_calls"] = dfm_n
    ctx.stats["audit_outcomes_storage"] = dict(sorted(outcomes.items()))
    ctx.stats["audit_skipped_after_runaway"] = dict(brk.skipped)
    shutil.rmtree(wsp.ws, ignore_errors=True)
    return wsp.ws, obs


# missing components (or a file used as a directory) cancelled by '..' before an outward DIRECTORY link of the cycle-free arrangement,
# at depth 1..3 (pathfs.missing_then_up_spellings is the same family over the standard arrangement)
ACYCLIC_MISSING_THEN_UP = [
    "data/nope/../../data/ext/secret.txt", "data/nope/../ext", "data/nope/../ext/secret.txt", "/data/nope/../../data/ext/secret.txt",
    "nope/../data/ext/nested/deeper.bin", "nope/nope2/../../data/ext", "data/part/nope/../deep/deeper.bin", "data/part/nope/nope2/nope3/../../../deep",
    "x/../data/ext/secret.txt", "data/f.parquet/../ext/new.bin", "data/nope/../sibl/secret.txt", "metadata/nope/../ext/foreign.inflight",
    "data/nope/../hot/a.parquet", "data/nope/../f.parquet",
]


def oracle_acyclic(ctx, depth: int) -> None:
    """The cycle-free arrangement (pathfs.acyclic_spec): outward / inward / sibling DIRECTORY links at depth >= 1 below the
    prefixes that are listed.  Every storage entry point x every prefix spelling over that tree's components; what a
    listing scans and what it returns are both judged (rules touch, listed)."""
    wsp = pathaudit.Workspace(os.path.join(ctx.scratch, "ws-acyclic"), spec_fn=pathfs.acyclic_spec)
    judge = pathaudit.Judge(wsp)
    audit = Audit.get()
    from datashard.storage_backend import LocalStorageBackend
    strings = ["", ".", "/"] + pathfs.grammar(depth, pathfs.ACYCLIC_COMPONENTS) + \
        [wsp.root, wsp.root + "/data", wsp.lnroot + "/data", wsp.ws + "/out", "data/part/deep/deeper.bin", "data/ext/nested/deeper.bin", "data/hot/a.parquet"] + \
        ACYCLIC_MISSING_THEN_UP
    outcomes: collections.Counter = collections.Counter()
    brk = Breaker()
    shrunk: set = set()
    n = 0
    for base_kind, base in (("direct", wsp.root), ("symlink", wsp.lnroot)):
        b = LocalStorageBackend(base)
        for name, fn in pathaudit.storage_entry_points().items():
            # listings first-class: all strings; the other entry points take every third string
            for p in (strings if name in ("list_files", "delete_file", "read_file", "exists") else strings[::3]):
                if brk.tripped(name):
                    continue
                outcome, problems = pathaudit.run_case(wsp, judge, audit, name, lambda: fn(b, p), p, base_kind, False,
                                                       call=(lambda s_, fn=fn, b=b: (lambda: fn(b, s_))) if (name, base_kind) not in shrunk else None)
                brk.note(name, outcome)
                if problems:
                    shrunk.add((name, base_kind))
                outcomes[f"{name}:{outcome}"] += 1
                n += 1
                ctx.count(1, ("acyclic", name, base_kind, p))
                report(ctx, problems)
    ctx.stats["audit_acyclic_calls"] = n
    ctx.stats["audit_outcomes_acyclic_list_files"] = {k: v for k, v in sorted(outcomes.items()) if k.startswith("list_files")}
    shutil.rmtree(wsp.ws, ignore_errors=True)


MODEL_ENTRY = {"read_file": "EpRead", "read_json": "EpRead", "open_file": "EpOpen", "open_seekable": "EpOpenSeekable", "write_file": "EpWrite",
               "write_json": "EpWriteJson", "exists": "EpExists", "list_files": "EpList", "delete_file": "EpDelete", "makedirs": "EpMakedirs",
               "get_size": "EpSize", "get_modified_time": "EpMtime", "create_lock": "EpLock", "open_parquet_source": "EpParquetSource",
               "read_data_file": "EpReadDataFile", "write_data_file": "EpWriteDataFile"}


def observe(obs: List[Any], name: str, base_kind: str, base: str, p: str, outcome: str, audit: Audit) -> None:
    """Keep what the real call did (outcome class + kernel locations reached) for the entry-point correspondence."""
    _res, exc, events = audit.last
    if outcome == "IsADirectoryError" and exc is not None and "table root itself" in str(exc):
        outcome = "isroot"
    obs.append((name, base_kind, base, p, outcome, [(ev, tgt) for ev, _p, tgt, _cwd in events if tgt is not None]))


def corr_entries(ctx, ws: str, obs: List[Any], stride: int) -> None:
    """Model/Path.v run_entry vs the audited behaviour of the real entry points (same standard tree):
    Security / IsRoot / other outcome must agree, and every location the OS was handed must be one the model
    lists: the guard's result, a file staged in (ACreateIn dir), a directory created on the way to (AMkdirs loc),
    or something below (AList loc)."""
    spec = pathfs.standard_spec(ws)
    codes = Codes()
    tree = pathfs.spec_to_coq(ws, spec, codes)
    sel = obs[::stride]
    exprs = []
    for name, _bk, base, p, _o, _ev in sel:
        exprs.append(f"run_entry {FUEL} T [] gen_table_dirs {coq_list(codes.pstr(base))} {MODEL_ENTRY[name]} {coq_list(codes.pstr(p))}")
    got = coqbuild.coq_eval(REQ, exprs, preamble=f"Definition T : tree := {tree}.", chunk=400)
    bad = []
    for (name, bk, base, p, outcome, events), g in zip(sel, got):
        ctx.count(1, ("corr-entry", name, bk, p))
        if g.name == "Err":
            model = {"Security": "security", "IsRoot": "isroot"}.get(g.args[0].name, g.args[0].name)
            if model != outcome:
                bad.append({"entry": name, "base": bk, "path": p, "impl": outcome, "model": repr(g)})
            elif events:
                bad.append({"entry": name, "base": bk, "path": p, "impl": f"rejected but reached {events[:3]}", "model": repr(g)})
            continue
        if outcome in ("security", "isroot"):
            bad.append({"entry": name, "base": bk, "path": p, "impl": outcome, "model": repr(g)[:200]})
            continue
        accs = [(a[0].name, a[1]) for a in g.args[0]]
        for ev, tgt in events:
            if not pathfs.under(ws, tgt):
                continue                     # interpreter-side files (imports, /proc): judged by the oracle, not modelled
            loc = codes.loc(tgt)
            ok = any(loc == l or (k == "ACreateIn" and loc[:-1] == l) or (k == "AMkdirs" and l[:len(loc)] == loc)
                     or (k == "AList" and loc[:len(l)] == l) for k, l in accs)
            if not ok:
                bad.append({"entry": name, "base": bk, "path": p, "impl": f"{ev} reached {tgt}", "model": repr(accs)[:300]})
                break
    ctx.correspondence("entrypoints", len(sel), bad)
    ctx.stats["corr_entry_cases"] = len(sel)


TABLE_ENTRIES = ["scan:manifest_entry", "scan:manifest_entry_nochecksum", "scan:manifest_path", "scan:manifest_list_path",
                 "row_count:manifest_path", "gc:marker_payload", "gc:listing", "gc:manifest_path", "append_files", "delete_files+rollback"]
# untampered table operations: their inputs are the ARRANGEMENT of the root, not a string
PLAIN_TABLE_ENTRIES = ["plain:garbage_collect", "plain:scan", "plain:append_records+gc", "plain:open+row_count"]


def harvest_magnitudes(lo: int = 1024) -> List[int]:
    """Integer magnitudes >= lo that the read / write modules compare sizes or counts with: every constant-foldable integer
    expression of their source (32 * 1024 * 1024, 1 << 20, 100000 ...).  ast walk; nothing hard-coded."""
    import ast
    import datashard
    ops = {ast.Mult: lambda a, b: a * b, ast.Add: lambda a, b: a + b, ast.Sub: lambda a, b: a - b,
           ast.LShift: lambda a, b: a << b if 0 <= b < 64 else None, ast.Pow: lambda a, b: a ** b if 0 <= b < 64 else None}

    def fold(n: ast.AST) -> Optional[int]:
        if isinstance(n, ast.Constant) and type(n.value) is int:
            return n.value
        if isinstance(n, ast.BinOp) and type(n.op) in ops:
            a, b = fold(n.left), fold(n.right)
            if a is not None and b is not None:
                try:
                    return ops[type(n.op)](a, b)
                except Exception:     # noqa: BLE001
                    return None
        return None
    out = set()
    base = os.path.dirname(datashard.__file__)
    for m in ("data_operations.py", "transaction.py", "file_manager.py", "integrity.py", "storage_backend.py"):
        with open(os.path.join(base, m), encoding="utf-8") as f:
            for n in ast.walk(ast.parse(f.read())):
                v = fold(n)
                if v is not None and lo <= v < (1 << 62):
                    out.add(v)
    return sorted(out)


def table_call(wsp: pathaudit.Workspace, base: str, entry: str, p: str) -> Callable[[], Any]:
    from datashard import load_table
    from datashard.data_structures import DataFile, FileFormat

    def go() -> Any:
        kind, _, what = entry.partition(":")
        if kind == "plain":
            t = load_table(base)
            if what == "garbage_collect":
                return t.garbage_collect(grace_period_ms=0)
            if what == "scan":
                return len(t.scan())
            if what == "append_records+gc":
                t.append_records([{"k": 3}])
                return load_table(base).garbage_collect(grace_period_ms=0)
            return t.row_count()
        if kind == "scan":
            pathaudit.tamper(wsp.root, what, p)
            return load_table(base).scan()
        if kind == "row_count":
            pathaudit.tamper(wsp.root, what, p)
            return load_table(base).row_count()
        if entry == "gc:marker_payload":
            pathaudit.tamper(wsp.root, "marker_payload", p)
            return load_table(base).garbage_collect(grace_period_ms=0)
        if entry == "gc:manifest_path":
            pathaudit.tamper(wsp.root, "manifest_path", p)
            return load_table(base).garbage_collect(grace_period_ms=0)
        if entry == "gc:listing":
            t = load_table(base)
            real = t.storage.list_files
            t.storage.list_files = lambda prefix: real(prefix) + [p]       # a listing that hands the collector p
            return t.garbage_collect(grace_period_ms=0)
        if entry == "append_files":
            t = load_table(base)
            tx = t.new_transaction()
            tx.begin()                 # (without it append_files raises "Transaction is not active" before it looks at the path)
            try:
                tx.append_files([DataFile(file_path=p, file_format=FileFormat.PARQUET, partition_values={}, record_count=1, file_size_in_bytes=1)])
                return tx.commit()
            finally:
                if tx.is_active():
                    tx.rollback()
        if entry == "delete_files+rollback":
            t = load_table(base)
            tx = t.new_transaction()
            tx.begin()                 # rollback() of a transaction that was never begun returns False without touching anything
            tx._written_files.append(p)            # what rollback cleans up: paths the transaction recorded
            return tx.rollback()
        raise ValueError(entry)
    return go


def oracle_table(ctx, strings: Sequence[str]) -> None:
    outcomes: collections.Counter = collections.Counter()
    n = 0
    brk = Breaker()
    audit = Audit.get()
    for arrangement, spec_fn in (("standard", pathfs.standard_spec), ("acyclic", pathfs.acyclic_spec)):
        wsp = pathaudit.Workspace(os.path.join(ctx.scratch, "ws-table-" + arrangement), with_table=True, spec_fn=spec_fn)
        judge = pathaudit.Judge(wsp)
        shrunk: set = set()
        for base_kind, base in (("direct", wsp.root), ("symlink", wsp.lnroot)):
            for entry in PLAIN_TABLE_ENTRIES:
                if brk.tripped(entry):
                    continue
                outcome, problems = pathaudit.run_case(wsp, judge, audit, entry, table_call(wsp, base, entry, "-"), "-", base_kind, False,
                                                       ignore_rules=("reject",))
                brk.note(entry, outcome)
                outcomes[f"{entry}:{outcome}"] += 1
                n += 1
                ctx.count(1, ("table", arrangement, entry, base_kind))
                report(ctx, problems)
            if arrangement != "standard":
                continue
            mags = harvest_magnitudes()
            ctx.stats["entry_magnitudes_harvested"] = mags
            # (the magnitude entries: every harvested magnitude c as c and c + 1, on the strings that leave the root or name a link)
            mag_entries = [f"scan:manifest_entry@{v}" for c in mags for v in ((c, c + 1) if ctx.tier != "quick" else (c + 1,))]
            for entry in TABLE_ENTRIES + mag_entries:
                # the collector never resolves a marker payload (it only protects that name) and treats listed /
                # rollback paths best-effort: for those only the touch and sentinel rules apply
                absolute_capable = entry.startswith(("scan", "row_count", "append"))
                for p in (strings if "@" not in entry else [x for x in strings if ".." in x or "ln" in x or "link" in x or x.startswith("/")][:: (4 if ctx.tier == "quick" else 1)]):
                    if brk.tripped(entry):
                        continue
                    outcome, problems = pathaudit.run_case(wsp, judge, audit, entry, table_call(wsp, base, entry, p), p, base_kind, absolute_capable,
                                                           call=(lambda s_, base=base, entry=entry: table_call(wsp, base, entry, s_)) if (entry, base_kind) not in shrunk else None,
                                                           ignore_rules=("reject",) if entry.startswith(("gc:", "delete_files")) else ())
                    brk.note(entry, outcome)
                    if problems:
                        shrunk.add((entry, base_kind))
                    outcomes[f"{entry}:{outcome}"] += 1
                    n += 1
                    ctx.count(1, ("table", entry, base_kind, p))
                    report(ctx, problems)
        shutil.rmtree(wsp.ws, ignore_errors=True)
    ctx.stats["audit_table_calls"] = n
    ctx.stats["audit_outcomes_table"] = dict(sorted(outcomes.items()))
    ctx.stats["audit_table_skipped_after_runaway"] = dict(brk.skipped)


# ------------------------------------------------------------------------------------------ oracle: histories
HISTORY_PATHS = {
    "dir->outlink:data": ["data/f.parquet", "/data/f.parquet", "data/part/a.parquet", "data", "data/new.parquet", "<ws>/wh/tbl/data/f.parquet"],
    "files->outlinks:data": ["data/f.parquet", "/data/f.parquet", "<ws>/wh/tbl/data/f.parquet", "data"],
    "subdir->outlink:data/part": ["data/part/a.parquet", "/data/part/a.parquet", "data/part", "data/part/new.parquet"],
    "dir->siblinglink:data": ["data/f.parquet", "/data/f.parquet", "data"],
    "dir->outlink:metadata": ["metadata/m.json", "/metadata/m.json", "metadata"],
    "outlink->dir:data/ext": ["data/ext/secret.txt", "data/ext"],
}


def history_cases(tier: str) -> List[Tuple[str, str, List[List[str]]]]:
    """(handle kind, root spelling, steps): use a string, CHANGE the arrangement, use the same string again through the
    same handle -- every second-use entry point x first-use entry points that make the handle resolve the string."""
    quick = tier == "quick"
    out: List[Tuple[str, str, List[List[str]]]] = []
    first = {"storage": ["read_file", "write_file"] if quick else ["read_file", "write_file", "exists", "list_files", "get_size"],
             "dfm": list(pathaudit.dfm_entry_points())}
    second = {"storage": list(pathaudit.storage_entry_points()), "dfm": list(pathaudit.dfm_entry_points())}
    for kind in ("dfm", "storage"):
        for mut in pathaudit.MUTATIONS:
            paths = HISTORY_PATHS[mut]
            if quick and kind == "storage":
                paths = paths[:3]
            for base_kind in ("direct", "symlink"):
                for p in paths:
                    for e1 in first[kind]:
                        for e2 in second[kind]:
                            out.append((kind, base_kind, [["call", e1, p], ["mutate", mut], ["call", e2, p]]))
    tops = list(pathaudit.table_ops())
    for mut in pathaudit.MUTATIONS[:5]:
        firsts = ["scan_noverify"] + (["append_records"] if mut == "dir->outlink:data" or not quick else []) + ([] if quick else ["scan", "row_count"])
        for base_kind in ("direct", "symlink"):
            for e1 in firsts:
                for e2 in tops:
                    out.append(("table", base_kind, [["call", e1, "-"], ["mutate", mut], ["call", e2, "-"]]))
    # longer histories: change, use, change back, use -- and two different changes in a row
    for kind, e in (("dfm", "open_parquet_source"), ("storage", "read_file")):
        for base_kind in ("direct", "symlink"):
            out.append((kind, base_kind, [["call", e, "data/f.parquet"], ["mutate", "files->outlinks:data"], ["call", e, "data/f.parquet"],
                                          ["mutate", "dir->outlink:data"], ["call", e, "data/f.parquet"], ["call", e, "data/part/a.parquet"]]))
    return out


def oracle_history(ctx) -> None:
    audit = Audit.get()
    cases = history_cases(ctx.tier)
    wsps: Dict[bool, pathaudit.Workspace] = {}
    judges: Dict[bool, pathaudit.Judge] = {}
    brk = Breaker(limit=3)
    outcomes: collections.Counter = collections.Counter()
    n = 0
    for kind, base_kind, steps in cases:
        tbl = kind == "table"
        if tbl not in wsps:
            wsps[tbl] = pathaudit.history_workspace(os.path.join(ctx.scratch, "ws-history-" + ("table" if tbl else "plain")), with_table=tbl)
            judges[tbl] = pathaudit.Judge(wsps[tbl])
        last = steps[-1][1]
        if brk.tripped(f"{kind}:{last}"):
            continue
        outs, problems = pathaudit.run_history(wsps[tbl], judges[tbl], audit, kind, base_kind, steps)
        for o in outs:
            brk.note(f"{kind}:{last}", o)
        outcomes[f"{kind}:{steps[1][1] if steps[1][0] == 'mutate' else '-'}:{last}:{outs[-1]}"] += 1
        n += 1
        ctx.count(1, ("history", kind, base_kind, repr(steps)))
        report(ctx, problems)
    ctx.stats["history_cases"] = n
    ctx.stats["history_outcomes_second_use"] = dict(sorted(outcomes.items()))
    ctx.sample({"history_case": {"handle": cases[0][0], "base": cases[0][1], "steps": cases[0][2]}})
    for w in wsps.values():
        shutil.rmtree(w.ws, ignore_errors=True)


# ------------------------------------------------------------------------------------------ oracle: sessions
# Operation SEQUENCES on one long-lived handle over a STATIC arrangement: the steps use DIFFERENT strings, and the strings of the
# later steps are the names a listing of the root hands out (files AND file symlinks: os.walk reports a link to a file among a
# directory's files).  A handle that remembers anything about a name it has listed / probed / read before -- and then skips the
# boundary check for it -- is judged here: every step is judged on its own, by the kernel, exactly like a single call.
READ_ONLY_ENTRIES = ["exists", "read_file", "open_file", "open_seekable", "get_size", "get_modified_time", "read_json", "list_files"]
MUTATING_ENTRIES = ["create_lock", "write_file", "write_json", "makedirs", "delete_file"]
SESSION_PREFIXES = ["", "data", "/data", "metadata", "data/part", "metadata/inflight", "metadata/manifests", "."]


def session_heads(kind: str, tier: str) -> List[List[List[str]]]:
    """What the handle does FIRST (the part of a session that could leave something behind in the object)."""
    quick = tier == "quick"
    if kind == "storage":
        pre = SESSION_PREFIXES[:5] if quick else SESSION_PREFIXES
        heads = [[["call", "list_files", q]] for q in pre]
        heads += [[["call", "read_file", "data/f.parquet"]], [["call", "exists", "data/ln_inside"]]]
        if not quick:
            heads += [[["call", e, "data/ln_file"]] for e in ("exists", "read_file", "get_size")] + \
                     [[["call", "list_files", "data"], ["call", "list_files", ""]], [["call", "write_file", "data/new.parquet"], ["call", "list_files", "data"]]]
        return heads
    if kind == "dfm":
        pre = ["", "data", "data/part"] if quick else SESSION_PREFIXES
        return [[["call", "storage.list_files", q]] for q in pre] + [[["call", "storage.exists", "data/ln_inside"]], [["call", "read_data_file", "data/ln_inside"]]]
    heads = [[["call", "garbage_collect", "-"]], [["call", "garbage_collect_default", "-"]], [["call", "refresh", "-"]], [["call", "scan_noverify", "-"]],
             [["call", "storage.list_files", "data"]], [["call", "storage.list_files", ""]],
             [["mutate", "remove:metadata/version-hint.text"], ["call", "refresh", "-"]]]
    if not quick:
        heads += [[["call", "append_records", "-"]], [["call", "row_count", "-"]], [["call", "garbage_collect_default", "-"], ["call", "garbage_collect", "-"]]]
    return heads


def session_tail(kind: str, tier: str, wsp: pathaudit.Workspace) -> List[List[str]]:
    """Every entry point x every name a listing of this root can hand out (harness's own enumeration, no library code)."""
    quick = tier == "quick"
    names = pathfs.entries_below(wsp.root)
    links = [n for n in names if os.path.islink(os.path.join(wsp.root, n))]
    if kind == "storage":
        strs = names + ["/" + n for n in (links[:4] if quick else links)]
        return [["call", e, n] for e in READ_ONLY_ENTRIES for n in strs] + [["call", e, n] for e in MUTATING_ENTRIES for n in strs]
    if kind == "dfm":
        strs = names + ["/" + n for n in links[:4]] + ["<ws>/wh/" + pathfs.ROOT_NAME + "/" + n for n in links] + ["<ws>/wh/lnroot/" + n for n in links[:4]]
        return [["call", e, n] for e in ("open_parquet_source", "read_data_file", "write_data_file") for n in strs]
    # table: register each listed name as a pre-built data file, read in between, collect at the end
    own = [n for n in names if n.startswith("data/") and n not in links][:2]
    tail: List[List[str]] = []
    for n in links + own + ["/" + n for n in links[:3]] + ["<ws>/wh/" + pathfs.ROOT_NAME + "/" + n for n in links[:3]]:
        tail.append(["call", "append_files", n])
        tail.append(["call", "scan_noverify", "-"])
    tail += [["call", e, "-"] for e in (["scan", "row_count", "garbage_collect"] if quick else list(pathaudit.table_ops()))]
    return tail


def shrink_session(wsp, judge, audit, kind: str, base_kind: str, steps: List[List[str]], head_len: int, i: int, rules: set,
                   fallback: List[Dict[str, Any]]) -> List[Dict[str, Any]]:
    """Step i failed: that step alone (then the failure does not depend on the history), else head + that step, else the whole prefix."""
    cands: List[List[List[str]]] = []
    if i > 0:
        cands.append([steps[i]])
    if head_len < i:
        cands.append(steps[:head_len] + [steps[i]])
    cands.append(steps[:i + 1])
    for cand in cands:
        _outs, prs = pathaudit.run_history(wsp, judge, audit, kind, base_kind, cand)
        prs = [pr for pr in prs if pr["step"] == len(cand) - 1 and pr["rule"] in rules]
        if prs:
            for pr in prs:
                pr["shrunk_from_steps"] = i + 1
            return prs
    return fallback


def oracle_sessions(ctx) -> None:
    audit = Audit.get()
    brk = Breaker(limit=3)
    outcomes: collections.Counter = collections.Counter()
    n_sessions = n_calls = suppressed = 0
    reported: set = set()
    sample = None
    for kind in ("storage", "dfm", "table"):
        wsp = pathaudit.session_workspace(os.path.join(ctx.scratch, "ws-session-" + kind), with_table=(kind == "table"))
        judge = pathaudit.Judge(wsp)
        tail = session_tail(kind, ctx.tier, wsp)
        for base_kind in ("direct", "symlink"):
            for head in session_heads(kind, ctx.tier):
                label = f"session:{kind}"
                if brk.tripped(label):
                    continue
                steps = [list(st) for st in head] + [list(st) for st in tail]
                outs, problems = pathaudit.run_history(wsp, judge, audit, kind, base_kind, steps)
                for o in outs:
                    brk.note(label, o)
                n_sessions += 1
                calls = [st for st in steps if st[0] == "call"]
                n_calls += len(calls)
                ctx.count(len(calls), ("session", kind, base_kind, repr(head)))
                for st, o in zip(steps, outs):
                    if st[0] == "call":
                        outcomes[f"{kind}:{st[1]}:{o}"] += 1
                if sample is None:
                    sample = {"session_case": {"handle": kind, "base": base_kind, "arrangement": "filelink_spec", "steps": steps[:len(head) + 3] + [["..."]]}}
                # one report per (rule, entry point): the earliest failing step of that kind, shrunk
                for pr in sorted(problems, key=lambda q: q["step"]):
                    key = (pr["rule"], pr["entry"])
                    if key in reported:
                        suppressed += 1
                        continue
                    reported.add(key)
                    same = [q for q in problems if q["step"] == pr["step"] and q["entry"] == pr["entry"]]
                    for q in same:
                        reported.add((q["rule"], q["entry"]))
                    out = shrink_session(wsp, judge, audit, kind, base_kind, steps, len(head), pr["step"], {q["rule"] for q in same}, same)
                    for q in out:
                        q["history"]["arrangement"] = "filelink_spec"
                    report(ctx, out)
        shutil.rmtree(wsp.ws, ignore_errors=True)
    ctx.stats["session_count"] = n_sessions
    ctx.stats["session_calls"] = n_calls
    ctx.stats["session_problems_not_reported_again"] = suppressed
    ctx.stats["session_outcomes"] = dict(sorted(outcomes.items()))
    if sample:
        ctx.sample(sample)


def corr_history(ctx) -> None:
    """Statelessness, differentially: ONE LocalStorageBackend / DataFileManager per (change, root spelling) resolves every string
    under the first arrangement, the arrangement is changed, the SAME objects resolve every string again; both passes must equal the
    model evaluated on the tree of that pass (run_history = map run_entry)."""
    from datashard.storage_backend import LocalStorageBackend
    strings = ["", ".", "data", "metadata"] + pathfs.grammar(2, ["..", "data", "metadata", "part", "ext", "hot", "f.parquet", "a.parquet", "m.json", "secret.txt"])
    strings = list(dict.fromkeys(strings))
    exprs: List[str] = []
    impl: List[Tuple[Any, ...]] = []
    meta: List[Dict[str, Any]] = []
    pre: List[str] = []
    top = os.path.realpath(tempfile.mkdtemp(prefix="ws-hist-corr-", dir=ctx.scratch))
    for mi, mut in enumerate(pathaudit.MUTATIONS):
        for base_kind in ("direct", "symlink"):
            wsp = pathaudit.history_workspace(os.path.join(top, f"m{mi}{base_kind}"), with_table=False)
            base = wsp.root if base_kind == "direct" else wsp.lnroot
            codes = Codes()
            calls = ImplCalls(ctx, "acyclic_spec", wsp.ws)
            b = LocalStorageBackend(base)
            dfm = pathaudit.make_dfm(base)
            extra = [wsp.root + "/data/f.parquet", wsp.lnroot + "/data/part/a.parquet", wsp.ws + "/out/shadow_data/f.parquet"]
            for phase in (1, 2):
                if phase == 2:
                    pathaudit.mutate(wsp, mut)
                tname = f"T_{mi}_{base_kind}_{phase}"
                tree_now = pathfs.spec_to_coq(wsp.ws, pathfs.scan_spec(wsp.ws), codes)
                pre.append((tname, tree_now))
                base_c = coq_list(codes.pstr(base))
                for p in strings + extra:
                    hist = {"rule": "runaway", "history": {"handle": "dfm", "base": base_kind,
                                                           "steps": [["call", "open_parquet_source", p.replace(wsp.ws, "<ws>")], ["mutate", mut],
                                                                     ["call", "open_parquet_source", p.replace(wsp.ws, "<ws>")]]}}
                    listed, _sc = calls.listing(base_kind, b, codes, p, hist)
                    impl.append((calls.resolve("_resolve_path", base_kind, b._resolve_path, codes, p, hist),
                                 calls.resolve("_get_arrow_path", base_kind, dfm._get_arrow_path, codes, p, hist), listed))
                    pc = coq_list(codes.pstr(p))
                    exprs.append((tname, f"(resolve {FUEL} {tname} [] {base_c} {pc}, arrow_path {FUEL} {tname} [] gen_table_dirs {base_c} {pc}, "
                                         f"list_files {FUEL} {KFUEL} {tname} [] {base_c} {pc})"))
                    meta.append({"change": mut, "base": base_kind, "pass": phase, "path": p.replace(wsp.ws, "<ws>")})
            # codes differ per workspace: finalise this workspace's trees now (names are allocated lazily, trees rendered above)
    preamble = "\n".join(f"Definition {n} : tree := {t}." for n, t in pre)
    got = coqbuild.coq_eval(REQ, [e for _t, e in exprs], preamble=preamble, chunk=300)
    names = ["hist-resolve", "hist-arrow", "hist-listing"]
    bad: Dict[str, List[Any]] = {n: [] for n in names}
    for m, im, g in zip(meta, impl, got):
        ctx.count(1, ("hist-corr", repr(m)))
        for i, n in enumerate(names):
            gv, iv = norm_model(g[i]), im[i]
            if isinstance(iv, tuple) and len(iv) == 3 and iv[1] == "skipped":
                continue
            if gv != iv:
                bad[n].append({**m, "impl": repr(iv)[:300], "model": repr(gv)[:300]})
    for n in names:
        ctx.correspondence(n, len(meta), bad[n])
    ctx.stats["corr_history_cases"] = len(meta)
    shutil.rmtree(top, ignore_errors=True)


def corr_sessions(ctx) -> None:
    """Model/Path.v run_session vs ONE long-lived LocalStorageBackend + DataFileManager per (prefix, root spelling) on the file-link
    arrangement: the objects list the prefix, then resolve EVERY NAME THE LISTING RETURNED (through _resolve_path and through
    _get_arrow_path, same objects).  The model runs the session [list prefix; read (SListed 0 k); parquet-source (SListed 0 k) ...] --
    its own listing feeds its own later steps -- and both sides must agree name by name: the names handed out, and for each name the
    location answered or the Security refusal."""
    from datashard.storage_backend import LocalStorageBackend
    ws = os.path.realpath(tempfile.mkdtemp(prefix="ws-corr-sess-", dir=ctx.scratch))
    spec = pathfs.filelink_spec(ws)
    pathfs.materialise(ws, spec)
    root = os.path.join(ws, "wh", pathfs.ROOT_NAME)
    wh = os.path.join(ws, "wh")
    codes = Codes()
    tree = pathfs.spec_to_coq(ws, spec, codes)
    nmax = len(pathfs.entries_below(root)) + 2              # more references than names: the surplus ones must execute nothing
    prefixes = SESSION_PREFIXES + ["data/ln_file", "data/ext", "metadata/../data", "nowhere"]
    calls = ImplCalls(ctx, "filelink_spec", ws)
    exprs: List[str] = []
    impl: List[Any] = []
    meta: List[Dict[str, Any]] = []
    old_cwd = os.getcwd()
    try:
        for bk, base, cwd in (("direct", root, wh), ("symlink", os.path.join(wh, "lnroot"), wh), ("relative", pathfs.ROOT_NAME, wh)):
            os.chdir(cwd)
            for pre in prefixes:
                b = LocalStorageBackend(base)                # ONE backend object for the whole session
                dfm = pathaudit.make_dfm(base)
                dfm.storage = b
                dfm.file_manager.storage = b
                listed, _sc = calls.listing(bk, b, codes, pre)
                per_name: Dict[Tuple[int, ...], Tuple[Any, Any]] = {}
                if isinstance(listed, C) and listed.name == "Ok":
                    for r in listed.args[0]:
                        rs = codes.unpstr(r)
                        per_name[tuple(r)] = (calls.resolve("_resolve_path", bk, b._resolve_path, codes, rs), calls.resolve("_get_arrow_path", bk, dfm._get_arrow_path, codes, rs))
                impl.append((listed, per_name))
                steps = [f"(T, EpList, SLit {coq_list(codes.pstr(pre))})"]
                for k in range(nmax):
                    steps += [f"(T, EpRead, SListed 0 {k})", f"(T, EpParquetSource, SListed 0 {k})"]
                exprs.append(f"run_session {FUEL} {KFUEL} {coq_list(codes.loc(cwd))} gen_table_dirs {coq_list(codes.pstr(base))} [{'; '.join(steps)}]")
                meta.append({"base": bk, "prefix": pre})
    finally:
        os.chdir(old_cwd)
    got = coqbuild.coq_eval(REQ, exprs, preamble=f"Definition T : tree := {tree}.", chunk=12)
    bad: List[Any] = []
    n_names = 0

    def acc_of(o: Any) -> Any:
        """Some (Ok [(ARead, q)]) -> Ok q ; Some (Err e) -> Err e ; None -> None"""
        if o is None or (isinstance(o, C) and o.name == "None"):
            return None
        v = o.x if hasattr(o, "x") else (o.args[0] if isinstance(o, C) and o.name == "Some" else o)
        if isinstance(v, C) and v.name == "Ok":
            return C("Ok", list(v.args[0][0][1]))
        return v

    for m, (listed, per_name), g in zip(meta, impl, got):
        ctx.count(1, ("corr-session", m["base"], m["prefix"]))
        if isinstance(listed, tuple) and len(listed) == 3 and listed[1] == "skipped":
            continue
        first = g[0]
        model_list = acc_of(first[0])
        names = [list(n) for n in first[1]]
        if isinstance(listed, C) and listed.name == "Ok":
            if sorted(names) != listed.args[0] or not (isinstance(model_list, C) and model_list.name == "Ok"):
                bad.append({**m, "what": "names handed out", "impl": repr(listed)[:300], "model": repr(first)[:300]})
                continue
        else:
            if model_list != listed or names:
                bad.append({**m, "what": "listing outcome", "impl": repr(listed)[:300], "model": repr(first)[:300]})
            # no names: every later step must have executed nothing
        for k in range(nmax):
            o_read, o_arrow = g[1 + 2 * k], g[2 + 2 * k]
            if k >= len(names):
                if acc_of(o_read[0]) is not None or acc_of(o_arrow[0]) is not None:
                    bad.append({**m, "what": f"reference {k} beyond the {len(names)} names executed", "model": repr(o_read)[:200]})
                continue
            n_names += 1
            iv = per_name.get(tuple(names[k]))
            mv = (acc_of(o_read[0]), acc_of(o_arrow[0]))
            if iv is None or any(isinstance(x, tuple) and len(x) == 3 and x[1] == "skipped" for x in iv):
                continue
            if mv != iv:
                bad.append({**m, "what": "use of listed name " + codes.unpstr(names[k]), "impl": repr(iv)[:300], "model": repr(mv)[:300]})
    ctx.correspondence("sessions", len(meta), bad)
    ctx.stats["corr_session_listed_names_used"] = n_names
    ctx.sample({"corr_session": {"base": meta[0]["base"], "prefix": meta[0]["prefix"], "model": repr(got[0])[:300]}})
    shutil.rmtree(ws, ignore_errors=True)


# ------------------------------------------------------------------------------------------ oracle: the object-store backend
S3_PREFIXES = ["wh/t", "wh/t/", "t", "team/wh/t", ""]
S3_COMPONENTS = ["..", ".", "", "data", "metadata", "x", "t2", "f.parquet"]


def s3_objects(prefix: str) -> Dict[str, bytes]:
    """Bucket content: the table's own keys, a sibling table whose name has the table's name as a string prefix, keys one and two
    levels above the table prefix, the bucket root, and keys spelled with literal '..' segments (S3 keys are opaque strings)."""
    pre = prefix.rstrip("/")
    comps = [c for c in pre.split("/") if c]
    objs: Dict[str, bytes] = {}
    own = (pre + "/") if pre else ""
    for k in ("data/f.parquet", "data/sub/g.parquet", "metadata/m.json", "metadata/inflight/a.inflight", "x"):
        objs[own + k] = b"OWN:" + k.encode()
    sib = "/".join(comps[:-1] + [comps[-1] + "2"]) if comps else "t2"
    for k in ("data/f.parquet", "data/x", "secret.txt", "x", "metadata/m.json"):
        objs[sib + "/" + k] = b"SIBLING:" + k.encode()
    for up in range(0, len(comps)):
        objs["/".join(comps[:up] + ["secret.txt"])] = b"ABOVE"
        objs["/".join(comps[:up] + ["data", "f.parquet"])] = b"ABOVE-DATA"
    objs["etc/passwd"] = b"ROOT"
    objs["secret.txt"] = b"BUCKET-ROOT"
    return objs


def s3_under(prefix: str, key: str) -> bool:
    """Component-wise, on the opaque key string: the table prefix itself or something below it."""
    pre = prefix.rstrip("/")
    return pre == "" or key == pre or key.startswith(pre + "/")


def s3_entry_points() -> Dict[str, Callable[[Any, str], Any]]:
    def lock(b: Any, p: str) -> Any:
        lk = b.create_lock(p, timeout=0.0)
        got = False
        try:
            got = lk.acquire()
        finally:
            if got:
                lk.release()
        return got

    def cas(b: Any, p: str) -> Any:
        try:
            _body, etag = b.read_file_with_etag(p)
        except Exception:                       # noqa: BLE001
            etag = None
        return b.write_file_cas(p, b"CAS", etag)

    def via_dfm(name: str) -> Callable[[Any, str], Any]:
        def go(b: Any, p: str) -> Any:
            from datashard.data_operations import DataFileManager
            dfm = DataFileManager.__new__(DataFileManager)
            dfm.storage, dfm.file_manager, dfm._arrow_schema_cache, dfm._pyarrow_fs = b, None, {}, None
            for attr in ("_arrow_path_cache",):
                setattr(dfm, attr, {})
            if name == "read_data_file":
                return dfm.read_data_file(p)
            with dfm.open_parquet_source(p) as f:
                return f.read(4)
        return go

    return {
        "read_file": lambda b, p: b.read_file(p),
        "read_file_with_etag": lambda b, p: b.read_file_with_etag(p),
        "read_json": lambda b, p: b.read_json(p),
        "open_file": lambda b, p: b.open_file(p).read(4),
        "open_seekable": lambda b, p: b.open_seekable(p).read(4),
        "write_file": lambda b, p: b.write_file(p, b"WRITTEN"),
        "write_json": lambda b, p: b.write_json(p, {"w": 1}),
        "write_file_cas": cas,
        "exists": lambda b, p: b.exists(p),
        "list_files": lambda b, p: b.list_files(p),
        "delete_file": lambda b, p: b.delete_file(p),
        "makedirs": lambda b, p: b.makedirs(p),
        "get_size": lambda b, p: b.get_size(p),
        "get_modified_time": lambda b, p: b.get_modified_time(p),
        "create_lock": lock,
        "dfm.read_data_file": via_dfm("read_data_file"),
        "dfm.open_parquet_source": via_dfm("open_parquet_source"),
    }


def s3_case(entry: str, prefix: str, conditional: bool, p: str) -> Tuple[str, List[Dict[str, Any]]]:
    """One call on a fresh in-memory bucket.  Judged on the REQUESTS the client received (every key / listing Prefix must be the
    table prefix or below it, component-wise, or no request at all), on the objects outside the prefix (unchanged), and on what a
    listing returns (existing keys below the prefix)."""
    from harness.lib import mems3
    client = mems3.MemS3(lambda: 1_700_000_000_000)
    before = s3_objects(prefix)
    for k, v in before.items():
        client._put(k, v)
    b = mems3.make_s3_backend(client, prefix=prefix, conditional=conditional)
    fn = s3_entry_points()[entry]
    client.requests.clear()
    status, val = bounded.get_guard().run(f"s3:{entry}({p!r})", {"rule": "runaway", "entry": "s3:" + entry, "path": p, "s3_prefix": prefix,
                                                                  "conditional": conditional}, lambda: fn(b, p))
    problems: List[Dict[str, Any]] = []
    common = {"entry": "s3:" + entry, "path": p, "s3_prefix": prefix, "conditional": conditional, "base": "s3", "arrangement": "in-memory bucket"}
    if status == "runaway":
        problems.append({"rule": "runaway", "outcome": "runaway", "why": val, "os_calls_before_the_limit": len(client.requests), **common})
        outcome = "runaway"
    else:
        outcome = "ok" if status == "ok" else pathaudit.classify_exc(val)
    foreign = [(op, key) for op, key in client.requests if not s3_under(prefix, key)]
    if foreign:
        problems.append({"rule": "s3key", "outcome": outcome, "requests_outside_prefix": foreign[:4], **common})
    changed = []
    for k, v in before.items():
        if not s3_under(prefix, k):
            o = client.objects.get(k)
            if o is None or o["body"] != v:
                changed.append(k)
    changed += [k for k in client.objects if k not in before and not s3_under(prefix, k)]
    if changed:
        problems.append({"rule": "s3sentinel", "outcome": outcome, "objects_outside_prefix_changed": sorted(changed)[:4], **common})
    if entry == "list_files" and status == "ok" and isinstance(val, list):
        pre = prefix.rstrip("/")
        bad = [r for r in val if not isinstance(r, str) or ((pre + "/" + r) if pre else r) not in client.objects
               or not s3_under(prefix, (pre + "/" + r) if pre else r) or r.startswith("/")]
        if bad:
            problems.append({"rule": "s3listed", "outcome": outcome, "returned_not_below_prefix": bad[:4], **common})
    return outcome, problems


def report_s3(ctx, problems: List[Dict[str, Any]]) -> None:
    for pr in problems:
        detail = pr.get("requests_outside_prefix") or pr.get("objects_outside_prefix_changed") or pr.get("returned_not_below_prefix") or pr.get("why")
        what = {"s3key": "sent requests for keys outside the table prefix", "s3sentinel": "changed objects outside the table prefix",
                "s3listed": "returned names that are not keys below the table prefix", "runaway": "did not return"}[pr["rule"]]
        ctx.violation(f"{pr['rule']}:{pr['entry']}",
                      f"S3 backend with prefix {pr['s3_prefix']!r}: {pr['entry'][3:]}({pr['path']!r}) {what}: {detail} (outcome {pr['outcome']})", pr)


def oracle_s3(ctx) -> None:
    """The object-store backend under the path grammar: S3StorageBackend over an in-memory client, with and without a configured
    prefix, conditional writes on / off, every storage entry point (and the parquet read path for a tampered manifest entry)."""
    import datashard.s3_consistency as s3c
    quick = ctx.tier == "quick"
    strings = ["", ".", "/", "..", "../t2/data/x", "../../secret.txt", "../t2/secret.txt", "data/../../t2/data/f.parquet", "/../t2/x", "//wh/t2/x",
               "/wh/t2/secret.txt", "wh/t2/secret.txt", "../t/data/f.parquet", "data/./f.parquet", "data//f.parquet", "../../../etc/passwd",
               "/etc/passwd", "data/..", "data/../..", "../t2", "../t2/", "../", "metadata/../../secret.txt", "x/../../t2/x", "./../t2/x"]
    g = pathfs.grammar(3, S3_COMPONENTS)
    strings += g if not quick else pathfs.grammar(2, S3_COMPONENTS) + ctx.rng.sample(g, 60)
    strings = list(dict.fromkeys(strings))
    real_sleep = s3c.time.sleep
    outcomes: collections.Counter = collections.Counter()
    brk = Breaker()
    shrunk: set = set()
    n = 0
    try:
        s3c.time.sleep = lambda _s: None          # retry back-off is virtual here (C20 checks the retry policy)
        for prefix in S3_PREFIXES:
            for conditional in ((True,) if quick and prefix != "wh/t" else (True, False)):
                for entry in s3_entry_points():
                    for p in (strings if prefix in ("wh/t", "t") or not quick else strings[::4]):
                        if brk.tripped(entry):
                            continue
                        outcome, problems = s3_case(entry, prefix, conditional, p)
                        brk.note(entry, outcome)
                        n += 1
                        ctx.count(1, ("s3", prefix, conditional, entry, p))
                        outcomes[f"{entry}:{outcome}"] += 1
                        if problems and entry not in shrunk:
                            shrunk.add(entry)
                            rules = {pr["rule"] for pr in problems}
                            best, improved = p, True
                            while improved:
                                improved = False
                                comps = best.split("/")
                                for i in range(len(comps)):
                                    cand = "/".join(comps[:i] + comps[i + 1:])
                                    if cand == best:
                                        continue
                                    _o, prs = s3_case(entry, prefix, conditional, cand)
                                    prs = [pr for pr in prs if pr["rule"] in rules]
                                    if prs and _o == outcome:       # keep the symptom's strength (a read that SUCCEEDS stays one)
                                        best, problems, improved = cand, prs, True
                                        break
                            for pr in problems:
                                pr["shrunk_from"] = p
                        report_s3(ctx, problems)
    finally:
        s3c.time.sleep = real_sleep
    ctx.stats["audit_s3_calls"] = n
    ctx.stats["audit_s3_outcomes"] = dict(sorted(outcomes.items()))
    ctx.sample({"s3_case": {"prefix": S3_PREFIXES[0], "entry": "read_file", "path": strings[4]}})


def corr_s3_keys(ctx) -> None:
    """Real _get_s3_key and the Prefix= a real list_files sends  vs  Gen/GenS3.v (regenerated) on the path grammar."""
    from harness.lib import mems3
    from harness.lib.coqio import coq_string
    strings = ["", "/", "..", "../t2/data/x", "//etc/passwd", "data/", "../", "data//x/"] + pathfs.grammar(2 if ctx.tier == "quick" else 3, S3_COMPONENTS)
    strings = [s_ for s_ in dict.fromkeys(strings) if all(32 <= ord(ch) < 127 and ch != '"' for ch in s_)]
    exprs, impl, meta = [], [], []
    for prefix in S3_PREFIXES:
        client = mems3.MemS3(lambda: 0)
        b = mems3.make_s3_backend(client, prefix=prefix)
        for p in strings:
            st, key = bounded.get_guard().run("_get_s3_key", {"entry": "s3:exists", "path": p, "s3_prefix": prefix}, lambda: b._get_s3_key(p))
            client.requests.clear()
            st2, _ = bounded.get_guard().run("list_files", {"entry": "s3:list_files", "path": p, "s3_prefix": prefix}, lambda: b.list_files(p))
            lp = next((k for op, k in client.requests if op == "list_objects_v2"), None)
            impl.append((key if st == "ok" else ("other", st), lp if st2 == "ok" else ("other", st2)))
            pre_c, p_c = coq_string(b.prefix), coq_string(p)
            exprs.append(f"(string_of_list_ascii (gen_get_s3_key (lit {pre_c}) (lit {p_c})), string_of_list_ascii (gen_list_prefix (lit {pre_c}) (lit {p_c})))")
            meta.append((prefix, p))
    got = coqbuild.coq_eval(REQ_S3, exprs, chunk=400)
    bad = []
    for (prefix, p), im, g in zip(meta, impl, got):
        ctx.count(1, ("s3-keys", prefix, p))
        if tuple(g) != tuple(im):
            bad.append({"s3_prefix": prefix, "path": p, "impl": repr(im), "model": repr(g)})
    ctx.correspondence("s3-keys", len(meta), bad)


STRACE_DRIVER = r"""
import os, sys
ws, verif = sys.argv[1], sys.argv[2]
sys.path.insert(0, verif)
import logging
logging.disable(logging.CRITICAL)
from harness.lib import pathaudit
wsp = pathaudit.Workspace(ws, with_table=True)
from datashard import load_table
from datashard.storage_backend import LocalStorageBackend
dfm = pathaudit.make_dfm(wsp.root)
b = LocalStorageBackend(wsp.lnroot)
def mark(n):
    try: os.mkdir("/proc/C17-MARK-" + n)
    except OSError: pass
from harness.lib import bounded
import resource
resource.setrlimit(resource.RLIMIT_AS, (6 << 30, 6 << 30))       # a runaway allocation fails here, not on the host
guard = bounded.get_guard()
guard.soft_s, guard.hard_s = 5.0, 60.0
def call(f):
    mark("BEGIN")                      # only the library's own system calls lie between BEGIN and END
    try:
        status, val = guard.run("strace-driver call", None, f)
        if status == "runaway":
            print("RUNAWAY", val, flush=True)
    finally: mark("END")
strings = ["data/f.parquet", "/data/f.parquet", "ln_in/f.parquet", "ln_out/secret.txt", "../tbl2/secret.txt", "ln_up/tbl2/secret.txt",
           "ln_loop/../ln_out/secret.txt", "ln_loop/../data/ln_file", wsp.ws + "/out/data/f.parquet", wsp.ws + "/wh/tbl/data/f.parquet",
           wsp.ws + "/wh/tbl/ln_loop/../ln_out/secret.txt", "new.parquet", "data/sub/new.parquet", "", ".", "data/.."]
for p in strings:
    for name, fn in list(pathaudit.dfm_entry_points().items()) + list(pathaudit.storage_entry_points().items()):
        call(lambda: fn(dfm if name in pathaudit.dfm_entry_points() else b, p))
for what in ("manifest_entry", "manifest_entry_nochecksum"):
    for p in ("ln_out/data/f.parquet", "ln_loop/../ln_out/data/f.parquet", wsp.ws + "/out/data/f.parquet"):
        wsp.rebuild_root()
        pathaudit.tamper(wsp.root, what, p)
        call(lambda: load_table(wsp.root).scan())
wsp.rebuild_root()
call(lambda: load_table(wsp.root).scan())
call(lambda: load_table(wsp.lnroot).garbage_collect(grace_period_ms=0))
"""


def oracle_strace(ctx) -> None:
    """System-call level cross-check (strace -f) of the pyarrow-backed and storage entry points: the audit hook does
    not see opens made by pyarrow's C++ code; strace does.  Every SUCCESSFUL file syscall between the markers whose
    kernel location lies in the workspace must lie under the table root."""
    import re
    import subprocess
    if shutil.which("strace") is None:
        ctx.stats["strace"] = "not available"
        return
    ws = os.path.join(os.path.realpath(ctx.scratch), "ws-strace")
    out = os.path.join(ctx.scratch, "strace.out")
    drv = os.path.join(ctx.scratch, "strace_driver.py")
    with open(drv, "w") as f:
        f.write(STRACE_DRIVER)
    calls = "open,openat,creat,unlink,unlinkat,rename,renameat,renameat2,mkdir,mkdirat,rmdir,getdents64,symlink,symlinkat,link,linkat,truncate"
    try:
        p = subprocess.run(["strace", "-f", "-qq", "-e", "trace=" + calls, "-o", out, os.sys.executable, drv, ws, coqbuild.VERIF],
                           capture_output=True, text=True, timeout=300)
    except subprocess.TimeoutExpired:
        ctx.violation("runaway:strace-driver", "the strace-traced run of the entry points did not finish within 300 s",
                      {"rule": "strace", "why": "driver timeout"})
        return
    if "RUNAWAY" in p.stdout:
        ctx.violation("runaway:strace-driver", "a library call in the strace-traced run exceeded its time limit: " + p.stdout[-300:],
                      {"rule": "strace", "why": p.stdout[-300:]})
    if not os.path.exists(out):
        ctx.stats["strace"] = f"failed: {p.stderr[-300:]}"
        return
    lines = open(out, errors="replace").read().splitlines()
    if not any("C17-MARK-BEGIN" in ln for ln in lines):
        ctx.proof_problems.append("strace cross-check: markers not found (driver failed: " + p.stderr[-300:] + ")")
        return
    root = os.path.join(ws, "wh", pathfs.ROOT_NAME)
    n = 0
    inside_call = False
    for ln in lines:
        if "C17-MARK-BEGIN" in ln:
            inside_call = True
            continue
        if "C17-MARK-END" in ln:
            inside_call = False
            continue
        if not inside_call:
            continue
        m = re.search(r"\)\s+= (-?\d+)", ln)
        if not m or int(m.group(1)) < 0:
            continue
        call = ln.split("(", 1)[0].split()[-1]
        nofollow = call in ("unlink", "unlinkat", "rename", "renameat", "renameat2", "mkdir", "mkdirat", "rmdir", "symlink", "symlinkat", "link", "linkat")
        for q in re.findall(r'"((?:[^"\\]|\\.)*)"', ln):
            if not q.startswith("/"):
                continue
            n += 1
            loc = pathfs.kernel_target(q, follow=not nofollow)
            if loc is None or not pathfs.under(ws, loc) or pathfs.under(root, loc):
                continue
            if call in ("open", "openat") and os.path.isdir(loc) and "O_DIRECTORY" not in ln:
                continue                      # a directory opened as a file: EISDIR or fsync handle, nothing read or listed
            ctx.violation(f"strace:{call}", f"system call {ln.strip()[:200]} reached {loc}, outside the table root {root}",
                          {"rule": "strace", "line": ln.strip()[:400], "kernel_location": loc})
    ctx.count(n)
    ctx.stats["strace_paths_checked"] = n
    shutil.rmtree(ws, ignore_errors=True)


# ------------------------------------------------------------------------------------------ correspondence
def res_loc(codes: Codes, path: str) -> C:
    if path.startswith("//") and not path.startswith("///"):
        path = path[1:]                     # POSIX keeps exactly two leading slashes; same location
    return C("Ok", codes.loc(path))


class ImplCalls:
    """Bounded calls of the real resolver / listing for the correspondences; a runaway is a violation with its input."""

    def __init__(self, ctx, arrangement: str, ws: str):
        self.ctx, self.arrangement, self.ws = ctx, arrangement, ws
        self.brk = Breaker()
        self.guard = bounded.get_guard()
        self.audit = Audit.get()

    def _bounded(self, entry: str, base_kind: str, p: str, fn: Callable[[], Any], extra: Optional[Dict[str, Any]] = None) -> Tuple[str, Any]:
        if self.brk.tripped(entry):
            return "skipped", None
        case = {"rule": "runaway", "entry": entry, "path": p, "base": base_kind, "workspace": self.ws, "arrangement": self.arrangement}
        case.update(extra or {})
        status, val = self.guard.run(f"{entry}({p!r})", case, fn)
        if status == "runaway":
            self.audit.on = False
            self.brk.note(entry, "runaway")
            case["why"] = val
            self.ctx.violation(f"runaway:{entry}", f"{entry}({p!r}) [root {base_kind}, {self.arrangement}] did not return: {val}", case)
        return status, val

    def resolve(self, entry: str, base_kind: str, fn: Callable[[str], str], codes: Codes, p: str, extra: Optional[Dict[str, Any]] = None) -> Any:
        status, val = self._bounded(entry, base_kind, p, lambda: fn(p), extra)
        if status == "ok":
            return res_loc(codes, val)
        if status == "raised":
            if isinstance(val, ValueError) and "Security Error" in str(val):
                return C("Err", C("Security"))
            return ("other", type(val).__name__, str(val)[:120])
        return ("other", status, "")

    def listing(self, base_kind: str, b: Any, codes: Codes, p: str, extra: Optional[Dict[str, Any]] = None) -> Tuple[Any, Any]:
        """(what list_files returns, which directories it scanned) -- the latter from the audit hook: os.scandir events
        whose kernel location is a directory."""
        status, val = self._bounded("list_files", base_kind, p, lambda: self.audit.record(lambda: b.list_files(p)), extra)
        if status == "ok":
            res, exc, events = val
            scans = sorted({tuple(codes.loc(tgt)) for ev, _p, tgt, _c in events if ev in ("os.scandir", "os.listdir") and tgt and os.path.isdir(tgt)})
            scans_v = C("Ok", [list(x) for x in scans])
            if exc is None:
                return C("Ok", sorted(codes.pstr(r) for r in res)), scans_v
            if isinstance(exc, ValueError) and "Security Error" in str(exc):
                return C("Err", C("Security")), (C("Err", C("Security")) if not scans else scans_v)
            return ("other", type(exc).__name__, str(exc)[:120]), scans_v
        return ("other", status, ""), ("other", status, "")


def norm_model(v: Any) -> Any:
    if isinstance(v, C) and v.name == "Ok" and v.args and isinstance(v.args[0], list) and v.args[0] and isinstance(v.args[0][0], list):
        return C("Ok", sorted(v.args[0]))
    return v


def corr_paths(ctx, strings: Sequence[str], arrangement: str = "standard") -> None:
    """_resolve_path / _get_arrow_path / list_files (result AND scanned directories) / os.path.realpath / the kernel
    vs  the model, on the same tree."""
    from datashard.storage_backend import LocalStorageBackend
    ws = os.path.realpath(tempfile.mkdtemp(prefix="ws-corr-", dir=ctx.scratch))
    root = os.path.join(ws, "wh", pathfs.ROOT_NAME)
    wh = os.path.join(ws, "wh")
    uniq: Dict[str, None] = {}
    if arrangement == "standard":
        spec = pathfs.standard_spec(ws)
        extra = pathfs.absolute_spellings(ws) + pathfs.loop_spellings() + \
            ["", ".", "/", "//", "data/..", "a//b", "data//f.parquet", "ln_loop//" + ws.lstrip("/") + "/out/secret.txt",
             "ln_loop//" + ws.lstrip("/") + "/wh/tbl/x"] + pathfs.missing_then_up_spellings(3, full=ctx.tier != "quick")
        bases = [("direct", root, wh), ("symlink", os.path.join(wh, "lnroot"), wh), ("relative", pathfs.ROOT_NAME, wh),
                 ("relative-link-slash", "lnroot/", wh), ("dotdot", root + "/data/..", ws), ("via-loop", root + "/ln_loop/../ln_up/" + pathfs.ROOT_NAME, ws)]
    elif arrangement == "filelink":
        spec = pathfs.filelink_spec(ws)
        extra = ["", ".", "/", root, root + "/data/ln_file", root + "/data/ln_inside", ws + "/out/secret.txt", "data/part/ln_deep", "data/imported.parquet",
                 "/data/imported.parquet", "data/ln_sib", "metadata/ln_meta.json", "metadata/inflight", "metadata/inflight/ln_marker.inflight",
                 "metadata/manifests/ln_manifest.avro", "data/ln_chain/x", "data/ln_file/..", "data/ln_dangling/new.bin"]
        bases = [("direct", root, wh), ("symlink", os.path.join(wh, "lnroot"), wh), ("relative", pathfs.ROOT_NAME, wh)]
    else:
        spec = pathfs.acyclic_spec(ws)
        extra = ["", ".", "/", root, root + "/data", root + "/data/ext", ws + "/out", ws + "/out/nested/deeper.bin", "data/part/deep/deeper.bin",
                 "data/ext/nested/deeper.bin", "data/hot/a.parquet", "data/sibl/secret.txt", "data/ln_file", "/data/ext/secret.txt"] + ACYCLIC_MISSING_THEN_UP
        bases = [("direct", root, wh), ("symlink", os.path.join(wh, "lnroot"), wh), ("relative", pathfs.ROOT_NAME, wh),
                 ("through-outward-link", root + "/data/ext/../../" + pathfs.ROOT_NAME, ws)]
    for s_ in list(strings) + extra:
        uniq.setdefault(s_)
    strings = list(uniq)
    pathfs.materialise(ws, spec)
    codes = Codes()
    tree = pathfs.spec_to_coq(ws, spec, codes)
    calls = ImplCalls(ctx, arrangement + "_spec", ws)
    old_cwd = os.getcwd()
    exprs: List[str] = []
    impl: List[Tuple[Any, ...]] = []
    meta: List[Tuple[str, str]] = []
    try:
        for bi, (bk, base, cwd) in enumerate(bases):
            os.chdir(cwd)
            b = LocalStorageBackend(base)
            dfm = pathaudit.make_dfm(base)
            # thorough: the depth-4 grammar is exhaustive for the direct root; the other spellings take every k-th string
            big = len(strings) > 10000
            subset = strings if bi == 0 else (strings[:: 5] if big else strings) if bi == 1 else strings[:: 23 if big else 7]
            cwd_c = coq_list(codes.loc(cwd))
            base_c = coq_list(codes.pstr(base))
            for p in subset:
                pc = coq_list(codes.pstr(p))
                joined = os.path.join(base, p.lstrip("/")) if p.startswith("/") else os.path.join(base, p)
                rp = res_loc(codes, os.path.realpath(joined))
                kl = pathfs.kernel_locate(joined)
                listed, scanned = calls.listing(bk, b, codes, p)
                impl.append((calls.resolve("_resolve_path", bk, b._resolve_path, codes, p), calls.resolve("_get_arrow_path", bk, dfm._get_arrow_path, codes, p),
                             listed, rp, None if kl is None else codes.loc(kl), scanned))
                exprs.append(f"(resolve {FUEL} T {cwd_c} {base_c} {pc}, arrow_path {FUEL} T {cwd_c} gen_table_dirs {base_c} {pc}, "
                             f"list_files {FUEL} {KFUEL} T {cwd_c} {base_c} {pc}, realpath {FUEL} T {cwd_c} (join_for_resolve {base_c} {pc}), "
                             f"match kwalk {KFUEL} T [] (tl (absolutize {cwd_c} (join_for_resolve {base_c} {pc}))) with Ok l => Some l | Err _ => None end, "
                             f"list_scans {FUEL} T {cwd_c} {base_c} {pc})")
                meta.append((bk, p))
    finally:
        os.chdir(old_cwd)
    got = coqbuild.coq_eval(REQ, exprs, preamble=f"Definition T : tree := {tree}.", chunk=300)
    names = ["resolve", "arrow", "listing", "realpath", "kernel", "scans"]
    sfx = "" if arrangement == "standard" else "-" + arrangement
    bad: Dict[str, List[Any]] = {n: [] for n in names}
    kinds: collections.Counter = collections.Counter()
    for (bk, p), im, g in zip(meta, impl, got):
        ctx.count(1, ("corr", arrangement, bk, p))
        for i, n in enumerate(names):
            gv = norm_model(g[i])
            iv = im[i]
            if isinstance(iv, tuple) and len(iv) == 3 and iv[1] == "skipped":
                continue                     # not run: this entry point ran away before (reported with its input)
            if n == "kernel":
                gv = gv.x if hasattr(gv, "x") else gv
                # the model has no ENOTDIR on 'file/' with a trailing slash and no O_PATH on a dangling tail; compare when the kernel resolves
                if iv is None or not pathfs.under(ws, codes.unloc(iv)):
                    continue                 # outside the modelled workspace (e.g. /etc/passwd)
            if n in ("resolve", "arrow"):
                kinds[f"{n}:{iv.name + ':' + (iv.args[0].name if iv.name == 'Err' else 'path') if isinstance(iv, C) else iv[1]}"] += 1
            if gv != iv:
                bad[n].append({"base": bk, "path": p, "arrangement": arrangement, "impl": repr(iv)[:300], "model": repr(gv)[:300]})
    for n in names:
        ctx.correspondence(n + sfx, len(meta), bad[n])
    ctx.stats["corr_cases_per_function" + sfx] = len(meta)
    ctx.stats["corr_outcome_kinds" + sfx] = dict(sorted(kinds.items()))
    ctx.sample({"corr_case": {"arrangement": arrangement, "base": meta[0][0], "path": meta[0][1], "impl": repr(impl[0])[:300]}})
    shutil.rmtree(ws, ignore_errors=True)


def random_spec(rng, ws: str) -> pathfs.Spec:
    """A random small tree with random links (relative / absolute / dangling / cyclic) under ws/r."""
    names = ["a", "b", "c", "data"]
    spec: pathfs.Spec = [("r", "dir", None), ("o", "dir", None), ("o/s", "file", b"S")]
    dirs = ["r", "o"]
    taken = {"r", "o", "o/s"}
    for _ in range(rng.randrange(3, 9)):
        parent = rng.choice(dirs)
        nm = rng.choice(names)
        rel = parent + "/" + nm
        if rel in taken:
            continue
        taken.add(rel)
        k = rng.random()
        if k < 0.35:
            spec.append((rel, "dir", None))
            dirs.append(rel)
        elif k < 0.5:
            spec.append((rel, "file", b"F"))
        else:
            comps = [rng.choice(names + ["..", "..", ".", ""]) for _ in range(rng.randrange(1, 4))]
            tgt = "/".join(comps) or "."
            if rng.random() < 0.3:
                tgt = os.path.join(ws, rng.choice(["r", "o", "r/a", "r/b/c", "o/s"]))
            spec.append((rel, "link", tgt))
    return spec


def corr_random_trees(ctx, ntrees: int, nstrings: int) -> None:
    """Random symlink arrangements (incl. cycles through several links) x random strings: _resolve_path, realpath, kernel."""
    from datashard.storage_backend import LocalStorageBackend
    rng = ctx.rng
    exprs: List[str] = []
    impl: List[Tuple[Any, ...]] = []
    meta: List[Dict[str, Any]] = []
    top = os.path.realpath(tempfile.mkdtemp(prefix="ws-rand-", dir=ctx.scratch))
    calls = ImplCalls(ctx, "random_spec", top)
    comps = ["a", "b", "c", "data", "..", ".", "", "s"]
    for ti in range(ntrees):
        ws = os.path.join(top, f"t{ti}")
        spec = random_spec(rng, ws)
        try:
            pathfs.materialise(ws, spec)
        except OSError:
            continue
        codes = Codes()
        tree = pathfs.spec_to_coq(ws, spec, codes)
        base = os.path.join(ws, "r")
        b = LocalStorageBackend(base)
        cwd_c = coq_list(codes.loc(ws))
        base_c = coq_list(codes.pstr(base))
        tree_json = [(r, k, (t.replace(ws, "<ws>") if k == "link" else None)) for r, k, t in spec]
        calls.ws = ws
        for _ in range(nstrings):
            p = "/".join(rng.choice(comps) for _ in range(rng.randrange(1, 6)))
            if rng.random() < 0.2:
                p = "/" + p
            pc = coq_list(codes.pstr(p))
            joined = os.path.join(base, p.lstrip("/")) if p.startswith("/") else os.path.join(base, p)
            kl = pathfs.kernel_locate(joined)
            extra = {"tree": tree_json, "rule": "runaway"}
            listed, scanned = calls.listing("random-tree", b, codes, p, extra)
            impl.append((calls.resolve("_resolve_path", "random-tree", b._resolve_path, codes, p, extra), res_loc(codes, os.path.realpath(joined)), listed,
                         None if kl is None else codes.loc(kl), scanned))
            exprs.append(f"let T := {tree} in (resolve {FUEL} T {cwd_c} {base_c} {pc}, realpath {FUEL} T {cwd_c} (join_for_resolve {base_c} {pc}), "
                         f"list_files {FUEL} {KFUEL} T {cwd_c} {base_c} {pc}, "
                         f"match kwalk {KFUEL} T [] (tl (absolutize {cwd_c} (join_for_resolve {base_c} {pc}))) with Ok l => Some l | Err _ => None end, "
                         f"list_scans {FUEL} T {cwd_c} {base_c} {pc})")
            meta.append({"tree": tree_json, "path": p})
    got = coqbuild.coq_eval(REQ, exprs, chunk=200)
    bad: Dict[str, List[Any]] = {"rand-resolve": [], "rand-realpath": [], "rand-listing": [], "rand-kernel": [], "rand-scans": []}
    for m, im, g in zip(meta, impl, got):
        ctx.count(1, ("rand", repr(m)))
        for i, n in enumerate(["rand-resolve", "rand-realpath", "rand-listing", "rand-kernel", "rand-scans"]):
            gv = norm_model(g[i])
            iv = im[i]
            if isinstance(iv, tuple) and len(iv) == 3 and iv[1] == "skipped":
                continue
            if n == "rand-kernel":
                gv = gv.x if hasattr(gv, "x") else gv
                if iv is None:
                    continue
            if gv != iv:
                bad[n].append({**m, "impl": repr(iv)[:300], "model": repr(gv)[:300]})
    for n, b_ in bad.items():
        ctx.correspondence(n, len(meta), b_)
    ctx.stats["corr_random_trees"] = ntrees
    ctx.stats["corr_random_cases"] = len(meta)
    shutil.rmtree(top, ignore_errors=True)


# ------------------------------------------------------------------------------------------ driver
def run(ctx) -> None:
    ctx.rule = ("path grammar: components {.., ., '', data, metadata, x, ln_in, ln_out, ln_up, tbl2(sibling-prefix)} to depth "
                "3 (quick: depth 2 exhaustive + seeded sample of depth 3; thorough: depth 4 sample + depth 3 exhaustive), with and "
                "without a leading '/', plus true absolute spellings of inside/outside targets, loop-driving spellings "
                "(self loop, two-link cycle) and missing-then-up spellings (1..3 non-existent components, or a regular file used as a "
                "directory, cancelled by '..' before a symlink name, below the root and below data/), x root direct / through a symlink (/ relative, via '..', via a loop for the resolver "
                "correspondence) x 13 storage + 3 data-file + 10 table-level entry points; a second, cycle-free arrangement "
                "(outward / inward / sibling DIRECTORY links at depth >= 1 below listed prefixes) x every storage entry point x its own "
                "prefix grammar, and untampered table operations (garbage_collect, scan, append+gc, row_count) over both arrangements; "
                "every library call runs under a time limit, a memory limit and a hard limit (harness/lib/bounded.py); a case is "
                "distinct by (arrangement, entry point, root spelling, string); histories: (handle kind) x (first-use entry point) x "
                "(6 arrangement changes) x (second-use entry point) x affected strings x root spelling on ONE long-lived handle, plus "
                "change / change-again sequences; object store: 5 key-prefix configurations x conditional writes on/off x 17 entry points x "
                "the path grammar over an in-memory bucket holding sibling-prefix, ancestor-level and bucket-root objects; sessions: (handle kind) x "
                "(root spelling) x (what the handle does first: list one of 5-8 prefixes / probe / read / collect / refresh / scan) x (every entry "
                "point) x (every file and link name below the root of the file-link arrangement, relative / Iceberg-style / absolute) on ONE handle, "
                "distinct by (handle kind, root spelling, head)")
    ctx.trusted_base += [
        "translator/gen_path.py (golden AST shapes of canonical_path, _resolve_path, _get_arrow_path, list_files' guard, write guards; regenerated constants; "
        "the handle-state tables: attribute stores are recognised syntactically -- assignment, item assignment / deletion, a fixed list of mutating method names)",
        "Model/Path.v's rendering of CPython 3.12 posixpath.realpath/_joinrealpath/commonpath/relpath/join and of the kernel path walk "
        "(validated on every run against os.path.realpath and O_PATH+/proc/self/fd on real symlink trees)",
        "harness: harness/props/c17.py, harness/lib/pathfs.py, harness/lib/pathaudit.py (sys.addaudithook sees Python-level OS calls; "
        "pyarrow's C++ file opens are not audited -- the library hands pyarrow Python file objects on the read path and a temp name inside the "
        "already-audited directory on the write path)",
    ]
    ctx.assumptions += [
        "no concurrent re-pointing of links between resolution and use (the property speaks of arrangements, not races)",
        "os.getcwd() is canonical; POSIX path semantics (no drives)",
        "hard links and mount points are outside the model",
    ]
    guard = install_guard(ctx)          # forks the monitor: before pyarrow & co. start threads
    warm_up()
    ok = ctx.proofs(THEOREMS, gen_files=GEN_FILES)
    ctx.allow_axioms([])

    quick = ctx.tier == "quick"
    stages: Dict[str, float] = {}
    import time as _time

    def staged(name: str, fn: Callable[[], Any]) -> Any:
        t0, c0 = _time.time(), _time.process_time()
        try:
            return fn()
        finally:
            stages[name] = [round(_time.time() - t0, 1), round(_time.process_time() - c0, 1)]     # wall, CPU of this process
            ctx.stats["stage_seconds"] = stages
    ws_probe = os.path.realpath(ctx.scratch)
    audit_strings = strings_for(ctx, os.path.join(ws_probe, "ws-storage"), 3 if quick else 4, 120 if quick else 2500)
    obs_ws, obs = staged('audit_storage', lambda: oracle_storage(ctx, audit_strings))
    table_strings = strings_for(ctx, os.path.join(ws_probe, "ws-table"), 3, 0 if quick else 400)
    if quick:
        table_strings = table_strings[::4]
    staged('audit_acyclic', lambda: oracle_acyclic(ctx, 2 if quick else 3))
    staged('audit_table', lambda: oracle_table(ctx, table_strings))
    staged('audit_history', lambda: oracle_history(ctx))
    staged('audit_sessions', lambda: oracle_sessions(ctx))
    staged('audit_s3', lambda: oracle_s3(ctx))
    staged('strace', lambda: oracle_strace(ctx))
    ctx.stats["audit_strings_storage"] = len(audit_strings)
    ctx.stats["audit_strings_table"] = len(table_strings)

    try:
        corr_strings = pathfs.grammar(3) if quick else pathfs.grammar(4)
        staged('corr_standard', lambda: corr_paths(ctx, corr_strings))
        staged('corr_acyclic', lambda: corr_paths(ctx, pathfs.grammar(2 if quick else 3, pathfs.ACYCLIC_COMPONENTS), arrangement="acyclic"))
        fl_strings = pathfs.grammar(2, pathfs.FILELINK_COMPONENTS)
        if not quick:                                      # depth 2 exhaustive + a seeded sample of depth 3
            fl_strings = fl_strings + ctx.rng.sample(pathfs.grammar(3, pathfs.FILELINK_COMPONENTS), 1200)
        staged('corr_filelink', lambda: corr_paths(ctx, fl_strings, arrangement="filelink"))
        staged('corr_history', lambda: corr_history(ctx))
        staged('corr_sessions', lambda: corr_sessions(ctx))
        staged('corr_s3_keys', lambda: corr_s3_keys(ctx))
        staged('corr_entries', lambda: corr_entries(ctx, obs_ws, obs, 3))
        staged('corr_random', lambda: corr_random_trees(ctx, 60 if quick else 400, 25))
    except RuntimeError as e:
        ctx.proof_problems.append("model evaluation failed: " + str(e)[:800])
    ctx.stats["bounded_calls"] = {"soft_limit_s": guard.soft_s, "hard_limit_s": guard.hard_s, "memory_limit_mb": guard.mem_mb,
                                  "runaways": guard.runaways, "slowest_call_s": round(guard.slowest[0], 2), "slowest_call": guard.slowest[1][:120]}


def replay(ctx, payload) -> int:
    """Re-execute one audited call: {"rule","entry","path","base"} on a fresh workspace."""
    case = payload.get("case", {})
    if case.get("rule") == "strace":
        warm_up()
        oracle_strace(ctx)
        hits = [v for v in ctx.violations if v["key"].startswith("strace:")]
        for v in hits[:5]:
            print("replay: STILL FAILS", v["what"][:400])
        if not hits:
            print("replay: passes now (strace cross-check clean)")
        return 1 if hits else 0
    if not {"entry", "path", "base"} <= set(case):
        print("replay: payload names no concrete call (broken proof / correspondence): re-run ./bin/check C17 thorough")
        return 2
    install_guard(ctx)
    warm_up()
    if str(case.get("entry", "")).startswith("s3:"):
        import datashard.s3_consistency as s3c
        s3c.time.sleep = lambda _s: None
        outcome, problems = s3_case(case["entry"][3:], case["s3_prefix"], bool(case.get("conditional", True)), case["path"])
        print(f"replay: S3 backend prefix={case['s3_prefix']!r}: {case['entry'][3:]}({case['path']!r}) -> outcome {outcome}")
        for pr in problems:
            print("replay: STILL FAILS", pr)
        if not problems:
            print("replay: passes now")
        return 1 if problems else 0
    if case.get("history"):
        h = case["history"]
        make_ws = pathaudit.session_workspace if h.get("arrangement") == "filelink_spec" else pathaudit.history_workspace
        wsp = make_ws(os.path.join(ctx.scratch, "ws-replay-history"), with_table=(h["handle"] == "table"))
        outs, problems = pathaudit.run_history(wsp, pathaudit.Judge(wsp), Audit.get(), h["handle"], h["base"], h["steps"])
        print(f"replay: history on one {h['handle']} handle (root {h['base']}): {h['steps']} -> outcomes {outs}")
        for pr in problems:
            pr.pop("history", None)
            print("replay: STILL FAILS", pr)
        if not problems:
            print("replay: passes now")
        return 1 if problems else 0
    entry, p, base_kind = case["entry"], case["path"], case["base"]
    if case.get("tree"):
        return replay_random_tree(ctx, case)
    entry = {"_resolve_path": "exists", "_get_arrow_path": "open_parquet_source"}.get(entry, entry)   # correspondence runaways: nearest entry point
    table_level = entry in TABLE_ENTRIES or entry in PLAIN_TABLE_ENTRIES
    spec_fn = pathfs.acyclic_spec if "acyclic" in str(case.get("arrangement", "")) else pathfs.standard_spec
    wsp = pathaudit.Workspace(os.path.join(ctx.scratch, "ws-replay"), with_table=table_level, spec_fn=spec_fn)
    # absolute spellings recorded in the replay name the original workspace: re-root them
    orig_ws = case.get("workspace")
    if orig_ws and orig_ws in p:
        p = p.replace(orig_ws, wsp.ws)
    judge = pathaudit.Judge(wsp)
    audit = Audit.get()
    base = wsp.lnroot if base_kind in ("symlink", "relative-link-slash") else wsp.root
    if table_level:
        fn = table_call(wsp, base, entry, p)
        absolute_capable = entry.startswith(("scan", "row_count", "append"))
    elif entry in pathaudit.dfm_entry_points():
        dfm = pathaudit.make_dfm(base)
        f = pathaudit.dfm_entry_points()[entry]
        fn = lambda: f(dfm, p)           # noqa: E731
        absolute_capable = True
    else:
        from datashard.storage_backend import LocalStorageBackend
        b = LocalStorageBackend(base)
        f = pathaudit.storage_entry_points()[entry]
        fn = lambda: f(b, p)             # noqa: E731
        absolute_capable = False
    outcome, problems = pathaudit.run_case(wsp, judge, audit, entry, fn, p, base_kind, absolute_capable,
                                           ignore_rules=("reject",) if entry.startswith(("gc:", "delete_files", "plain:")) else ())
    print(f"replay: {entry}({p!r}) root={base_kind} arrangement={wsp.arrangement} -> outcome {outcome}")
    for pr in problems:
        print("replay: STILL FAILS", pr)
    if not problems:
        print("replay: passes now")
    return 1 if problems else 0


def replay_random_tree(ctx, case: Dict[str, Any]) -> int:
    """A runaway found on a random arrangement: rebuild that tree, list / resolve the string under the limits and the audit."""
    from datashard.storage_backend import LocalStorageBackend
    ws = os.path.realpath(tempfile.mkdtemp(prefix="ws-replay-rand-", dir=ctx.scratch))
    spec = [(r, k, (t.replace("<ws>", ws) if k == "link" else (b"F" if k == "file" else None))) for r, k, t in case["tree"]]
    pathfs.materialise(ws, spec)
    root = os.path.join(ws, "r")
    b = LocalStorageBackend(root)
    audit = Audit.get()
    p = case["path"]
    fn = (lambda: b.list_files(p)) if case["entry"] == "list_files" else (lambda: b._resolve_path(p))
    status, val = bounded.get_guard().run(f"{case['entry']}({p!r})", case, lambda: audit.record(fn))
    audit.on = False
    events = list(audit.events)
    outside = [(ev, tgt) for ev, _p, tgt, _c in events if tgt and pathfs.under(ws, tgt) and not pathfs.under(root, tgt)
               and ev in ("os.scandir", "os.listdir", "os.remove", "os.rename")]
    print(f"replay: {case['entry']}({p!r}) on the recorded random tree -> {status} {val if status == 'runaway' else ''}")
    if status == "runaway" or outside:
        print("replay: STILL FAILS", {"status": status, "outside": outside[:4]})
        return 1
    print("replay: passes now")
    return 0
