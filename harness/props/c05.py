"""C05 -- Garbage collection never deletes anything reachable or in flight.

Proof      : coq/Props/C05.v over Model/GC.v (collect() call by call) and Gen/GenNorm.v, which is REGENERATED
             from garbage_collector.py / transaction.py on every run (_normalize_path, the marker fallback,
             _register_inflight's marker key and payload, INFLIGHT_PATH (both copies), default timeouts, and
             append_accepts_path: the path guards Transaction.append_files applies to every file, from which
             Proofs/GCAcceptProofs.v derives the writer-side fact "manifest entries name files under data/" and
             Proofs/GCHistFSProofs.v the canonical-spelling fact normpath rel = rel; C05_history is stated over Model/GCHistFS.v, a
             history machine on a backend with a key function `canon` (filesystem aliases "data//f" ...), posixpath.normpath abstract,
             under the law normpath s = s -> canon s = s; C05_alias_spelling_refuted: false with the guard's normpath half erased); the
             control skeleton of collect / _load_inflight_protection / _marker_targets / _gc_prefix is pinned.
Tie        : correspondence
               pystr    Python str methods                        vs Model/PyStr.v
               norm     real _normalize_path / _marker_targets fallback / _register_inflight
                                                                  vs Gen/GenNorm.v (exhaustive small domain)
               gc_run   every collection of every generated history: real Table.garbage_collect (traced
                        storage, frozen clock) vs Model/GC.v gc_run on the directory read by an independent
                        reader: outcome, exact deleted set, keep sets, storage-call trace, final key set
               accept    real Transaction.append_files deciding on the path alone vs Gen/GenNorm.v append_accepts_path
               hinv     the store built from the real directory before every collection satisfies the invariant of
                        C05_history (hinvb: writer path forms + every retained snapshot fully present; sound by hinvb_sound)
               logconf  real logging module + DataShardLogger.set_level after random configuration-event histories
                        (getEffectiveLevel / isEnabledFor of the collector's logger, os.getenv) vs Model/LogConf.v
               logsites every record a real collection emitted comes from a statement of Gen/GenGCLog.v GC_LOG_SITES at a level
                        Model/GCConf.v may_emit allows under the configuration observed at that collection
               envvars  every environment variable the library's source reads is a dimension of harness/lib/procconf.py (or a
                        table-location variable covered by the S3 spellings)
Config     : every history runs under a PROCESS-WIDE CONFIGURATION drawn per case (harness/lib/procconf.py: library default,
             DataShardLogger.set_level(DEBUG / WARNING / CRITICAL), module logger at DEBUG, library level cleared + root DEBUG,
             logging.disable(INFO), DATASHARD_VERIFY_CHECKSUMS / DATASHARD_S3_USE_CONDITIONAL_WRITES values, random event
             histories) and may be reconfigured mid-history (op "config"); the library's records are formatted and written to a
             sink, never suppressed with logging.disable (Proofs/GCConfProofs.v disable_masks, a LEMMA about the model of Python's
             logging: under it no level-guarded statement is reachable).
             Gen/GenGCLog.v (translator/gen_gclog.py) is regenerated on every run and fails closed when garbage_collector.py uses
             its logger for anything but logging statements whose arguments only observe, or reads the environment; a counting scan
             of the functions of file_manager / metadata_manager / storage_backend / s3_consistency / integrity / disk_utils reachable
             by name from the collector emits the tables GC_CONF_READS / GC_ENV_READS, which C05_conf_not_consulted states to be empty
             (COUNTED SOURCE FACTS: no theorem says that gc_run "is independent of the configuration" -- the model has no such input;
             the evidence is that scan plus the gc_run correspondence, which predicts every collection WITHOUT the configuration).
             Distribution in stats.process_configurations.
Oracle /   : implementation only (independent reader: json + fastavro + pyarrow; no model):
search       random histories {append (3 path spellings), caller-built files appended from every directory of the table
             (data/, data/sub, metadata/manifests, metadata/inflight, metadata, .locks, other, the root, <location>/data),
             multi-op txn, delete_files, expire, delete_snapshot,
             open / commit / roll back transactions, planted orphans, collect(grace)} x table-location spellings
             (local: absolute, relative via chdir, "./x", trailing "/", "//", symlink, names d / da / data / m / metadata / ...;
             simulated table_path strings; S3: DATASHARD_S3_PREFIX x table_path through the real S3StorageBackend over an
             in-memory client) x grace {0, 3600000, 10^12} x mtimes on both sides of the cutoff (of every swept AND every
             referenced file, some beyond the 24 h marker window); after each collect:
             deleted & (reachable | registered) = {}, every retained snapshot fully re-read, old orphans gone,
             no abort on an undamaged table.  Failing histories are shrunk (ops removed one at a time).
"""
from __future__ import annotations

import concurrent.futures as cf
import dataclasses
import itertools
import multiprocessing as mp
import os
import random
import shutil
import time
import traceback
from typing import Any, Dict, List, Optional, Tuple

from harness.lib import coqbuild, gcs3, gcsim, procconf
from harness.lib.coqio import Nat, Some, to_coq

LEVEL = "proof"
THEOREMS = ["C05_norm_agree", "C05_gc_safe", "C05_gc_live", "C05_no_abort", "C05_history", "C05_alias_spelling_refuted", "C05_append_commits",
            "C05_acceptance_regenerated", "C05_conf_not_consulted"]
REQ = gcsim.REQ + ["DS.Model.GCHist"]
REQ_CONF = ["DS.Gen.GenGCLog", "DS.Model.LogConf", "DS.Model.GCConf"]
TIMEOUT_MS = 24 * 3600 * 1000

MANIFEST_ENTRY = {
    "level_text": "C05_norm_agree (every table-location string, every key under data/ or metadata/), C05_gc_safe, C05_gc_live, "
                  "C05_no_abort, C05_history (induction over unbounded sequential histories, collections with arbitrary faults included, "
                  "over a backend with an abstract key function canon and an abstract posixpath.normpath related only by "
                  "normpath s = s -> canon s = s), C05_alias_spelling_refuted (the same statement is false once the canonical-spelling half "
                  "of append_files' guard is erased: witness history by vm_compute), C05_append_commits and C05_acceptance_regenerated (the "
                  "path guards of append_files, regenerated, imply BOTH that a manifest entry names a file under data/ -- the writer-side "
                  "hypothesis of C05_gc_safe -- and that it is spelled canonically) proved in Coq, for both orders of the "
                  "collector's preparatory phases, over a call-by-call "
                  "model of GarbageCollector.collect whose path normalisation, marker fallback, marker naming and constants are "
                  "regenerated from the source on every run; C05_conf_not_consulted is a COUNTED SOURCE FACT, not a theorem about the "
                  "collector: the regenerated tables of logger uses other than observing logging statements and of environment reads, in "
                  "garbage_collector.py and in the functions of file_manager / metadata_manager / storage_backend / s3_consistency / "
                  "integrity / disk_utils reachable by name from it, are empty (the model has no configuration input on the strength of "
                  "that scan and of the differential runs; no configuration-independence theorem is claimed); the hand-written model is tied to the code by differential execution "
                  "of every collection of every generated history, each under a drawn process-wide configuration (outcome, exact deleted set, "
                  "keep sets, storage-call trace, emitted log statements); "
                  "implementation-only oracles with an independent reader search for a failing history",
    "level_note": "trusted: Coq kernel; translator/gen_norm.py; translator/gen_gclog.py (lexical over garbage_collector.py; a name-based "
                  "reachability scan over six callee modules -- third-party packages, dynamic dispatch by computed name and modules outside that "
                  "list are NOT inspected; purity of logging-statement arguments is syntactic: "
                  "constants, names, attribute/subscript/slice reads, f-strings, len/type (str/repr/int/float in the callee modules); __format__/__str__ of the logged objects is assumed to observe); "
                  "that the collector's behaviour does not depend on log levels / environment is NOT a Coq theorem (the model has no such input): it rests on that scan and on the differential runs under drawn configurations; "
                  "Model/LogConf.v models Logger.isEnabledFor of a module logger (validated by the 'logconf' correspondence; its arithmetic lemmas set_level_enables / disable_masks / mod_level_wins live in Proofs/GCConfProofs.v and are not property theorems); harness/lib/gcs3.py (in-memory S3 client under the real S3StorageBackend); wf_store (writer-side path forms: data files under data/ "
                  "-- derived from the regenerated acceptance guard of append_files; posixpath.normpath and the backend's key function stay abstract in "
                  "C05_history, related by the unproved law normpath s = s -> canon s = s (true of POSIX path resolution without symlinks inside data/, and of S3 where canon = id) --, "
                  "lists and manifests under metadata/, marker naming) proved invariant of the model's writers and checked on every "
                  "real directory; the table location enters the model only as the string normalize_path receives: symlinked locations "
                  "and S3 prefixes act through the backend's listing, which the harness exercises (real LocalStorageBackend, real "
                  "S3StorageBackend over an in-memory client) and the model does not contain; metadata_manager.refresh() is an input of the model (pointer / metadata damage: C10, C14); one "
                  "clock value per collection; transactions younger than the 24 h marker abandonment window; S3 spellings run the real "
                  "S3StorageBackend over an in-memory client (collections only: the table is written locally and uploaded); "
                  "the harness runs the code faithfully",
    "technique": "Coq proof over translator-regenerated path kernel and logging-statement table + call-level differential correspondence + "
                 "history fuzzing under drawn process-wide configurations (log levels, environment)",
    "design_ref": "DESIGN.md section 5 C05",
}

GRACES = [0, 3600000, 10 ** 12]
REAL_SPELLINGS = ["abs", "rel", "dot", "trail", "dslash", "symlink", "unicode", "d", "da", "dat", "data", "m", "me", "metadata", "datax", "t/data"]
S3_SPELLINGS = [("", "data"), ("", "d"), ("", "da"), ("", "metadata"), ("", "m"), ("", "/data"), ("", "data/"), ("data", "t"), ("d", "ata"),
                ("wh", "data"), ("wh/", "/data/"), ("data", ""), ("", "logs/data"), ("", "datax"), ("metadata", "manifests"), ("", "tbl")]
# where a caller-built data file handed to append_files() lives, relative to the table root: the table's own data
# directory (and below it), the directories the library manages itself (manifests, in-flight markers, metadata, locks), any
# other directory, the root itself, and "<table location>/data" INSIDE the table (the legacy absolute spelling of data/<name>)
PLACES = ["data", "data", "data", "data/sub", "metadata/manifests", "metadata/manifests", "metadata", "metadata/inflight", ".locks", "other/dir", "", "@tp/data"]
SIM_SPELLINGS = ["sim:/data", "sim:/metadata", "sim:/", "sim:", "sim:/data/", "sim:data/", "sim:/d", "sim:s3-bucket-prefix/data"]


# ------------------------------------------------------------------------------------------ history generation
def gen_ops(rng: random.Random, n: int, final_grace: int) -> List[Dict[str, Any]]:
    ops: List[Dict[str, Any]] = [{"op": "append", "spell": 0}]
    for _ in range(n - 2):
        r = rng.random()
        if r < 0.18:
            ops.append({"op": "append", "spell": rng.choice([0, 0, 0, 1, 2, 1, 2, 3, 4, 5])})
        elif r < 0.30:
            ops.append({"op": "append_prebuilt", "spell": rng.randrange(6), "fmt": rng.choice(["parquet", "parquet", "other"]),
                        "place": rng.choice(PLACES), "inflight_name": rng.random() < 0.5})
        elif r < 0.38:
            ops.append({"op": "multi", "appends": rng.choice([1, 2]), "delete": rng.choice([None, rng.randrange(8)])})
        elif r < 0.50:
            ops.append({"op": "delete_files", "idx": rng.randrange(8), "spell": rng.choice([0, 1])})
        elif r < 0.58:
            ops.append({"op": "expire", "which": rng.randrange(8)})
        elif r < 0.66:
            ops.append({"op": "delete_snapshot", "which": rng.randrange(8)})
        elif r < 0.73:
            ops.append({"op": "open_tx"})
        elif r < 0.76:
            # the application reconfigures the process mid-history (log levels, environment): harness/lib/procconf.py
            ops.append({"op": "config", "events": procconf.random_events(rng, rng.choice([1, 1, 2]))})
        elif r < 0.80:
            ops.append({"op": rng.choice(["commit_tx", "rollback_tx"])})
        elif r < 0.88:
            ops.append({"op": "orphans", "n": rng.choice([1, 2, 3])})
        else:
            ops.append({"op": "collect", "grace": rng.choice(GRACES), "ages": rng.randrange(1 << 30)})
    ops.append({"op": "collect", "grace": final_grace, "ages": rng.randrange(1 << 30)})
    return ops


def locate(base: str, spelling: str) -> Tuple[str, str, Optional[str], Optional[str]]:
    """-> (table_path to create/open, real root, cwd to enter or None, table_path override for the collector)."""
    if spelling.startswith("sim:"):
        return os.path.join(base, "tbl"), os.path.join(base, "tbl"), None, spelling[4:]
    if spelling.startswith("s3:"):
        return os.path.join(base, "tbl"), os.path.join(base, "tbl"), None, None
    if spelling == "abs":
        return os.path.join(base, "tbl"), os.path.join(base, "tbl"), None, None
    if spelling == "unicode":
        return os.path.join(base, "t\u00e9 \u00fc b"), os.path.join(base, "t\u00e9 \u00fc b"), None, None
    if spelling == "trail":
        return os.path.join(base, "tbl") + "/", os.path.join(base, "tbl"), None, None
    if spelling == "dslash":
        return base + "//tbl", os.path.join(base, "tbl"), None, None
    if spelling == "symlink":
        os.makedirs(os.path.join(base, "real_tbl"), exist_ok=True)
        if not os.path.islink(os.path.join(base, "link")):
            os.symlink("real_tbl", os.path.join(base, "link"))
        return os.path.join(base, "link"), os.path.join(base, "real_tbl"), None, None
    if spelling == "rel":
        return "tbl", os.path.join(base, "tbl"), base, None
    if spelling == "dot":
        return "./x", os.path.join(base, "x"), base, None
    return spelling, os.path.join(base, spelling), base, None      # relative names: d, da, data, m, metadata, ...


def _schema():
    from datashard import Schema
    return Schema(schema_id=1, fields=[{"id": 1, "name": "x", "type": "long", "required": False}])


def _spell(path: str, spell: int) -> str:
    """0..2: the canonical spellings of one file; 3..5: spellings that only a filesystem identifies with it."""
    rel = path.lstrip("/")
    d, _, name = rel.rpartition("/")
    d = d or "."
    return ["/" + rel, rel, "//" + rel, f"{d}//{name}", f"{d}/./{name}", f"{d}/x/../{name}"][spell]


def exec_history(case: Dict[str, Any]) -> Dict[str, Any]:
    """Run one history against the real library. Pure function of `case` (runs in a worker process)."""
    # the process-wide configuration the history runs under (log levels, environment) is part of the case; the library's log
    # records are formatted as in production and written to a sink (NOT suppressed by logging.disable: that is itself a
    # configuration, and one under which no level-guarded statement of the library ever runs)
    with procconf.applied(case.get("config") or []):
        return _exec_history(case)


def _exec_history(case: Dict[str, Any]) -> Dict[str, Any]:
    base = case["base"]
    shutil.rmtree(base, ignore_errors=True)
    os.makedirs(base)
    old_cwd = os.getcwd()
    out: Dict[str, Any] = {"violations": [], "collects": [], "op_errors": [], "stats": {"ops": 0, "collects": 0, "deleted": 0, "open_tx_at_collect": 0}}
    try:
        tp, root, cwd, override = locate(base, case["spelling"])
        if cwd:
            os.chdir(cwd)
        from datashard import create_table
        sch = _schema()
        # a table WITHOUT a persisted schema is a supported (legacy) mode: records then carry their schema explicitly and
        # pre-built files are appended unchecked -- the path guards must not depend on the schema being there
        t = create_table(tp) if case.get("schemaless") else create_table(tp, sch)
        reader = gcsim.IndepReader(root)
        open_txs: List[Tuple[Any, List[str]]] = []   # (tx, files it wrote)
        counter = itertools.count()
        for opi, op in enumerate(case["ops"]):
            out["stats"]["ops"] += 1
            kind = op["op"]
            guard = gcsim.bounded(60)          # every library operation is bounded: a hang is a reported violation
            guard.__enter__()
            try:
                if kind == "append":
                    tx = t.new_transaction().begin()
                    tx.append_data([{"x": next(counter)}], schema=sch)
                    if op["spell"]:
                        # the same file handed to the public append_files() under another spelling of its path
                        files = tx._operations.pop()["files"]
                        try:
                            tx.append_files([dataclasses.replace(files[0], file_path=_spell(files[0].file_path, op["spell"]))])
                        except Exception:
                            tx.rollback()
                            raise
                    tx.commit()
                elif kind == "append_prebuilt":
                    # a data file written by the caller (not by append_data) and handed to append_files under some spelling
                    import pyarrow as pa
                    import pyarrow.parquet as pq
                    from datashard.data_structures import DataFile, FileFormat
                    place = op.get("place", "data")
                    if place.startswith("@tp"):
                        place = ((override if override is not None else tp).strip("/") + place[3:]).strip("/")
                    name = f"pre_{opi}_{next(counter)}" + (".inflight" if place == "metadata/inflight" and op.get("inflight_name") else ".parquet")
                    rel = f"{place}/{name}" if place else name
                    full = os.path.join(os.path.realpath(root), rel)
                    os.makedirs(os.path.dirname(full), exist_ok=True)
                    pq.write_table(pa.table({"x": pa.array([next(counter), next(counter)], pa.int64())}), full)
                    if op.get("place", "").startswith("@tp") and rel != f"data/{name}":     # (an override that is the bucket root makes @tp/data plain data/: nothing to plant beside the file itself)
                        _plant(root, f"data/{name}", b"PAR1 an orphan whose key an alias entry normalises to")
                    fmt = FileFormat.PARQUET if op.get("fmt", "parquet") == "parquet" else [f for f in FileFormat if f != FileFormat.PARQUET][0]
                    tx = t.new_transaction().begin()
                    try:
                        tx.append_files([DataFile(file_path=_spell(rel, op["spell"]), file_format=fmt, partition_values={},
                                                  record_count=2, file_size_in_bytes=os.path.getsize(full))])
                        tx.commit()
                    except Exception:
                        tx.rollback()
                        if os.path.exists(full):
                            os.remove(full)          # the refused file is the caller's to clean up
                        raise
                elif kind == "multi":
                    tx = t.new_transaction().begin()
                    for _ in range(op["appends"]):
                        tx.append_data([{"x": next(counter)}, {"x": next(counter)}], schema=sch)
                    if op["delete"] is not None:
                        cur = _current_files(reader)
                        if cur:
                            tx.delete_files([cur[op["delete"] % len(cur)]])
                    tx.commit()
                elif kind == "delete_files":
                    cur = _current_files(reader)
                    if cur:
                        tx = t.new_transaction().begin()
                        tx.delete_files([_spell(cur[op["idx"] % len(cur)], op["spell"]) if op["spell"] else cur[op["idx"] % len(cur)]])
                        tx.commit()
                elif kind == "expire":
                    snaps = reader.snapshots()
                    if snaps:
                        cutoff = snaps[op["which"] % len(snaps)]["timestamp_ms"] + 1
                        tx = t.new_transaction().begin()
                        tx.expire_snapshots(cutoff)
                        tx.commit()
                elif kind == "delete_snapshot":
                    snaps = reader.snapshots()
                    if snaps:
                        t.snapshot_manager.delete_snapshot(snaps[op["which"] % len(snaps)]["snapshot_id"])
                elif kind in ("open_tx", "open_many"):
                    # open_many: more live transactions than one listing page of the (fake) service holds, so that
                    # protection of the later ones depends on the marker listing following continuation tokens
                    for _k in range(op.get("n", 1)):
                        if len(open_txs) < (2 if kind == "open_tx" else 10):
                            before = set(gcsim.list_tree(root))
                            tx = t.new_transaction().begin()
                            tx.append_data([{"x": next(counter)}], schema=sch)
                            wrote = sorted(k for k in set(gcsim.list_tree(root)) - before if k.startswith("data/"))
                            open_txs.append((tx, wrote))
                elif kind in ("commit_tx", "rollback_tx"):
                    if open_txs:
                        tx, _w = open_txs.pop(0)
                        tx.commit() if kind == "commit_tx" else tx.rollback()
                elif kind == "config":
                    for ev in op["events"]:
                        procconf.apply_event(ev)
                elif kind == "orphans":
                    for j in range(op["n"]):
                        name = f"orphan_{opi}_{j}"
                        _plant(root, f"data/{name}.parquet", b"PAR1 not really")
                        if j % 2 == 0:
                            _plant(root, f"metadata/manifests/{name}.avro", b"not avro")
                elif kind == "collect":
                    registered = sorted({k for _tx, w in open_txs for k in w})
                    s3spec = tuple(case["spelling"][3:].split("|", 1)) if case["spelling"].startswith("s3:") else None
                    res = do_collect(t, reader, root, override if override is not None else tp, override, op["grace"], op["ages"], registered, s3spec)
                    res["op_index"] = opi
                    out["stats"]["collects"] += 1
                    out["stats"]["deleted"] += len(res["deleted"])
                    out["stats"]["open_tx_at_collect"] += len(open_txs)
                    for v in res.pop("violations"):
                        out["violations"].append(v)
                    out["collects"].append(res)
            except (gcsim.CaseTimeout, MemoryError) as e:
                out["violations"].append({"key": f"hang:{kind}", "what": f"operation {opi} ({kind}) did not finish within its limits: {type(e).__name__}: {e}"})
                break
            except Exception as e:  # noqa: BLE001 - an op refused by the library is not a C05 matter
                out["op_errors"].append(f"op {opi} {kind}: {type(e).__name__}: {str(e)[:160]}")
            finally:
                guard.__exit__()
    except Exception:
        out["harness_error"] = traceback.format_exc()[-1500:]
    finally:
        os.chdir(old_cwd)
        if not case.get("keep"):
            shutil.rmtree(base, ignore_errors=True)
    return out


def _current_files(reader: gcsim.IndepReader) -> List[str]:
    md = reader.current_metadata()
    cur = md.get("current_snapshot_id")
    for s in md.get("snapshots", []):
        if s["snapshot_id"] == cur:
            _lk, mks, _dks = reader.snapshot_files(s)
            out = []
            for mk in mks:
                _kind, paths = gcsim.parse_avro(reader._bytes(mk))
                out.extend(paths or [])
            return out
    return []


def _plant(root: str, key: str, content: bytes) -> None:
    full = os.path.join(os.path.realpath(root), key)
    os.makedirs(os.path.dirname(full), exist_ok=True)
    with open(full, "wb") as f:
        f.write(content)


def do_collect(t: Any, reader: gcsim.IndepReader, root: str, tp_seen: str, override: Optional[str], grace: int, ages_seed: int,
               registered: List[str], s3spec: Optional[Tuple[str, str]] = None) -> Dict[str, Any]:
    """Age the files, judge one real collection with the independent oracle, and record the case for the model."""
    now = float(int(time.time()))
    arng = random.Random(ages_seed)
    real_root = os.path.realpath(root)
    old_keys, young_keys = set(), set()
    reach = reader.reachable()
    # file ages are arbitrary inputs: every file under the swept directories AND every file a retained snapshot references
    # (wherever it lives) lands on either side of the grace cutoff, some of them beyond the marker abandonment window too
    for key in sorted(gcsim.list_tree(root)):
        if key.startswith("data/") or key.startswith("metadata/manifests/") or key in reach:
            old = arng.random() < 0.6
            ancient = old and arng.random() < 0.4
            ts = now - grace / 1000.0 + (-100.0 if old else 100.0) - (TIMEOUT_MS / 1000.0 if ancient else 0.0)
            os.utime(os.path.join(real_root, key), (ts, ts))
            (old_keys if old else young_keys).add(key)
    live = reader.live_protected(now, TIMEOUT_MS)
    snaps = [s.get("manifest_list") or "" for s in reader.snapshots()]
    store = gcsim.store_term(root)
    conf_seen = procconf.observe()           # what the process configuration amounts to for the collector's logger, right now
    tap = _LogTap()
    if s3spec is None:
        before = gcsim.list_tree(root)
        with tap:
            real = gcsim.run_collect(t, grace, now, None, override)
        after = gcsim.list_tree(root)
        problems_after = None
    else:
        # the same table as objects of an (in-memory) S3 bucket, collected through the real S3StorageBackend built by
        # create_storage_backend from (DATASHARD_S3_PREFIX, table_path); the local directory is left as it is
        env_prefix, s3_tp = s3spec
        fake = gcs3.FakeS3()
        pre = gcs3.expected_prefix(env_prefix, s3_tp)
        gcs3.upload_tree(fake, root, pre)
        before = gcs3.tree_of(fake, pre)
        ts = gcs3.open_s3_table(env_prefix, s3_tp, fake)
        tp_seen = s3_tp
        with tap:
            real = gcsim.run_collect(ts, grace, now, None, None)
        after = gcs3.tree_of(fake, pre)
        problems_after = [f"object {k} of a retained snapshot is gone" for k in sorted(reach) if k not in after]
    deleted = sorted(set(before) - set(after))
    deleted_files = [k for k in deleted if not k.startswith(gcsim.INFLIGHT + "/")]
    protected = set(reach) | set(live) | set(registered)
    viol: List[Dict[str, Any]] = []
    if real["raised"]:
        viol.append({"key": "abort-undamaged", "what": f"collection raised {real['exc_type']} on an undamaged table at location {tp_seen!r}: {real['exc']}"})
    lost = sorted(set(deleted) & protected)
    if lost:
        raw = reader.reachable_raw()
        cls = ("reachable" if set(lost) & set(reach) & raw else "reachable-via-noncanonical-path" if set(lost) & set(reach)
               else "registered-by-live-transaction")
        viol.append({"key": f"deleted-live:{cls}", "what": f"collect(grace={grace}) at table location {tp_seen!r} deleted {len(lost)} file(s) that are {cls}: {lost[:4]}"})
    _rows, problems = reader.read_everything() if problems_after is None else (0, problems_after)
    if problems:
        viol.append({"key": "snapshot-unreadable", "what": f"after collect(grace={grace}) at {tp_seen!r} a retained snapshot is no longer fully readable: {problems[:3]}"})
    if not real["raised"]:
        expected_gone = {k for k in old_keys if k not in protected}
        survivors = sorted(expected_gone & set(after))
        if survivors:
            viol.append({"key": "orphans-survive", "what": f"collect(grace={grace}) at {tp_seen!r} left {len(survivors)} unreferenced, unprotected file(s) older than the grace period: {survivors[:4]}"})
    return {"violations": viol, "deleted": deleted_files,
            "expr": f"let st := {store} in ({gcsim.gc_expr(tp_seen, grace, int(now * 1000), TIMEOUT_MS, [], snaps, 'st')}, hinvb {to_coq(snaps)} st)",
            "real": {k: real[k] for k in ("raised", "exc_type", "exc", "phase", "trace", "keep_sets", "unknown")},
            "before": before, "after": after, "grace": grace, "tp": tp_seen, "conf": conf_seen, "log_sites": sorted(tap.sites),
            "n_reach": len(reach), "n_live": len(live | set(registered)), "n_old": len(old_keys), "n_young": len(young_keys)}


class _LogTap:
    """Records which of the collector's logging statements actually emitted a record: (function name, level). A handler does not
    change which levels are enabled, so the collection runs exactly as the configuration of the case has it."""

    def __init__(self) -> None:
        import logging
        tap = self

        class _H(logging.Handler):
            def emit(self, record: Any) -> None:
                tap.sites.add((record.funcName, int(record.levelno)))
        self.sites: set = set()
        self._h = _H(level=0)
        self._lg = logging.getLogger("datashard.garbage_collector")

    def __enter__(self) -> "_LogTap":
        self._lg.addHandler(self._h)
        return self

    def __exit__(self, *_a: Any) -> None:
        self._lg.removeHandler(self._h)


# ------------------------------------------------------------------------------------------ shrinking
def shrink(case: Dict[str, Any], key: str) -> Dict[str, Any]:
    """Remove ops one at a time while the same violation key still shows."""
    ops = list(case["ops"])
    i = 0
    budget = 40
    while i < len(ops) and budget > 0:
        if ops[i]["op"] == "collect" and sum(1 for o in ops if o["op"] == "collect") == 1:
            i += 1
            continue
        trial = dict(case, ops=ops[:i] + ops[i + 1:], base=case["base"] + "-shrink")
        budget -= 1
        res = exec_history(trial)
        if any(v["key"] == key for v in res["violations"]):
            ops = trial["ops"]
        else:
            i += 1
    return dict(case, ops=ops)


# ------------------------------------------------------------------------------------------ the history campaign
def make_cases(ctx) -> List[Dict[str, Any]]:
    rng = ctx.rng
    cases = []
    quick = ctx.tier == "quick"
    reps = 4 if quick else 30
    maxlen = 12 if quick else 30
    n = 0
    for rep in range(reps):
        for sp in REAL_SPELLINGS + SIM_SPELLINGS + [f"s3:{e}|{t}" for e, t in S3_SPELLINGS]:
            for g in (GRACES if (quick and sp in REAL_SPELLINGS) or not quick else [rng.choice(GRACES)]):
                seed = rng.randrange(1 << 40)
                r = random.Random(seed)
                length = r.randint(4, maxlen)
                ops = gen_ops(r, length, g)
                if rep == 0 and sp.startswith("s3:"):
                    ops.insert(len(ops) - 1, {"op": "open_many", "n": 9})
                cname, cevents = procconf.draw(r, n)
                cases.append({"spelling": sp, "seed": seed, "ops": ops, "base": os.path.join(ctx.scratch, f"h{n}"),
                              "schemaless": rep % 2 == 1, "config": cevents, "config_name": cname})
                n += 1
    return cases


def run_histories(ctx) -> None:
    cases = make_cases(ctx)
    t0 = time.time()
    workers = min(14, max(1, (os.cpu_count() or 2) - 2))
    results: List[Dict[str, Any]] = []
    ex = cf.ProcessPoolExecutor(max_workers=workers, mp_context=mp.get_context("spawn"), initializer=gcsim.limit_worker_memory)
    budget = 900 if ctx.tier == "quick" else 3000
    try:
        futs = [ex.submit(exec_history, c) for c in cases]
        for f, c in zip(futs, cases):
            try:
                results.append(f.result(timeout=max(5.0, budget - (time.time() - t0))))
            except Exception as e:  # noqa: BLE001 - TimeoutError / BrokenProcessPool: a stuck or killed worker is a failed case
                results.append({"violations": [{"key": "hang:worker", "what": f"history at location {c['spelling']!r} did not finish: {type(e).__name__}"}],
                                "collects": [], "op_errors": [], "stats": {"ops": 0, "collects": 0, "deleted": 0, "open_tx_at_collect": 0}, "dead": True})
    finally:
        if any(r.get("dead") for r in results):
            for proc in list(getattr(ex, "_processes", {}).values()):
                proc.kill()
        ex.shutdown(wait=False, cancel_futures=True)
    ctx.stats["history_wall_s"] = round(time.time() - t0, 1)
    agg = {"histories": len(cases), "ops": 0, "collects": 0, "deleted": 0, "open_tx_at_collect": 0, "op_errors": 0, "collects_with_deletions": 0}
    exprs, recs = [], []
    seen_keys = set()
    conf_dist: Dict[str, Dict[str, int]] = {"histories": {}, "collections_by_effective_level": {}, "log_statements_that_emitted": {}}
    for case, res in zip(cases, results):
        if "harness_error" in res:
            ctx.proof_problems.append("history harness raised: " + res["harness_error"][-600:])
            continue
        for k in ("ops", "collects", "deleted", "open_tx_at_collect"):
            agg[k] += res["stats"][k]
        agg["op_errors"] += len(res["op_errors"])
        for v in res["violations"]:
            key = v["key"]
            payload_case = {"spelling": case["spelling"], "seed": case["seed"], "ops": case["ops"], "schemaless": bool(case.get("schemaless")),
                            "config": case.get("config") or [], "config_name": case.get("config_name", "default")}
            if key not in seen_keys and not key.startswith("hang:"):
                seen_keys.add(key)
                small = shrink(case, key)
                payload_case["ops"] = small["ops"]
            ctx.violation(key, v["what"] + f" [process configuration {payload_case['config_name']!r}: {payload_case['config']}]", payload_case)
        conf_dist["histories"][case.get("config_name", "default")] = conf_dist["histories"].get(case.get("config_name", "default"), 0) + 1
        for c in res["collects"]:
            ctx.count(1, ("collect", case["spelling"], c["grace"], len(c["deleted"]), c["n_reach"], c["n_live"], c["conf"]["effective"]))
            lvl = str(c["conf"]["effective"]) + ("" if any(c["conf"]["enabled"]) else "/all-disabled")
            conf_dist["collections_by_effective_level"][lvl] = conf_dist["collections_by_effective_level"].get(lvl, 0) + 1
            for fn_lv in c["log_sites"]:
                k = f"{fn_lv[0]}@{fn_lv[1]}"
                conf_dist["log_statements_that_emitted"][k] = conf_dist["log_statements_that_emitted"].get(k, 0) + 1
            agg["collects_with_deletions"] += 1 if c["deleted"] else 0
            exprs.append(c["expr"])
            recs.append((case, c))
    ctx.stats["histories"] = agg
    ctx.stats["process_configurations"] = {k: dict(sorted(v.items())) for k, v in conf_dist.items()}
    if recs:
        case, c = recs[0]
        ctx.sample({"history": {"spelling": case["spelling"], "ops": [o["op"] for o in case["ops"]], "final_collect": {"grace": c["grace"], "deleted": c["deleted"], "reachable": c["n_reach"], "protected_live": c["n_live"]}}})
    # correspondence: the same collections through the Coq model (thorough: a seeded sample, the oracle judged all of them)
    cap = 1000
    if len(recs) > cap:
        keep = sorted(ctx.rng.sample(range(len(recs)), cap))
        recs = [recs[i] for i in keep]
        exprs = [exprs[i] for i in keep]
    ctx.stats["histories"]["collections_compared_with_model"] = len(recs)
    try:
        both = coqbuild.coq_eval(REQ, exprs, chunk=gcsim.chunk_for(len(exprs)), timeout=2400)
        got, wf = [b[:-1] if len(b) > 2 else b[0] for b in both], [b[-1] for b in both]
    except RuntimeError as e:
        ctx.proof_problems.append("model evaluation failed: " + str(e)[:600])
        return
    bad, bad_wf = [], []
    for (case, c), g, w in zip(recs, got, wf):
        diffs = gcsim.compare(c["real"], c["before"], c["after"], gcsim.parse_render(g))
        if diffs:
            bad.append({"spelling": case["spelling"], "seed": case["seed"], "op_index": c["op_index"], "grace": c["grace"], "table_path": c["tp"], "diffs": diffs[:4]})
        if w is not True:
            bad_wf.append({"spelling": case["spelling"], "seed": case["seed"], "op_index": c["op_index"],
                           "note": "the directory written by the real writers does not satisfy hinvb (writer path forms + every retained snapshot fully present)"})
    ctx.correspondence("gc_run", len(recs), bad)
    ctx.correspondence("hinv", len(recs), bad_wf)
    try:
        corr_logsites(ctx, recs)
    except RuntimeError as e:
        ctx.proof_problems.append("model evaluation failed (logsites): " + str(e)[:600])


# ------------------------------------------------------------------------------------------ pure-kernel correspondences
def corr_pystr(ctx) -> None:
    rng = ctx.rng
    alpha = ["/", "a", ".", "d", "x"]
    strs = [""] + ["".join(rng.choice(alpha) for _ in range(rng.randint(1, 7))) for _ in range(160 if ctx.tier == "quick" else 1200)]
    strs += ["a/b/c.inflight", "x.inflight", ".inflight", "inflight", "/", "//", "a//"]
    exprs, exp = [], []
    for s in strs:
        p = rng.choice(strs)
        exprs.append(f"(lstrip_c slash {to_coq(s)}, rstrip_c slash {to_coq(s)}, strip_c slash {to_coq(s)}, basename {to_coq(s)}, "
                     f"startswith {to_coq(p)} {to_coq(s)}, endswith {to_coq(p)} {to_coq(s)}, "
                     f"py_drop (String.length {to_coq(p)}) {to_coq(s)}, py_drop_end (String.length {to_coq(p)}) {to_coq(s)}, nonempty {to_coq(s)})")
        sb, pb = s.encode("utf-8"), p.encode("utf-8")
        exp.append((s.lstrip("/"), s.rstrip("/"), s.strip("/"), s.rsplit("/", 1)[-1], s.startswith(p), s.endswith(p),
                    sb[len(pb):].decode("utf-8", "replace"), sb[: -len(pb)].decode("utf-8", "replace") if pb else "", bool(s)))
    got = coqbuild.coq_eval(REQ, exprs)
    bad = []
    for s, e, g in zip(strs, exp, got):
        if tuple(g) != e:
            bad.append({"s": s, "python": list(e), "model": list(g)})
    ctx.correspondence("pystr", len(strs), bad)


NORM_TPS = ["", "/", "d", "da", "data", "data/", "/data", "/data/", "m", "metadata", "/metadata", "tbl", "./x", "/tmp/t", "/tmp/t/",
            "/tmp//t", "datax", "..", ".", "a/b", "/d", "metadata/manifests", "s3-prefix/data", "//"]


def norm_paths(tp: str, rng: random.Random) -> List[str]:
    base = ["data/x", "/data/x", "//data/x", "metadata/manifests/y.avro", "/metadata/manifests/y.avro", "metadata/inflight/z.inflight",
            "../x", "..", "x", "", "/", "ata/x", "data", "metadata", "d", "tbl/data/x", "/tmp/t/data/x", "/tmp/tx/data/x", "data/data/x",
            "/data/data/x", "etadata/manifests/y", "manifests/y", "/x", "./x/data/f", "datax/data/f"]
    base += [tp + "/data/x", tp + "data/x", tp + "/metadata/manifests/y", tp, tp + "/", tp.rstrip("/") + "//data/x", "/" + tp + "/data/x"]
    base += ["".join(rng.choice("/dat.m") for _ in range(rng.randint(1, 6))) for _ in range(12)]
    return sorted(set(base))


def corr_norm(ctx) -> None:
    from datashard.garbage_collector import GarbageCollector
    import datashard.garbage_collector as gcmod
    import datashard.transaction as txmod
    gc = GarbageCollector.__new__(GarbageCollector)
    cases, exprs, exp = [], [], []
    for tp in NORM_TPS:
        gc.table_path = tp
        for p in norm_paths(tp, ctx.rng):
            cases.append((tp, p))
            exprs.append(f"normalize_path {to_coq(tp)} {to_coq(p)}")
            exp.append(gc._normalize_path(p))
    got = coqbuild.coq_eval(REQ, exprs)
    bad = [{"table_path": tp, "path": p, "code": e, "generated": g} for (tp, p), e, g in zip(cases, exp, got) if e != g]
    for (tp, p), e in zip(cases, exp):
        ctx.count(1, ("norm", tp, p))
    ctx.correspondence("norm", len(cases), bad)

    # marker fallback, marker naming, constants
    class _Raises:
        def read_file(self, path):
            raise OSError("unreadable")
    gc.storage = _Raises()
    gc.table_path = "/tmp/t"
    fn = getattr(gc, "_marker_targets", None) or getattr(gc, "_marker_target")
    # marker keys below metadata/inflight/: bare names (markers of older versions) and whole table-relative paths
    names = ["auto_1.parquet.inflight", "manifest_1_ab.avro.inflight", "x.inflight", ".inflight", "a.b.inflight",
             "data/auto_1.parquet.inflight", "data/p1/x.parquet.inflight", "data/p2/deep/x.parquet.inflight",
             "metadata/manifests/manifest_1_ab.avro.inflight", "other/x.inflight", "data/.inflight", "datax/y.inflight"]
    got = coqbuild.coq_eval(REQ, [f"marker_fallback {to_coq('metadata/inflight/' + n)} {to_coq(n.rsplit('/', 1)[-1])}" for n in names])
    bad = []
    for n, g in zip(names, got):
        r = fn("metadata/inflight/" + n, n.rsplit("/", 1)[-1])
        r = {r} if isinstance(r, str) else set(r)
        if r != set(g):
            bad.append({"marker": n, "code": sorted(r), "generated": sorted(g)})

    class _Rec:
        def __init__(self):
            self.w = []

        def write_file(self, path, payload):
            self.w.append((path, payload))

    class _FM:
        def __init__(self):
            self.storage = _Rec()
    tx = txmod.Transaction.__new__(txmod.Transaction)
    tx.file_manager = _FM()
    tx._inflight_markers = []
    files = ["data/auto_1.parquet", "/data/auto_1.parquet", "metadata/manifests/manifest_1.avro", "metadata/manifests/manifest_list_9_1_ab.avro", "x",
             "data/p1/x.parquet", "/data/p2/x.parquet", "//data/p2/deep/x.parquet"]
    got = coqbuild.coq_eval(REQ, [f"(register_marker_path {to_coq(f)}, register_marker_payload {to_coq(f)})" for f in files]
                            + ["(INFLIGHT_PATH, TX_INFLIGHT_PATH)", "(DEFAULT_INFLIGHT_TIMEOUT_MS, DEFAULT_GRACE_MS, TABLE_DEFAULT_GRACE_MS)"])
    import json as _json
    for f, g in zip(files, got):
        tx._register_inflight(f)
        path, payload = tx.file_manager.storage.w[-1]
        real = (path, _json.loads(payload.decode("utf-8")).get("file_path"))
        if real != tuple(g):
            bad.append({"file_path": f, "code": list(real), "generated": list(g)})
    if tuple(got[-2]) != (gcmod.INFLIGHT_PATH, txmod._INFLIGHT_PATH):
        bad.append({"const": "INFLIGHT_PATH", "generated": list(got[-2])})
    import inspect
    dflt = inspect.signature(GarbageCollector.collect).parameters["grace_period_ms"].default
    tdflt = inspect.signature(txmod.Table.garbage_collect).parameters["grace_period_ms"].default
    if tuple(got[-1]) != (gcmod.DEFAULT_INFLIGHT_TIMEOUT_MS, dflt, tdflt):
        bad.append({"const": "timeouts", "generated": list(got[-1])})
    ctx.correspondence("markers+consts", len(names) + len(files) + 2, bad)


ACCEPT_PATHS = ["data/f.parquet", "/data/f.parquet", "//data/f.parquet", "data/sub/f.parquet", "data/", "data", "/data", "", "/", "//",
               "metadata/manifests/f.parquet", "/metadata/manifests/f.avro", "metadata/inflight/f.inflight", "/metadata/inflight/f.parquet",
               "metadata/f.parquet", "metadata/v1.metadata.json", "metadata.version-hint.text", ".locks/f.parquet", "other/f.parquet",
               "other/data/f.parquet", "f.parquet", "/f.parquet", "datax/f.parquet", "dat/f.parquet", "Data/f.parquet", "data//f.parquet",
               "data/./f.parquet", "data/x/../f.parquet", "data/f.parquet/", "./data/f.parquet", "../data/f.parquet", "..", "../", "data/..",
               "data/../metadata/manifests/f.parquet", "data/../../f", "/data/../f", "tbl/data/f.parquet", "/tmp/t/data/f.parquet",
               "data/\u00e9.parquet", "data/a b.parquet", "data/.hidden", "data/..f", "data/f..", "data/.../f"]


def corr_accept(ctx) -> None:
    """Gen/GenNorm.v append_accepts_path (the path guards of append_files, regenerated) vs the REAL Transaction.append_files
    deciding on the path alone: the file exists, is parquet, the table has no persisted schema."""
    import posixpath
    import datashard.transaction as txmod
    from datashard.data_structures import DataFile, FileFormat
    rng = ctx.rng
    paths = list(ACCEPT_PATHS) + ["".join(rng.choice(["/", ".", "d", "data", "a", "metadata", "..", "x"]) for _ in range(rng.randint(1, 6)))
                                 for _ in range(60 if ctx.tier == "quick" else 600)]
    paths = sorted(set(paths))

    class _FM:
        def validate_file_exists(self, path):
            return True

    exprs, real = [], []
    for pth in paths:
        tx = txmod.Transaction.__new__(txmod.Transaction)
        tx._is_active, tx._is_committed, tx._is_rolled_back, tx._operations = True, False, False, []
        tx.file_manager = _FM()
        tx._resolve_table_schema = lambda: None
        tx._protect_adopted_files = lambda files: None      # GC protection of adopted files (C06) is not what is compared here
        tx._with_verified_bounds = lambda f, schema: f       # nor the recomputation of supplied statistics (C11)
        try:
            tx.append_files([DataFile(file_path=pth, file_format=FileFormat.PARQUET, partition_values={}, record_count=1, file_size_in_bytes=1)])
            real.append(len(tx._operations) == 1)
        except ValueError:
            real.append(False)
        # posixpath.normpath is a parameter of the generated predicate: its true values on the strings it can be asked about
        table = {q: posixpath.normpath(q) for q in {pth, pth.lstrip("/"), pth.strip("/")} if q}
        np = "(fun s => " + "".join(f"if String.eqb s {to_coq(q)} then {to_coq(v)} else " for q, v in sorted(table.items())) + '"."%string)'
        exprs.append(f"append_accepts_path {np} {to_coq(pth)}")
    got = coqbuild.coq_eval(REQ, exprs)
    bad = [{"file_path": pth, "append_files_accepts": r, "generated": g} for pth, r, g in zip(paths, real, got) if r != g]
    for pth in paths:
        ctx.count(1, ("accept", pth))
    ctx.stats["accept"] = {"paths": len(paths), "accepted": sum(1 for r in real if r)}
    ctx.correspondence("accept", len(paths), bad)


# ------------------------------------------------------------------------------------------ process-wide configuration
_EV_CTOR = {"set_level": "ESetLevel", "lib_level": "ELibLevel", "mod_level": "EModLevel", "root_level": "ERootLevel", "disable": "EDisable"}


def conf_term(events: List[List[Any]]) -> str:
    """A configuration history (harness/lib/procconf.py events) as Model/LogConf.v `conf_run [...] conf_default`."""
    evs = []
    for ev in events:
        if ev[0] == "env":
            evs.append(f"EEnv {to_coq(ev[1])} " + ("None" if ev[2] is None else f"(Some {to_coq(str(ev[2]))})"))
        else:
            evs.append(f"{_EV_CTOR[ev[0]]} ({int(ev[1])})%Z")
    return "(conf_run [" + "; ".join(evs) + "] conf_default)"


def corr_logconf(ctx) -> None:
    """Model/LogConf.v vs the real logging module + DataShardLogger: after random configuration histories, getEffectiveLevel and
    isEnabledFor(DEBUG..CRITICAL) of the collector's logger, and os.getenv of the variables the library consults."""
    rng = ctx.rng
    hists = [list(v) for v in procconf.NAMED.values()] + [procconf.random_events(rng, rng.randint(1, 6)) for _ in range(60 if ctx.tier == "quick" else 600)]
    exprs, real = [], []
    for evs in hists:
        with procconf.applied(evs):
            obs = procconf.observe()
            env = [os.environ.get(k) for k in sorted(procconf.ENV_CHOICES)]
        real.append((obs["effective"], obs["enabled"], env))
        c = conf_term(evs)
        exprs.append(f"(effective {c}, map (enabled {c}) [10; 20; 30; 40; 50]%Z, map (getenv (lc_env {c})) {to_coq(sorted(procconf.ENV_CHOICES))})")
    got = coqbuild.coq_eval(REQ_CONF, exprs)
    bad = []
    for evs, r, g in zip(hists, real, got):
        # environment values the harness process started with are not the model's: compared only for variables the history set
        touched = {e[1] for e in evs if e[0] == "env"}
        genv = [(x.x if isinstance(x, Some) else x) for k, x in zip(sorted(procconf.ENV_CHOICES), g[2]) if k in touched]
        renv = [x for k, x in zip(sorted(procconf.ENV_CHOICES), r[2]) if k in touched]
        if g[0] != r[0] or list(g[1]) != list(r[1]) or genv != renv:
            bad.append({"events": evs, "logging": [r[0], r[1], renv], "model": [g[0], list(g[1]), genv]})
        ctx.count(1, ("logconf", repr(evs)))
    ctx.correspondence("logconf", len(hists), bad)
    # the environment variables the library consults are all known to the configuration generator or are table-location ones
    known = set(procconf.ENV_CHOICES) | {"DATASHARD_STORAGE_TYPE", "DATASHARD_S3_BUCKET", "DATASHARD_S3_ENDPOINT", "DATASHARD_S3_ACCESS_KEY",
                                         "DATASHARD_S3_SECRET_KEY", "DATASHARD_S3_REGION", "DATASHARD_S3_PREFIX"}
    unknown = [v for v in procconf.library_env_vars() if v not in known]
    ctx.stats["library_env_vars"] = procconf.library_env_vars()
    ctx.correspondence("envvars", len(procconf.library_env_vars()), [{"variable": v, "note": "read by the library, not a dimension of harness/lib/procconf.py"} for v in unknown])


def corr_logsites(ctx, recs: List[Tuple[Dict[str, Any], Dict[str, Any]]]) -> None:
    """Every record a real collection emitted comes from a logging statement of Gen/GenGCLog.v GC_LOG_SITES at a level the model
    says is enabled under the configuration observed at that collection (Model/GCConf.v may_emit)."""
    sites = coqbuild.coq_eval(REQ_CONF, ["GC_LOG_SITES"])[0]
    table = {(f, int(lv)) for f, lv in sites}
    bad = []
    for case, c in recs:
        enabled = dict(zip(procconf.LEVELS[1:], c["conf"]["enabled"]))
        for f, lv in c["log_sites"]:
            if (f, lv) not in table or not enabled.get(lv, False):
                bad.append({"spelling": case["spelling"], "seed": case["seed"], "config": case.get("config"), "record": [f, lv],
                            "note": "emitted by a statement outside GC_LOG_SITES or at a level that is not enabled"})
    ctx.correspondence("logsites", len(recs), bad[:20])


# ------------------------------------------------------------------------------------------ driver
def run(ctx) -> None:
    ctx.rule = ("one evaluation = one real collection inside a generated history, judged by the independent oracle and compared with "
                "the model; distinct by (location spelling, grace, #deleted, #reachable, #protected); plus exhaustive small-domain "
                "runs of the regenerated path kernel")
    ctx.trusted_base += [
        "translator/gen_norm.py (Python ast -> Gallina for _normalize_path, marker fallback, _register_inflight, the path guards of append_files; control skeletons pinned)",
        "Model/PyStr.v models Python str methods on UTF-8 bytes (validated by the 'pystr' correspondence)",
        "harness: harness/props/c05.py, harness/lib/gcsim.py (independent reader: json + fastavro + pyarrow; traced storage; frozen clock)",
    ]
    ctx.assumptions += [
        "writer-side path forms (wf_store): data files under data/ (derived from append_files' regenerated path guards: "
        "C05_acceptance_regenerated), manifests and lists under metadata/, markers named '<basename>.inflight' "
        "with the table-relative path as payload -- proved invariant of the model's writers (C05_history), checked on every real directory",
        "transactions are younger than the marker abandonment timeout (24 h): older markers deliberately stop protecting",
        "file names are fresh (uuid4 collisions excluded)",
        "the collection reads one clock value (C06 covers collections that overlap commits)",
    ]
    procconf.quiet()            # the library's records go to a sink; levels are NOT touched (each case establishes its own)
    ctx.proofs(THEOREMS, gen_files=["GenNorm.v", "GenGCLog.v"])
    ctx.allow_axioms([])
    run_histories(ctx)          # oracle + gc_run correspondence (the oracle part needs no model)
    try:
        corr_pystr(ctx)
        corr_norm(ctx)
        corr_accept(ctx)
        corr_logconf(ctx)
    except RuntimeError as e:
        ctx.proof_problems.append("model evaluation failed: " + str(e)[:600])


def replay(ctx, payload) -> int:
    case = payload.get("case", {})
    if "ops" not in case:
        print("replay: payload names a broken proof / correspondence; re-run ./bin/check C05 thorough")
        return 2
    res = exec_history({"spelling": case["spelling"], "seed": case.get("seed"), "ops": case["ops"], "schemaless": bool(case.get("schemaless")),
                        "config": case.get("config") or [], "base": os.path.join(ctx.scratch, "replay")})
    for v in res["violations"]:
        print("replay: STILL FAILS", v["key"], "-", v["what"])
    if not res["violations"]:
        print("replay: passes now", res.get("op_errors", [])[:3])
    return 1 if res["violations"] else 0
