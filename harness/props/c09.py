"""C09 -- Retained snapshots are immutable and time travel is stable.

Proof      : coq/Props/C09.v: (a) C09_immutable over Model/Fault.v: once a version is committed, any later sequence
             of commits (appends, deletes that rewrite manifests into fresh files), failed / interrupted / crashed
             commits and rollbacks leaves the set of files it references unchanged and all present (write-once files);
             (b) C09_by_timestamp / C09_delete_current / C09_by_id over Model/Meta.v (proved with C15): lookup by
             timestamp returns the most recently committed retained snapshot not newer than t (stable sort, non-decreasing
             timestamps), deleting the current snapshot repoints to the most recently committed survivor; (c) collections
             delete only unreferenced files (C05's history theorem, re-exported).
Tie/oracle : random sequential histories on the real library over {append, delete_files, expire_snapshots,
             delete_snapshot, garbage_collect(0 | large), failed commit}: after EVERY step every retained snapshot is
             re-read by an independent reader and compared with the content recorded when it was committed; lookup by
             id, lookup by timestamp (at, between and outside all snapshot timestamps; equal timestamps included) and the
             repointed current snapshot are compared with an independent reference AND with the Coq model
             (Meta.v functions evaluated by vm_compute on the same snapshot lists).
"""
from __future__ import annotations

import os
import shutil
from typing import Any, Dict, List, Optional, Tuple

from harness.lib import coqbuild, protocol as P

LEVEL = "proof"
THEOREMS = ["C09_immutable", "C09_by_timestamp", "C09_delete_current", "C09_by_id", "C09_collect_keeps_retained"]
MANIFEST_ENTRY = {
    "level_text": "Immutability of committed versions under every later sequence of commits, failures and rollbacks proved in Coq "
                  "(C09_immutable, unbounded); time-travel lookups and current-snapshot repointing proved over the metadata model "
                  "(C09_by_timestamp with a stable sort, C09_delete_current, C09_by_id); collections keep every retained snapshot "
                  "(C09_collect_keeps_retained); random sequential histories on the real library re-read every retained snapshot "
                  "after every step with an independent reader and compare the lookups with the model and an independent reference",
    "level_note": "trusted: Coq kernel; files are write-once (fresh names), so an unchanged file set means unchanged content -- the "
                  "harness checks content (rows) directly; timestamps non-decreasing (DESIGN.md C09 interpretation); model ties for "
                  "Meta.v and GC.v are those of C15 and C05",
    "technique": "Coq proofs (immutability invariant; stable-sort lookup) + sequential-history differential check",
    "design_ref": "DESIGN.md section 5 C09",
}

FIELDS = [{"id": 1, "name": "x", "type": "long", "required": False}]


class Clock:
    def __init__(self) -> None:
        self.ms = 1_700_000_000_000


def snapshot_content(root: str, state: Dict[str, Any], sid: int) -> Tuple[Tuple[str, ...], Tuple[int, ...]]:
    import pyarrow.parquet as pq
    files = state["snapshots"][sid]["files"]
    rows: List[int] = []
    for f in files:
        rows.extend(r["x"] for r in pq.read_table(os.path.join(root, f)).to_pylist())
    return tuple(files), tuple(sorted(rows))


def ref_by_timestamp(state: Dict[str, Any], t: int) -> Optional[int]:
    """most recently committed retained snapshot not newer than t (commit order = snapshot_log order)"""
    best = None
    for sid in state["log_order"]:
        if sid in state["snapshots"] and state["snapshots"][sid]["ts"] <= t:
            best = sid
    return best


# Directed histories (op names; "expire_old" = expire everything but the current snapshot): the shapes in which a
# retained snapshot shares files / manifests with snapshots that are then removed, followed by a collection.
DIRECTED = [
    ["append_multi", "append", "delete_files", "expire_old", "collect"],
    ["append_multi", "delete_files", "expire_old", "collect", "append", "collect"],
    ["append_multi", "append_multi", "delete_files", "delete_files", "expire_old", "collect"],
    ["append", "append_multi", "delete_files", "delete_snapshot_old", "delete_snapshot_old", "collect"],
    ["append_multi", "delete_files", "append", "delete_snapshot_cur", "collect", "expire_old", "collect"],
    ["append_multi", "failed_commit", "delete_files", "failed_commit", "expire_old", "collect", "append", "collect"],
]


def run_history(ctx, seed: int, length: int, script: Optional[List[str]] = None, backwards: bool = False) -> Tuple[List[str], List[Dict[str, Any]], Dict[str, Any]]:
    import random
    import datashard
    import datashard.file_manager as fm
    import datashard.metadata_manager as mm
    import datashard.snapshot_manager as sm
    from datashard.data_structures import Schema
    rng = random.Random(seed)
    root = os.path.join(ctx.scratch, "c09")
    shutil.rmtree(root, ignore_errors=True)
    clock = Clock()
    import datetime as _dt
    real_dt = _dt.datetime

    class FakeDT(real_dt):
        @classmethod
        def now(cls, tz=None):   # type: ignore[override]
            return real_dt.fromtimestamp(clock.ms / 1000.0, tz)
    saved = (mm.datetime, sm.datetime, fm.datetime)
    mm.datetime = sm.datetime = fm.datetime = FakeDT
    viol: List[str] = []
    lookups: List[Dict[str, Any]] = []
    stats = {"steps": 0, "appends": 0, "deletes": 0, "expires": 0, "delete_snapshots": 0, "collects": 0, "failed_commits": 0,
             "equal_timestamp_pairs": 0}
    try:
        t = datashard.create_table(root, Schema(schema_id=1, fields=FIELDS))
        recorded: Dict[int, Tuple[Tuple[str, ...], Tuple[int, ...]]] = {}
        nextv = [0]
        for step in range(len(script) if script is not None else length):
            r = rng.random()
            forced = script[step] if script is not None else None
            if forced is not None:
                r = {"append": 0.0, "append_multi": 0.0, "delete_files": 0.45, "expire_old": 0.6, "delete_snapshot_old": 0.7,
                     "delete_snapshot_cur": 0.7, "collect": 0.85, "failed_commit": 0.95}[forced]
            if rng.random() < 0.6:
                clock.ms += rng.choice([0, 0, 1, 5, 1000])       # equal timestamps are frequent on purpose
            if backwards and rng.random() < 0.35:
                clock.ms -= rng.choice([1, 7, 2500, 600000])     # the wall clock steps BACK (NTP step, another writer's lagging host)
            state = P.read_table_independent(root)
            cur = state["current"]
            op = "append"
            try:
                if r < 0.40 or not state["snapshots"]:
                    nextv[0] += 1
                    if forced == "append_multi" or (forced is None and rng.random() < 0.4):
                        # ONE transaction, several data files: they share a manifest, so a later partial delete rewrites it
                        op = "append_multi"
                        with t.new_transaction() as tx:
                            for k in range(rng.choice([2, 3])):
                                tx.append_data(records=[{"x": nextv[0] * 10 + k}])
                            tx.commit()
                        stats["multi_file_appends"] = stats.get("multi_file_appends", 0) + 1
                    else:
                        t.append_records([{"x": nextv[0] * 10}, {"x": nextv[0] * 10 + 1}])
                    stats["appends"] += 1
                elif r < 0.52 and cur in state["snapshots"] and state["snapshots"][cur]["files"]:
                    op = "delete_files"
                    victim = rng.choice(state["snapshots"][cur]["files"])
                    with t.new_transaction() as tx:
                        tx.delete_files([victim if rng.random() < 0.5 else "/" + victim])
                        tx.commit()
                    stats["deletes"] += 1
                elif r < 0.64:
                    op = "expire"
                    tss = sorted(s["ts"] for s in state["snapshots"].values())
                    cutoff = rng.choice(tss + [tss[-1] + 1, tss[0] - 1]) if tss else 0
                    if forced == "expire_old" and tss:
                        cutoff = tss[-1] + 1
                    with t.new_transaction() as tx:
                        tx.expire_snapshots(cutoff)
                        tx.commit()
                    stats["expires"] += 1
                elif r < 0.78 and state["snapshots"]:
                    op = "delete_snapshot"
                    sid = rng.choice(list(state["snapshots"]))
                    if forced is None and cur in state["snapshots"] and rng.random() < 0.3:
                        sid = cur
                    if forced == "delete_snapshot_cur" and cur is not None:
                        sid = cur
                    elif forced == "delete_snapshot_old":
                        olds = [x for x in state["log_order"] if x in state["snapshots"] and x != cur]
                        sid = olds[0] if olds else sid
                    t.snapshot_manager.delete_snapshot(sid)
                    stats["delete_snapshots"] += 1
                elif r < 0.90:
                    op = "collect"
                    for rel in ("data", "metadata/manifests"):
                        d = os.path.join(root, rel)
                        for f in os.listdir(d):
                            os.utime(os.path.join(d, f), (1, 1))          # everything is older than any grace period
                    t.garbage_collect(grace_period_ms=rng.choice([0, 3_600_000]))
                    stats["collects"] += 1
                else:
                    op = "failed_commit"
                    real_write = t.storage.write_file

                    def failing(path: str, content: bytes) -> None:
                        if path.endswith(P.HINT):
                            raise OSError("injected pointer-write failure")
                        return real_write(path, content)
                    # WHICH operation's commit fails: an append, a file delete, an expiry or a snapshot deletion -- the
                    # failed operation must leave every retained snapshot (the one it tried to remove included) as it was
                    which = rng.choice(["append", "delete_files", "expire", "delete_snapshot", "delete_snapshot_cur"])
                    snaps_now = list(state["snapshots"])
                    t.storage.write_file = failing
                    try:
                        if which == "append" or not snaps_now:
                            t.append_records([{"x": -7}])
                        elif which == "delete_files" and cur in state["snapshots"] and state["snapshots"][cur]["files"]:
                            with t.new_transaction() as tx:
                                tx.delete_files([state["snapshots"][cur]["files"][0]])
                                tx.commit()
                        elif which == "expire":
                            with t.new_transaction() as tx:
                                tx.expire_snapshots(max(sn["ts"] for sn in state["snapshots"].values()) + 1)
                                tx.commit()
                        elif which == "delete_snapshot_cur" and cur in state["snapshots"]:
                            t.snapshot_manager.delete_snapshot(cur)
                        else:
                            t.snapshot_manager.delete_snapshot(snaps_now[0])
                        viol.append(f"{which} with a failing pointer write reported success")
                    except OSError:
                        pass
                    finally:
                        t.storage.write_file = real_write
                    op = f"failed_commit:{which}"
                    stats["failed_commits"] += 1
            except Exception as e:      # noqa: BLE001
                viol.append(f"step {step} ({op}) raised {type(e).__name__}: {e}"[:300])
                break
            stats["steps"] += 1
            # ---- oracle after the step
            try:
                state = P.read_table_independent(root)
            except Exception as e:      # noqa: BLE001
                viol.append(f"after step {step} ({op}) the table is unreadable: {e!r}"[:300])
                break
            if state["missing"]:
                viol.append(f"after step {step} ({op}) retained snapshots reference missing files: {state['missing'][:3]}")
                break
            for sid in state["snapshots"]:
                content = snapshot_content(root, state, sid)
                if sid not in recorded:
                    recorded[sid] = content
                elif recorded[sid] != content:
                    viol.append(f"after step {step} ({op}) retained snapshot {sid} changed: {recorded[sid]} -> {content}")
            # lookups
            lib_state = {s.snapshot_id: s for s in t.snapshot_manager.get_all_snapshots()}
            for sid in state["snapshots"]:
                got = t.snapshot_by_id(sid)
                if got is None or got.snapshot_id != sid or got.manifest_list.lstrip("/") not in "".join([state["meta"]["snapshots"][i]["manifest_list"] for i in range(len(state["meta"]["snapshots"])) if state["meta"]["snapshots"][i]["snapshot_id"] == sid]):
                    viol.append(f"after step {step} lookup by id {sid} returned {got}")
            tss = sorted({s["ts"] for s in state["snapshots"].values()})
            probes = set()
            for x in tss:
                probes.update([x - 1, x, x + 1])
            for tq in sorted(probes):
                got = t.time_travel(timestamp=tq)
                want = ref_by_timestamp(state, tq)
                gid = got.snapshot_id if got is not None else None
                lookups.append({"snaps": [(sid, state["snapshots"][sid]["ts"]) for sid in state["snapshot_order"]],
                                "log": [sid for sid in state["log_order"]], "t": tq, "impl": gid, "ref": want})
                if gid != want and not backwards:
                    # (with a clock that stepped back, "not newer than t" and "most recently committed" pull apart: the lookup is
                    #  then compared with the model only -- DESIGN.md C09 interpretation; repointing and by-id are judged always)
                    viol.append(f"after step {step} time_travel(timestamp={tq}) returned {gid}, the most recently committed retained "
                                f"snapshot not newer than it is {want} (snapshots {[(s, state['snapshots'][s]['ts']) for s in state['log_order'] if s in state['snapshots']]})")
            stats["equal_timestamp_pairs"] += sum(1 for a, b in zip(tss, tss[1:]) if a == b) + (len(state["snapshots"]) - len(tss))
            if op == "delete_snapshot" and cur is not None and cur not in state["snapshots"]:
                survivors = [sid for sid in state["log_order"] if sid in state["snapshots"]]
                want = survivors[-1] if survivors else None
                if state["current"] not in (want, None if want is None else want):
                    viol.append(f"after deleting the current snapshot the table points to {state['current']}, most recently committed survivor is {want}")
    finally:
        mm.datetime, sm.datetime, fm.datetime = saved
    return viol, lookups, stats


def model_by_timestamp(lookups: List[Dict[str, Any]]) -> List[Dict[str, Any]]:
    """Evaluate Meta.v's lookup on the same snapshot lists (ids canonicalised)."""
    req = ["DS.Model.C09Lookup"]
    if not lookups:
        return []
    exprs = []
    for lk in lookups:
        ids = {sid: i + 1 for i, (sid, _ts) in enumerate(lk["snaps"])}
        snaps = "[" + "; ".join(f"({ids[sid]}, {ts})" for sid, ts in lk["snaps"]) + "]"
        exprs.append(f"c09_by_timestamp_ids {snaps} ({lk['t']})")
        lk["ids"] = ids
    try:
        vals = coqbuild.coq_eval(req, exprs, chunk=200)
    except RuntimeError as e:
        return [{"model_evaluation_failed": str(e)[:400]}]
    bad = []
    for lk, v in zip(lookups, vals):
        want = None if lk["impl"] is None else lk["ids"].get(lk["impl"])
        got = v.x if hasattr(v, "x") else v
        if got != want:
            bad.append({"snaps": [(lk["ids"][s], ts) for s, ts in lk["snaps"]], "t": lk["t"], "impl": want, "model": got})
    return bad


def run(ctx) -> None:
    ctx.rule = ("random sequential histories over {append, delete_files (either path spelling), expire_snapshots, delete_snapshot, "
                "garbage_collect(0|1h) with every file made old, failed commit} with a scripted clock (equal timestamps frequent); "
                "every retained snapshot re-read after every step; distinct = (seed, step)")
    ctx.trusted_base += ["harness/props/c09.py + harness/lib/protocol.py independent reader (json, fastavro, pyarrow)"]
    ctx.assumptions += ["snapshot timestamps non-decreasing in commit order (DESIGN.md C09 interpretation)"]
    ctx.proofs(THEOREMS)
    ctx.allow_axioms([])
    quick = ctx.tier == "quick"
    nh, length = (14, 14) if quick else (150, 40)
    all_lookups: List[Dict[str, Any]] = []
    agg: Dict[str, int] = {}
    jobs: List[Tuple[int, Optional[List[str]]]] = []
    for di, script in enumerate(DIRECTED):
        for rep in range(1 if quick else 6):
            jobs.append((1000 * di + rep, script))
    jobs += [(ctx.rng.randrange(1 << 30), None) for _ in range(nh)]
    # repointing after deleting the current snapshot, on a clock that steps back: directed
    for rep in range(2 if quick else 10):
        jobs.append((7000 + rep, ["append", "append", "append_multi", "delete_snapshot_cur", "append", "delete_snapshot_cur", "collect"]))
        jobs.append((7100 + rep, ["append", "append", "delete_files", "delete_snapshot_cur", "delete_snapshot_cur"]))
    nback = 0
    for ji, (seed, script) in enumerate(jobs):
        backwards = ji % 3 == 2 or seed >= 7000 and seed < 7200          # a third of the histories run on a clock that also steps back
        nback += 1 if backwards else 0
        viol, lookups, stats = run_history(ctx, seed, length, script, backwards)
        ctx.count(stats["steps"], ("hist", seed))
        for k, v in stats.items():
            agg[k] = agg.get(k, 0) + v
        for v in viol[:3]:
            ctx.violation("history:" + v.split(" ")[3 if v.startswith("after step") else 0][:24], v,
                          {"seed": seed, "length": length, "script": script, "backwards": backwards})
        all_lookups.extend(lookups)
    ctx.stats["histories"] = len(jobs)
    ctx.stats["directed_histories"] = len(jobs) - nh
    ctx.stats["histories_with_clock_stepping_back"] = nback
    ctx.stats.update(agg)
    ctx.stats["timestamp_lookups"] = len(all_lookups)
    if all_lookups:
        ctx.sample({"lookup": {k: v for k, v in all_lookups[len(all_lookups) // 2].items() if k != "ids"}})
    sample = all_lookups if len(all_lookups) <= 1500 else ctx.rng.sample(all_lookups, 1500)
    bad = model_by_timestamp(sample)
    ctx.correspondence("by-timestamp", len(sample), bad)


def replay(ctx, payload) -> int:
    c = payload.get("case", {})
    if "seed" not in c:
        print("replay: no concrete case")
        return 2
    viol, _l, _s = run_history(ctx, c["seed"], c["length"], c.get("script"), bool(c.get("backwards")))
    print("replay:", "STILL FAILS: " + viol[0] if viol else "passes now")
    return 1 if viol else 0
