"""C09 -- Retained snapshots are immutable and time travel is stable.

Proof      : coq/Props/C09.v:
             (a) CONTENT, over Model/GCView.v on the histories of Model/GCHist.v: C09_retained_content_step /
                 C09_retained_content_stable -- the content a reader gets from a retained snapshot (manifests of its list, data
                 files of each manifest, body of each data file) exists after every sequential history and is left exactly as it
                 was by any further step -- a commit with ANY mix of appended, rewritten and dropped manifests (append,
                 delete_files, one transaction doing both, with or without an expiry), expiry, deletion of any snapshot (oldest /
                 intermediate / current), open transactions, planted orphans, file ageing, collections with any location / grace /
                 clock / fault oracle -- for as long as it stays in the metadata; C09_collect_keeps_retained is the PRESENCE half
                 only (C05's history theorem);
             (b) METADATA, over Model/Meta.v (proved with C15; its step function is proved equal to regenerated code there):
                 C09_retained_snapshot_frozen -- across any continuation of any history a snapshot retained before and after has
                 the timestamp, sequence number and manifest list (every manifest, every entry) it had (a delete_files builds a
                 NEW snapshot with rewritten manifests; only the parent link of a survivor may be repointed);
                 C09_by_id + C09_by_id_complete (exact and complete); C09_delete_current (most recently committed survivor,
                 any clock); lookup by timestamp: C09_by_timestamp_characterised, for EVERY history -- greatest timestamp not
                 newer than t, and among the retained snapshots carrying it the most recently committed (stable sort);
                 the property's wording "the most recently committed retained snapshot not newer than t" is
                 C09_by_timestamp_full, a Definition: proved under the extra hypothesis that commit timestamps never decrease
                 (C09_by_timestamp_partial, hypothesis nondecreasing_ts) and REFUTED without it (C09_by_timestamp_refuted:
                 snapshot 1 stamped 10, then snapshot 2 stamped 5, lookup at 10 returns 1);
             (c) C09_version_refs_frozen over Model/Fault.v (formerly C09_immutable; renamed: it is not content immutability):
                 under any later protocol steps, failed / interrupted / crashed commits and rollbacks the SET of file names a
                 committed metadata version references is unchanged and all present -- a consequence of fresh names and of the
                 model's rollback guard, which C04 ties to the regenerated handler tables;
             (d) the manifest lists a collection opens: Gen/GenGCRoots.v is REGENERATED from the loop of GarbageCollector.collect
                 over metadata.snapshots (translator/gen_gcroots.py, fail closed: the loop that opens lists must iterate exactly the
                 set that loop fills); C09_collect_roots_every_snapshot (the list of EVERY retained snapshot, for any parents and
                 operation labels), C09_collect_roots_ignore_lineage, C09_collect_opens_roots (the collector model of C05 opens
                 exactly the regenerated roots, under every fault oracle); C09_lookups_regenerated (the lookups of (b) are the
                 functions of the source).
             The three models (Fault.v, Meta.v, GCHist.v) are each tied to the code (C04 / C15 / C05 + this check's
             correspondences), not to each other in Coq.
Tie/oracle : random and directed sequential histories on the real library over {append, multi-file append, ONE transaction mixing
             delete_files / append_data / expire_snapshots (recorded under a single operation label), delete_files,
             expire_snapshots, retention-count pruning, delete_snapshot of the oldest / an intermediate / the parent of the current /
             the current snapshot (survivors' parents are repointed), garbage_collect(0 | 1 h) with files on either side of the
             cutoff, failed commit of each of these -- failing cleanly before the pointer write, or with the pointer write LANDED
             but reported as failed (ambiguous commit on a backend without atomic write failures; interrupt right after the flip)};
             half of the random histories run a collection after EVERY step; a third run every transaction on ONE reused
             Transaction object (failure sequences on it: oracle only, the handler tables are C04's model).  After every
             step and after every collection every retained snapshot is re-read by an independent reader and compared with the
             content recorded when it was committed; lookup by id (every retained snapshot is found with the timestamp, sequence
             number and manifest list it was first seen with; removed ids are not found), lookup by timestamp (at, between and
             outside all snapshot timestamps; equal timestamps included) and the repointed current snapshot are compared with an
             independent reference.  Lookup by timestamp is judged on EVERY history, a third of which run on a clock that also steps
             back, against the unconditional characterisation (greatest timestamp <= t, most recently committed among those
             carrying it); on histories without a regression additionally against the property's wording.
             Correspondence: the timestamp lookups with Meta.v; EVERY collection of these histories (traced storage, frozen clock)
             with Model/GC.v gc_run (outcome, deleted set, keep sets, storage calls), the history invariant (hinvb), the content of
             every retained snapshot before and after the collection (Model/GCView.v on the model's own final store vs the real
             directory) and the regenerated roots vs the manifest lists the real collector opened.
"""
from __future__ import annotations

import os
import shutil
from typing import Any, Dict, List, Optional, Tuple

from harness.lib import coqbuild, protocol as P

LEVEL = "proof"
THEOREMS = ["C09_retained_content_step", "C09_retained_content_stable", "C09_retained_snapshot_frozen",
            "C09_by_id", "C09_by_id_complete", "C09_by_timestamp_characterised", "C09_by_timestamp_partial", "C09_by_timestamp_refuted",
            "C09_delete_current", "C09_version_refs_frozen", "C09_collect_keeps_retained", "C09_collect_roots_every_snapshot",
            "C09_collect_roots_ignore_lineage", "C09_collect_opens_roots", "C09_lookups_regenerated"]
MANIFEST_ENTRY = {
    "level_text": "The content a reader gets from a retained snapshot is unchanged by every step of every sequential history -- commits "
                  "mixing appended / rewritten / dropped manifests, expiries, deletions of any snapshot, collections under any fault "
                  "oracle (C09_retained_content_step, C09_retained_content_stable, induction over unbounded histories; "
                  "C09_collect_keeps_retained is the presence half); over the metadata model a snapshot retained before and after any "
                  "continuation keeps its timestamp, sequence number and every manifest entry (C09_retained_snapshot_frozen); lookup by "
                  "id is exact and complete (C09_by_id, C09_by_id_complete); deleting the current snapshot repoints to the most recently "
                  "committed survivor (C09_delete_current); lookup by timestamp is characterised for every history as greatest "
                  "timestamp <= t, most recently committed among the snapshots carrying it (C09_by_timestamp_characterised); the "
                  "property's wording 'most recently committed retained snapshot not newer than t' is proved only under non-decreasing "
                  "commit timestamps (C09_by_timestamp_partial) and is refuted without that hypothesis (C09_by_timestamp_full is a "
                  "Definition, C09_by_timestamp_refuted its counterexample: a clock that steps back); the file-name set referenced by a "
                  "committed metadata version is frozen and present under failing commits and rollbacks (C09_version_refs_frozen, a "
                  "consequence of the model's rollback guard, tied to the code by C04); the manifest lists a collection opens are "
                  "regenerated from GarbageCollector.collect and proved to be the lists of ALL retained snapshots whatever their parent "
                  "links and operation labels (C09_collect_roots_every_snapshot, C09_collect_roots_ignore_lineage, "
                  "C09_collect_opens_roots); random and directed sequential histories on the real library (mixed "
                  "delete+append(+expire) transactions, deletions of intermediate snapshots, retention pruning, a collection after "
                  "every step, a third on a clock that also steps back) re-read every retained snapshot after every step and every "
                  "collection with an independent reader; lookups compared with the model and independent references on every history; "
                  "every collection compared with the collector model, the content model and the regenerated roots",
    "level_note": "IN-PLACE MUTATION of a manifest / data file is not expressible in the Coq history machine (its commits write fresh keys by construction: valid_commit; bodies are constants) -- C09_retained_content_stable therefore covers over-eager collection and metadata edits, and the no-rewrite half of the property is judged by the oracle (bytes of every existing immutable file compared after every step). "
                  "PARTIAL for the by-timestamp sentence of the property: with commit timestamps that decrease (wall clock stepping "
                  "back, a second writer with a lagging clock) get_snapshot_by_timestamp returns the snapshot with the greatest "
                  "timestamp <= t, not the most recently committed one (C09_by_timestamp_refuted; DESIGN.md C09 interpretation: clock "
                  "regressions are outside the property's histories); trusted: Coq kernel; translator/gen_gcroots.py, "
                  "translator/gen_norm.py; files are write-once (fresh names: valid_commit of Model/GCHist.v), so an unchanged file "
                  "set means unchanged content -- the harness checks content (rows) directly; Model/Fault.v, Model/Meta.v and "
                  "Model/GCHist.v are three models tied to the code separately (C04, C15, C05 and the per-collection correspondence of "
                  "this check), not to each other in Coq; metadata_manager.refresh() is an input of the collector model",
    "technique": "Coq proofs (content-stability induction over histories with collections; frozen-record and per-timestamp commit-order "
                 "invariants of the metadata model; stable-sort lookup characterisation + refutation of the unconditional wording; "
                 "translator-regenerated root selection) + sequential-history differential check with per-collection model correspondence",
    "design_ref": "DESIGN.md section 5 C09",
}

FIELDS = [{"id": 1, "name": "x", "type": "long", "required": False}]


class Clock:
    def __init__(self) -> None:
        self.ms = 1_700_000_000_000


def snapshot_content(root: str, state: Dict[str, Any], sid: int) -> Tuple[Tuple[str, ...], Tuple[int, ...]]:
    import pyarrow.parquet as pq
    files = state["snapshots"][sid]["files"]
    rows: List[int] = []
    for f in files:
        rows.extend(r["x"] for r in pq.read_table(os.path.join(root, f)).to_pylist())
    return tuple(files), tuple(sorted(rows))


def ref_by_timestamp(state: Dict[str, Any], t: int) -> Optional[int]:
    """most recently committed retained snapshot not newer than t (commit order = snapshot_log order)"""
    best = None
    for sid in state["log_order"]:
        if sid in state["snapshots"] and state["snapshots"][sid]["ts"] <= t:
            best = sid
    return best


def ref_by_timestamp_any_clock(state: Dict[str, Any], t: int) -> Optional[int]:
    """What C09_by_timestamp_characterised states, for ANY clock: among the retained snapshots not newer than t those with
    the greatest timestamp, and among these the most recently committed (snapshot_log order).  Equal to ref_by_timestamp
    whenever commit timestamps never decrease."""
    cands = [sid for sid in state["log_order"] if sid in state["snapshots"] and state["snapshots"][sid]["ts"] <= t]
    if not cands:
        return None
    top = max(state["snapshots"][sid]["ts"] for sid in cands)
    return [sid for sid in cands if state["snapshots"][sid]["ts"] == top][-1]


# Directed histories (op names; "expire_old" = expire everything but the current snapshot): the shapes in which a
# retained snapshot shares files / manifests with snapshots that are then removed, or owns manifests that its successors
# do not list (a transaction that deletes AND appends, a removed intermediate snapshot), followed by a collection.
DIRECTED = [
    ["append_multi", "append", "delete_files", "expire_old", "collect"],
    ["append_multi", "delete_files", "expire_old", "collect", "append", "collect"],
    ["append_multi", "append_multi", "delete_files", "delete_files", "expire_old", "collect"],
    ["append", "append_multi", "delete_files", "delete_snapshot_old", "delete_snapshot_old", "collect"],
    ["append_multi", "delete_files", "append", "delete_snapshot_cur", "collect", "expire_old", "collect"],
    ["append_multi", "failed_commit", "delete_files", "failed_commit", "expire_old", "collect", "append", "collect"],
    # mixed transactions (one commit that deletes and appends / deletes and expires / appends and expires)
    ["append", "append_multi", "tx_replace", "collect", "tx_replace", "collect", "delete_snapshot_mid", "collect"],
    ["append_multi", "tx_mixed", "tx_mixed", "collect", "expire_old", "collect", "tx_mixed", "collect"],
    ["append", "append", "tx_replace", "delete_snapshot_old", "collect", "tx_replace", "delete_snapshot_cur", "collect"],
    # snapshot deletions of intermediate snapshots (parents of the survivors are repointed past the removed one)
    ["append", "delete_files", "append", "delete_snapshot_mid", "collect", "append", "collect"],
    ["append_multi", "delete_files", "append", "delete_files", "append", "delete_snapshot_mid", "delete_snapshot_mid", "collect"],
    ["append", "tx_replace", "delete_files", "append", "delete_snapshot_parent", "collect", "delete_snapshot_parent", "collect"],
    # failure sequences on ONE reused Transaction object (a commit whose pointer write landed although it reported failure,
    # then further failed commits on the same object), then a collection
    ["append_multi", "failed_commit", "failed_commit", "failed_commit", "append", "failed_commit", "failed_commit", "failed_commit", "collect"],
    ["append", "failed_commit", "failed_commit", "tx_replace", "failed_commit", "failed_commit", "failed_commit", "collect", "failed_commit"],
]

# weights of the random generator (op name -> weight); "tx_mixed" = ONE transaction with any combination of
# append_data x k, delete_files x j and expire_snapshots
WEIGHTS = [("append", 0.16), ("append_multi", 0.10), ("tx_mixed", 0.16), ("delete_files", 0.10), ("expire", 0.10),
           ("delete_snapshot", 0.16), ("collect", 0.12), ("failed_commit", 0.10)]
RET_KEY = "datashard.snapshot.retention-count"
TIMEOUT_MS = 24 * 3600 * 1000


def _pick(rng, weights) -> str:
    r = rng.random() * sum(w for _n, w in weights)
    for n, w in weights:
        r -= w
        if r < 0:
            return n
    return weights[-1][0]


def snapshot_views(root: str, meta: Dict[str, Any]) -> List[Optional[List[Tuple[str, List[str]]]]]:
    """Per retained snapshot (metadata order): [(manifest key, [data file keys])] read with fastavro only (None = unreadable)."""
    import io
    import fastavro
    out: List[Optional[List[Tuple[str, List[str]]]]] = []
    for s in meta["snapshots"]:
        try:
            view = []
            with open(os.path.join(root, s["manifest_list"].lstrip("/")), "rb") as f:
                mans = [m["manifest_path"] for m in fastavro.reader(io.BytesIO(f.read()))]
            for m in mans:
                if not m:
                    continue
                with open(os.path.join(root, m.lstrip("/")), "rb") as f:
                    ents = [e["data_file"]["file_path"].lstrip("/") for e in fastavro.reader(io.BytesIO(f.read()))]
                if any(not os.path.exists(os.path.join(root, e)) for e in ents):
                    raise FileNotFoundError(m)
                view.append((m.lstrip("/"), ents))
            out.append(view)
        except Exception:   # noqa: BLE001
            out.append(None)
    return out


def run_history(ctx, seed: int, length: int, script: Optional[List[str]] = None, backwards: bool = False,
                opts: Optional[Dict[str, Any]] = None, collect_log: Optional[List[Dict[str, Any]]] = None
                ) -> Tuple[List[str], List[Dict[str, Any]], Dict[str, Any]]:
    """One sequential history on the real library.  opts: gc_every (a collection with every file old follows EVERY step, and
    every retained snapshot is re-read after it), retention (the table's retention-count property: commits prune)."""
    import random
    import time as _time
    import datashard
    import datashard.file_manager as fm
    import datashard.metadata_manager as mm
    import datashard.snapshot_manager as sm
    from datashard.data_structures import Schema
    from harness.lib import gcsim
    opts = opts or {}
    rng = random.Random(seed)
    root = os.path.join(ctx.scratch, "c09")
    shutil.rmtree(root, ignore_errors=True)
    clock = Clock()
    import datetime as _dt
    real_dt = _dt.datetime

    class FakeDT(real_dt):
        @classmethod
        def now(cls, tz=None):   # type: ignore[override]
            return real_dt.fromtimestamp(clock.ms / 1000.0, tz)
    saved = (mm.datetime, sm.datetime, fm.datetime)
    mm.datetime = sm.datetime = fm.datetime = FakeDT
    viol: List[str] = []
    lookups: List[Dict[str, Any]] = []
    stats = {"steps": 0, "appends": 0, "deletes": 0, "expires": 0, "delete_snapshots": 0, "collects": 0, "failed_commits": 0,
             "equal_timestamp_pairs": 0, "mixed_transactions": 0, "delete_and_append_transactions": 0,
             "intermediate_snapshot_deletions": 0, "collections_after_a_step": 0, "files_collected": 0,
             "retained_snapshot_rereads": 0, "failed_commits_whose_pointer_write_landed": 0, "by_id_lookups": 0,
             "timestamp_lookups_where_a_clock_regression_separates_the_two_readings": 0}
    try:
        t = datashard.create_table(root, Schema(schema_id=1, fields=FIELDS))
        if opts.get("retention"):
            new = t.metadata_manager.refresh()
            new.properties[RET_KEY] = str(opts["retention"])
            t.metadata_manager.commit(t.metadata_manager.refresh(), new)
        file_digest: Dict[str, str] = {}
        recorded: Dict[int, Tuple[Tuple[str, ...], Tuple[int, ...]]] = {}
        frozen: Dict[int, Tuple[Any, Any, Any]] = {}
        nextv = [0]
        shared: List[Any] = []

        def new_tx() -> Any:
            """A fresh Transaction, or -- opts reuse_tx -- the ONE Transaction object this history begins again and again."""
            if not opts.get("reuse_tx"):
                return t.new_transaction()
            if not shared:
                shared.append(t.new_transaction())
            return shared[0]

        def retained_middle(state: Dict[str, Any], cur: Any) -> List[int]:
            order = [x for x in state["log_order"] if x in state["snapshots"]]
            return [x for x in order[1:] if x != cur]

        def do_collect(step: int, every_file_old: bool) -> bool:
            """One real collection (frozen clock); False when it raised."""
            now = float(int(_time.time()))
            grace = rng.choice([0, 3_600_000])
            for rel in ("data", "metadata/manifests"):
                d = os.path.join(root, rel)
                for f in os.listdir(d):
                    young = (not every_file_old) and rng.random() < 0.3
                    ts = now + 100.0 if young else 1.0                 # old = older than any grace period
                    os.utime(os.path.join(d, f), (ts, ts))
            rec: Optional[Dict[str, Any]] = None
            if collect_log is not None and (ctx.tier == "quick" or (seed + 7 * step + stats["collects"]) % 3 == 0):
                # (thorough: a deterministic third of the collections is recorded for the model; the oracle judges all of them)
                md = gcsim.IndepReader(root).current_metadata()
                ids = {s["snapshot_id"]: i + 1 for i, s in enumerate(md["snapshots"])}
                rec = {"seed": seed, "step": step, "grace": grace, "now_ms": int(now * 1000), "tp": t.table_path,
                       "snaps": [s.get("manifest_list") or "" for s in md["snapshots"]],
                       "recs": [(ids[s["snapshot_id"]], ids.get(s.get("parent_snapshot_id")), s.get("operation") or "",
                                 s.get("manifest_list") or "") for s in md["snapshots"]],
                       "store": gcsim.store_term(root), "before": gcsim.list_tree(root), "views_before": snapshot_views(root, md)}
            real = gcsim.run_collect(t, grace, now)
            stats["collects"] += 1
            if rec is not None:
                rec["after"] = gcsim.list_tree(root)
                rec["views_after"] = snapshot_views(root, gcsim.IndepReader(root).current_metadata())
                rec["real"] = {k: real[k] for k in ("raised", "exc_type", "exc", "phase", "trace", "keep_sets", "unknown")}
                list_keys = {l.lstrip("/") for l in rec["snaps"] if l}
                rec["lists_opened"] = sorted({k for op_, k, _f in real["trace"] if op_ == "O" and k in list_keys})
                collect_log.append(rec)
            if real["raised"]:
                viol.append(f"step {step} (collect) raised {real['exc_type']}: {real['exc']}"[:300])
                return False
            st_ = real.get("stats") or {}
            stats["files_collected"] += sum(v for v in st_.values() if isinstance(v, int))
            return True

        def judge(step: int, op: str, cur_before: Any) -> bool:
            """The oracle after a step (or after the collection that follows it); False = stop the history."""
            try:
                state = P.read_table_independent(root)
            except Exception as e:      # noqa: BLE001
                try:
                    _rows, problems = gcsim.IndepReader(root).read_everything()     # WHICH retained snapshot lost WHAT
                except Exception:   # noqa: BLE001
                    problems = []
                viol.append(f"after step {step} ({op}) the table is unreadable: {e!r}; {problems[:2]}"[:420])
                return False
            if state["missing"]:
                viol.append(f"after step {step} ({op}) retained snapshots reference missing files: {state['missing'][:3]}")
                return False
            for sid in state["snapshots"]:
                content = snapshot_content(root, state, sid)
                stats["retained_snapshot_rereads"] += 1
                if sid not in recorded:
                    recorded[sid] = content
                elif recorded[sid] != content:
                    viol.append(f"after step {step} ({op}) retained snapshot {sid} changed: {recorded[sid]} -> {content}")
            # lookups: by id -- every retained snapshot is found, and it is the record that was committed (timestamp,
            # sequence number, manifest list as first seen); an id that is not retained is not found
            for sid in state["snapshots"]:
                got = t.snapshot_by_id(sid)
                rec = next(x for x in state["meta"]["snapshots"] if x["snapshot_id"] == sid)
                fields = (rec["timestamp_ms"], rec.get("sequence_number"), rec["manifest_list"])
                first = frozen.setdefault(sid, fields)
                if got is None or got.snapshot_id != sid or (got.timestamp_ms, got.sequence_number, got.manifest_list) != first or fields != first:
                    viol.append(f"after step {step} lookup by id {sid} returned "
                                f"{None if got is None else (got.snapshot_id, got.timestamp_ms, got.sequence_number, got.manifest_list)}, "
                                f"metadata holds {fields}, committed as {first}")
                stats["by_id_lookups"] += 1
            for sid in [x for x in frozen if x not in state["snapshots"]][-3:]:
                if t.snapshot_by_id(sid) is not None:
                    viol.append(f"after step {step} lookup by id {sid} returned a snapshot that is no longer retained")
                stats["by_id_lookups"] += 1
            tss = sorted({s["ts"] for s in state["snapshots"].values()})
            probes = set()
            for x in tss:
                probes.update([x - 1, x, x + 1])
            for tq in sorted(probes):
                got = t.time_travel(timestamp=tq)
                want = ref_by_timestamp(state, tq)
                want_any = ref_by_timestamp_any_clock(state, tq)
                gid = got.snapshot_id if got is not None else None
                lookups.append({"snaps": [(sid, state["snapshots"][sid]["ts"]) for sid in state["snapshot_order"]],
                                "log": [sid for sid in state["log_order"]], "t": tq, "impl": gid, "ref": want})
                shown = [(s_, state['snapshots'][s_]['ts']) for s_ in state['log_order'] if s_ in state['snapshots']]
                if gid != want_any:
                    # judged on EVERY history, whatever the clock did (C09_by_timestamp_characterised)
                    viol.append(f"after step {step} time_travel(timestamp={tq}) returned {gid}; among the retained snapshots not newer than "
                                f"it, the one with the greatest timestamp -- the most recently committed of those carrying it -- is "
                                f"{want_any} (snapshots in commit order {shown})")
                elif gid != want and not backwards:
                    # (with a clock that stepped back, "not newer than t" and "most recently committed" pull apart:
                    #  C09_by_timestamp_refuted; DESIGN.md C09 interpretation.  Without a regression they must agree.)
                    viol.append(f"after step {step} time_travel(timestamp={tq}) returned {gid}, the most recently committed retained "
                                f"snapshot not newer than it is {want} (snapshots {shown})")
                if want != want_any:
                    stats["timestamp_lookups_where_a_clock_regression_separates_the_two_readings"] += 1
            stats["equal_timestamp_pairs"] += sum(1 for a, b in zip(tss, tss[1:]) if a == b) + (len(state["snapshots"]) - len(tss))
            if op.startswith("delete_snapshot") and cur_before is not None and cur_before not in state["snapshots"]:
                survivors = [sid for sid in state["log_order"] if sid in state["snapshots"]]
                want = survivors[-1] if survivors else None
                if state["current"] not in (want, None if want is None else want):
                    viol.append(f"after deleting the current snapshot the table points to {state['current']}, most recently committed survivor is {want}")
            return True

        for step in range(len(script) if script is not None else length):
            forced = script[step] if script is not None else None
            # (on one reused Transaction object, failure SEQUENCES are the point: failed commits are three times as frequent)
            pick = _pick(rng, [(n, w * 3 if n == "failed_commit" else w) for n, w in WEIGHTS] if opts.get("reuse_tx") else WEIGHTS)
            if rng.random() < 0.6:
                clock.ms += rng.choice([0, 0, 1, 5, 1000])       # equal timestamps are frequent on purpose
            if backwards and rng.random() < 0.35:
                clock.ms -= rng.choice([1, 7, 2500, 600000])     # the wall clock steps BACK (NTP step, another writer's lagging host)
            state = P.read_table_independent(root)
            cur = state["current"]
            cur_files = state["snapshots"][cur]["files"] if cur in state["snapshots"] else []
            op = forced if forced is not None else pick
            if not state["snapshots"] and op not in ("append", "append_multi", "collect"):
                op = "append"
            if op == "delete_files" and not cur_files:
                op = "append"
            try:
                if op in ("append", "append_multi"):
                    nextv[0] += 1
                    if op == "append_multi" or (forced is None and rng.random() < 0.3):
                        # ONE transaction, several data files: they share a manifest, so a later partial delete rewrites it
                        op = "append_multi"
                        with new_tx() as tx:
                            for k in range(rng.choice([2, 3])):
                                tx.append_data(records=[{"x": nextv[0] * 10 + k}])
                            tx.commit()
                        stats["multi_file_appends"] = stats.get("multi_file_appends", 0) + 1
                    else:
                        if opts.get("reuse_tx"):
                            with new_tx() as tx:
                                tx.append_data(records=[{"x": nextv[0] * 10}, {"x": nextv[0] * 10 + 1}])
                                tx.commit()
                        else:
                            t.append_records([{"x": nextv[0] * 10}, {"x": nextv[0] * 10 + 1}])
                    stats["appends"] += 1
                elif op in ("tx_mixed", "tx_replace"):
                    # ONE transaction combining file deletions, appends and possibly an expiry: the snapshot it commits is
                    # recorded with a single operation label although it both drops / rewrites manifests of its parent and adds one
                    nextv[0] += 1
                    n_del = min(len(cur_files), rng.choice([0, 1, 1, 2]))
                    n_app = rng.choice([0, 1, 1, 2])
                    with_expire = op == "tx_mixed" and rng.random() < 0.3
                    if op == "tx_replace":
                        n_del, n_app = max(1, n_del) if cur_files else 0, max(1, n_app)
                    if n_del + n_app == 0 and not with_expire:
                        n_app = 1
                    victims = rng.sample(cur_files, n_del)
                    acts = [("del", v) for v in victims] + [("app", k) for k in range(n_app)] + ([("exp", 0)] if with_expire else [])
                    rng.shuffle(acts)
                    tss = sorted(s["ts"] for s in state["snapshots"].values())
                    with new_tx() as tx:
                        for kind, arg in acts:
                            if kind == "del":
                                tx.delete_files([arg if rng.random() < 0.5 else "/" + arg])
                            elif kind == "app":
                                tx.append_data(records=[{"x": nextv[0] * 10 + arg}])
                            else:
                                tx.expire_snapshots(rng.choice(tss + [tss[-1] + 1, tss[0] - 1]) if tss else 0)
                        tx.commit()
                    stats["mixed_transactions"] += 1
                    stats["delete_and_append_transactions"] += 1 if (n_del and n_app) else 0
                elif op == "delete_files":
                    victim = rng.choice(cur_files)
                    with new_tx() as tx:
                        tx.delete_files([victim if rng.random() < 0.5 else "/" + victim])
                        tx.commit()
                    stats["deletes"] += 1
                elif op in ("expire", "expire_old"):
                    tss = sorted(s["ts"] for s in state["snapshots"].values())
                    cutoff = rng.choice(tss + [tss[-1] + 1, tss[0] - 1]) if tss else 0
                    if op == "expire_old" and tss:
                        cutoff = tss[-1] + 1
                    with new_tx() as tx:
                        tx.expire_snapshots(cutoff)
                        tx.commit()
                    stats["expires"] += 1
                elif op.startswith("delete_snapshot"):
                    order = [x for x in state["log_order"] if x in state["snapshots"]]
                    middle = retained_middle(state, cur)
                    sid = rng.choice(list(state["snapshots"]))
                    if op == "delete_snapshot":
                        # which one: any / an intermediate one (its successors are repointed past it) / the current one
                        w = rng.random()
                        if w < 0.4 and middle:
                            sid = rng.choice(middle)
                        elif w < 0.65 and cur in state["snapshots"]:
                            sid = cur
                    elif op == "delete_snapshot_cur" and cur is not None:
                        sid = cur
                    elif op == "delete_snapshot_old":
                        olds = [x for x in order if x != cur]
                        sid = olds[0] if olds else sid
                    elif op == "delete_snapshot_mid" and middle:
                        sid = rng.choice(middle)
                    elif op == "delete_snapshot_parent" and cur in state["snapshots"] and state["snapshots"][cur]["parent"] in state["snapshots"]:
                        sid = state["snapshots"][cur]["parent"]
                    if sid in middle:
                        stats["intermediate_snapshot_deletions"] += 1
                    t.snapshot_manager.delete_snapshot(sid)
                    stats["delete_snapshots"] += 1
                elif op == "collect":
                    if not do_collect(step, rng.random() < 0.8):
                        break
                else:
                    op = "failed_commit"
                    real_write = t.storage.write_file

                    # HOW it fails: cleanly before the pointer write / the write lands but reports an error on a backend whose
                    # failed writes are not guaranteed invisible (ambiguous commit) / an interrupt right after the pointer flip.
                    # In the last two the commit IS durable: what it committed is a retained snapshot from then on.
                    mode = rng.choice(["clean", "clean", "ambiguous", "interrupt"])
                    from datashard.metadata_manager import AmbiguousCommitError

                    def failing(path: str, content: bytes) -> None:
                        if path.endswith(P.HINT):
                            if mode == "clean":
                                raise OSError("injected pointer-write failure")
                            real_write(path, content)
                            if mode == "interrupt":
                                raise KeyboardInterrupt("injected right after the pointer flip")
                            raise OSError("injected: the pointer write landed but reported an error")
                        return real_write(path, content)
                    backend_cls = type(t.storage)
                    had_own = "atomic_write_failures" in backend_cls.__dict__
                    saved_prop = backend_cls.__dict__.get("atomic_write_failures")
                    if mode == "ambiguous":
                        backend_cls.atomic_write_failures = property(lambda self: False)
                    # WHICH operation's commit fails: an append, a file delete, a mixed transaction, an expiry or a snapshot
                    # deletion -- the failed operation must leave every retained snapshot (the one it tried to remove included) as it was
                    which = rng.choice(["append", "delete_files", "tx_mixed", "expire", "delete_snapshot", "delete_snapshot_cur"])
                    snaps_now = list(state["snapshots"])
                    t.storage.write_file = failing
                    try:
                        if which == "append" or not snaps_now:
                            with new_tx() as tx:
                                tx.append_data(records=[{"x": -7}])
                                tx.commit()
                        elif which == "delete_files" and cur_files:
                            with new_tx() as tx:
                                tx.delete_files([cur_files[0]])
                                tx.commit()
                        elif which == "tx_mixed" and cur_files:
                            with new_tx() as tx:
                                tx.delete_files([rng.choice(cur_files)])
                                tx.append_data(records=[{"x": -9}])
                                tx.commit()
                        elif which == "expire":
                            with new_tx() as tx:
                                tx.expire_snapshots(max(sn["ts"] for sn in state["snapshots"].values()) + 1)
                                tx.commit()
                        elif which == "delete_snapshot_cur" and cur in state["snapshots"]:
                            t.snapshot_manager.delete_snapshot(cur)
                        else:
                            t.snapshot_manager.delete_snapshot(snaps_now[0])
                        viol.append(f"{which} with a failing pointer write reported success")
                    except (OSError, AmbiguousCommitError, KeyboardInterrupt):
                        pass
                    finally:
                        t.storage.write_file = real_write
                        if mode == "ambiguous":
                            if had_own:
                                backend_cls.atomic_write_failures = saved_prop
                            else:
                                del backend_cls.atomic_write_failures
                    op = f"failed_commit:{which}" + ("" if mode == "clean" else "_" + mode)
                    stats["failed_commits"] += 1
                    stats["failed_commits_whose_pointer_write_landed"] += 0 if mode == "clean" else 1
            except Exception as e:      # noqa: BLE001
                viol.append(f"step {step} ({op}) raised {type(e).__name__}: {e}"[:300])
                break
            stats["steps"] += 1
            # IN-PLACE MUTATION: a data file, manifest, manifest list or metadata version file that exists keeps its bytes for as
            # long as it exists -- whatever snapshot still names it is then unchanged by this step (checked on every step, the
            # sparse ones of the long histories included; the pointer file is the one object that is rewritten by design)
            changed = immutable_files_changed(root, file_digest)
            if changed:
                viol.append(f"step {step} ({op}) rewrote existing files in place: {changed[:3]}")
                break
            stats["immutable_file_checks"] = stats.get("immutable_file_checks", 0) + len(file_digest)
            sparse = opts.get("judge_sparse")
            if sparse and not (step % sparse == 0 or step >= (len(script) if script is not None else length) - 6):
                continue          # long histories: the full re-read of every retained snapshot every `sparse` steps and at the end
            if not judge(step, op, cur):
                break
            if opts.get("gc_every") and op != "collect":
                # a collection follows the step; every retained snapshot is re-read again after it
                stats["collections_after_a_step"] += 1
                if not do_collect(step, True) or not judge(step, f"collect after {op}", None):
                    break
    finally:
        mm.datetime, sm.datetime, fm.datetime = saved
    return viol, lookups, stats


def model_by_timestamp(lookups: List[Dict[str, Any]]) -> List[Dict[str, Any]]:
    """Evaluate Meta.v's lookup on the same snapshot lists (ids canonicalised)."""
    req = ["DS.Model.C09Lookup"]
    if not lookups:
        return []
    exprs = []
    for lk in lookups:
        ids = {sid: i + 1 for i, (sid, _ts) in enumerate(lk["snaps"])}
        snaps = "[" + "; ".join(f"({ids[sid]}, {ts})" for sid, ts in lk["snaps"]) + "]"
        exprs.append(f"c09_by_timestamp_ids {snaps} ({lk['t']})")
        lk["ids"] = ids
    try:
        vals = coqbuild.coq_eval(req, exprs, chunk=200)
    except RuntimeError as e:
        return [{"model_evaluation_failed": str(e)[:400]}]
    bad = []
    for lk, v in zip(lookups, vals):
        want = None if lk["impl"] is None else lk["ids"].get(lk["impl"])
        got = v.x if hasattr(v, "x") else v
        if got != want:
            bad.append({"snaps": [(lk["ids"][s], ts) for s, ts in lk["snaps"]], "t": lk["t"], "impl": want, "model": got})
    return bad


def violation_key(v: str) -> str:
    """What was violated and after which kind of step (the replay file is named after it)."""
    import re
    m = re.match(r"(?:after )?step \d+ \(([a-z_ :]+)\)", v)
    after = m.group(1).replace("collect after ", "collect-after-").replace(":", "-").replace(" ", "-") if m else ""
    if "is unreadable" in v or "reference missing files" in v:
        what = "retained-snapshot-unreadable"
    elif " changed: " in v:
        what = "retained-snapshot-changed"
    elif "time_travel(" in v:
        what = "by-timestamp"
    elif "lookup by id" in v:
        what = "by-id"
    elif "after deleting the current snapshot" in v:
        what = "repoint-current"
    elif "reported success" in v:
        what = "failed-commit-reported-success"
    elif " raised " in v:
        what = "operation-raised"
    else:
        what = "other"
    return (what + (":" + after if after else ""))[:60]


def immutable_files_changed(root: str, seen: Dict[str, str]) -> List[str]:
    """Digest every file under data/, metadata/manifests/ and every metadata version file; returns the paths whose bytes differ
    from what `seen` recorded for them (and records the rest).  Files that disappeared are simply forgotten."""
    import hashlib
    now: Dict[str, str] = {}
    for rel_dir in ("data", "metadata/manifests", "metadata"):
        d = os.path.join(root, rel_dir)
        if not os.path.isdir(d):
            continue
        for base, dirs, files in os.walk(d):
            if rel_dir == "metadata":
                dirs[:] = []                      # (only the version files directly in metadata/)
            for n in files:
                if rel_dir == "metadata" and not n.endswith(".metadata.json"):
                    continue
                pth = os.path.join(base, n)
                try:
                    with open(pth, "rb") as f:
                        now[os.path.relpath(pth, root)] = hashlib.sha1(f.read()).hexdigest()
                except OSError:
                    pass
    changed = sorted(k for k, v in now.items() if k in seen and seen[k] != v)
    seen.clear()
    seen.update(now)
    return changed


def harvest_history_constants(lo: int = 16, hi: int = 128) -> List[int]:
    """Integer literals lo..hi of the modules that write snapshots, manifests and metadata versions (ast walk; nothing hard-coded)."""
    import ast
    import datashard
    out = set()
    base = os.path.dirname(datashard.__file__)
    for m in ("transaction.py", "snapshot_manager.py", "metadata_manager.py", "file_manager.py"):
        with open(os.path.join(base, m), encoding="utf-8") as f:
            for n in ast.walk(ast.parse(f.read())):
                if isinstance(n, ast.Constant) and type(n.value) is int and lo <= n.value <= hi:
                    out.add(n.value)
    return sorted(out) or [lo]


def make_jobs(ctx) -> List[Dict[str, Any]]:
    quick = ctx.tier == "quick"
    nh, length = (24, 14) if quick else (140, 40)
    jobs: List[Dict[str, Any]] = []
    for di, script in enumerate(DIRECTED):
        for rep in range(1 if quick else 6):
            jobs.append({"seed": 1000 * di + rep, "script": script,
                         "opts": {"gc_every": rep % 2 == 1, "reuse_tx": script.count("failed_commit") >= 3}})
    for i in range(nh):
        # half of the random histories are followed by a collection after EVERY step; a quarter prune by retention count
        jobs.append({"seed": ctx.rng.randrange(1 << 30), "script": None,
                     "opts": {"gc_every": i % 2 == 0, "retention": [0, 0, 0, 2, 0, 0, 0, 3][i % 8], "reuse_tx": i % 3 == 1}})
    # repointing after deleting the current snapshot, on a clock that steps back: directed
    for rep in range(2 if quick else 10):
        jobs.append({"seed": 7000 + rep, "script": ["append", "append", "append_multi", "delete_snapshot_cur", "append", "delete_snapshot_cur", "collect"], "opts": {}})
        jobs.append({"seed": 7100 + rep, "script": ["append", "append", "delete_files", "delete_snapshot_cur", "delete_snapshot_cur"], "opts": {}})
    # LONG histories: one more commit than every small integer constant of the writer modules (harvested from the source:
    # caps, thresholds, batch sizes a feature may key on), so that whatever happens "once there are N versions / manifests /
    # snapshots" happens; followed by a partial delete, an append, a collection and an append
    consts = harvest_history_constants()
    for c in (consts[-1:] if quick else consts[-3:]):
        jobs.append({"seed": 9000 + c, "script": ["append"] * (c + 1) + ["delete_files", "append", "collect", "append", "delete_snapshot_cur"],
                     "opts": {"judge_sparse": 25}, "long": c})
    for ji, j in enumerate(jobs):
        j["length"] = length
        # a third of the histories run on a clock that also steps back
        j["backwards"] = ji % 3 == 2 or 7000 <= j["seed"] < 7200
    return jobs


def run(ctx) -> None:
    ctx.rule = ("random sequential histories over {append, multi-file append, ONE transaction mixing delete_files / append_data / "
                "expire_snapshots, delete_files (either path spelling), expire_snapshots, retention-count pruning, delete_snapshot of "
                "the oldest / an intermediate / the parent of the current / the current snapshot, garbage_collect(0|1h) with files on "
                "either side of the cutoff, failed commit of each of these (clean / pointer write landed but reported failed / interrupt after "
                "the flip)}, half of them with a collection after EVERY step, a third on one reused Transaction object, with a "
                "scripted clock (equal timestamps frequent); every retained snapshot re-read after every step and after every "
                "collection; plus LONG histories (one more commit than every small integer constant of the writer modules, harvested "
                "from the source) re-read every 25 steps and at the end; after EVERY step of every history the bytes of every "
                "existing data file, manifest, manifest list and metadata version file are compared with what they were (no in-place "
                "rewrite: the half of the property the model cannot express, its commits being fresh-key by construction); "
                "distinct = (seed, step)")
    ctx.trusted_base += ["harness/props/c09.py + harness/lib/protocol.py independent reader (json, fastavro, pyarrow)",
                         "translator/gen_gcroots.py (Python ast -> Gallina for the loop of collect() that selects the manifest lists to open)",
                         "harness/lib/gcsim.py (directory -> Model/GC.v store; traced storage; frozen clock) as in C05"]
    ctx.assumptions += ["for the wording 'most recently committed ... not newer than t' only: snapshot timestamps non-decreasing in commit "
                        "order (C09_by_timestamp_partial; refuted without it; DESIGN.md C09 interpretation)",
                        "file names are fresh (uuid4 collisions excluded): valid_commit of Model/GCHist.v"]
    # GenFileOps.v: the history theorems are over Meta.step_full, which IS the composition of the regenerated commit kernels
    # (Proofs/StepGenProofs.v, C15_step_regenerated): a commit path that does something else breaks the tie of these theorems too
    ctx.proofs(THEOREMS, gen_files=["GenMeta.v", "GenNorm.v", "GenGCRoots.v", "GenFileOps.v"])
    ctx.allow_axioms([])
    import logging
    logging.disable(logging.CRITICAL)
    all_lookups: List[Dict[str, Any]] = []
    collect_log: List[Dict[str, Any]] = []
    agg: Dict[str, int] = {}
    jobs = make_jobs(ctx)
    for j in jobs:
        # (the collections of the LONG histories are judged by the oracle only: their stores are too large to evaluate in Coq)
        viol, lookups, stats = run_history(ctx, j["seed"], j["length"], j["script"], j["backwards"], j["opts"], None if j.get("long") else collect_log)
        ctx.count(stats["steps"], ("hist", j["seed"]))
        for k, v in stats.items():
            agg[k] = agg.get(k, 0) + v
        for v in viol[:3]:
            ctx.violation("history:" + violation_key(v), v,
                          {"seed": j["seed"], "length": j["length"], "script": j["script"], "backwards": j["backwards"], "opts": j["opts"]})
        all_lookups.extend(lookups)
    ctx.stats["histories"] = len(jobs)
    ctx.stats["long_histories_commits"] = [len(j["script"]) for j in jobs if j.get("long")]
    ctx.stats["history_constants_harvested"] = harvest_history_constants()
    ctx.stats["directed_histories"] = sum(1 for j in jobs if j["script"] is not None)
    ctx.stats["histories_with_clock_stepping_back"] = sum(1 for j in jobs if j["backwards"])
    ctx.stats["histories_with_a_collection_after_every_step"] = sum(1 for j in jobs if j["opts"].get("gc_every"))
    ctx.stats["histories_with_retention_count"] = sum(1 for j in jobs if j["opts"].get("retention"))
    ctx.stats["histories_on_one_reused_transaction_object"] = sum(1 for j in jobs if j["opts"].get("reuse_tx"))
    ctx.stats.update(agg)
    ctx.stats["timestamp_lookups"] = len(all_lookups)
    if all_lookups:
        ctx.sample({"lookup": {k: v for k, v in all_lookups[len(all_lookups) // 2].items() if k != "ids"}})
    sample = all_lookups if len(all_lookups) <= 1500 else ctx.rng.sample(all_lookups, 1500)
    bad = model_by_timestamp(sample)
    ctx.correspondence("by-timestamp", len(sample), bad)
    model_collections(ctx, collect_log)


def replay(ctx, payload) -> int:
    c = payload.get("case", {})
    if "seed" not in c:
        print("replay: no concrete case")
        return 2
    import logging
    logging.disable(logging.CRITICAL)
    viol, _l, _s = run_history(ctx, c["seed"], c["length"], c.get("script"), bool(c.get("backwards")), c.get("opts") or {})
    print("replay:", "STILL FAILS: " + viol[0] if viol else "passes now")
    return 1 if viol else 0


def _unsome(v: Any) -> Any:
    return v.x if hasattr(v, "x") else v


def model_collections(ctx, collect_log: List[Dict[str, Any]]) -> None:
    """Every recorded collection of the histories through the Coq model: the collector (Model/GC.v gc_run: outcome, deleted
    set, keep sets, storage calls), the invariant of the history theorems (hinvb), the content of every retained snapshot
    before and after the collection (Model/GCView.v snap_files, the model's own final store against the real directory),
    and the regenerated roots (Gen/GenGCRoots.v) against the manifest lists the real collector opened."""
    from harness.lib import gcsim
    from harness.lib.coqio import to_coq
    recs = collect_log
    cap = 160 if ctx.tier == "quick" else 1000
    if len(recs) > cap:
        keep = sorted(ctx.rng.sample(range(len(recs)), cap))
        recs = [recs[i] for i in keep]
    ctx.stats["collections_recorded"] = len(collect_log)
    ctx.stats["collections_compared_with_model"] = len(recs)
    ctx.stats["collections_on_lineages_with_mixed_or_repointed_parents"] = sum(
        1 for c in collect_log if any(op == "append" and p is not None for _i, p, op, _l in c["recs"]))
    if not recs:
        return
    exprs = []
    for c in recs:
        snaps, tp = to_coq(list(c["snaps"])), to_coq(c["tp"])
        rr = "[" + "; ".join(f"mkSnap ({i})%Z {'None' if p is None else f'(Some ({p})%Z)'} {to_coq(op)} {to_coq(ml)}" for i, p, op, ml in c["recs"]) + "]"
        exprs.append(f"let st := {c['store']} in let r := gc_run {tp} ({c['grace']})%Z ({c['now_ms']})%Z ({TIMEOUT_MS})%Z no_faults {snaps} st in "
                     f"(render r, hinvb {snaps} st, map (snap_files st) {snaps}, map (snap_files (g_store (r_final r))) {snaps}, gc_list_roots {tp} {rr})")
    try:
        vals = coqbuild.coq_eval(gcsim.REQ + ["DS.Model.GCHist", "DS.Model.GCView", "DS.Model.SnapRec", "DS.Gen.GenGCRoots"], exprs,
                                 chunk=gcsim.chunk_for(len(exprs)), timeout=1200)
    except RuntimeError as e:
        ctx.proof_problems.append("model evaluation failed (collections of the C09 histories): " + str(e)[:600])
        return

    def views(v: Any) -> List[Any]:
        return [None if x is None else [(m, list(ds)) for m, ds in _unsome(x)] for x in v]

    bad_gc, bad_inv, bad_view, bad_roots = [], [], [], []
    for c, v in zip(recs, vals):
        where = {"seed": c["seed"], "step": c["step"], "grace": c["grace"]}
        diffs = gcsim.compare(c["real"], c["before"], c["after"], gcsim.parse_render(v[:6]))
        if diffs:
            bad_gc.append(dict(where, diffs=diffs[:4]))
        if v[6] is not True:
            bad_inv.append(dict(where, note="the directory written by the real writers does not satisfy hinvb"))
        mb, ma = views(v[7]), views(v[8])
        rb = [None if x is None else [(m, list(ds)) for m, ds in x] for x in c["views_before"]]
        ra = [None if x is None else [(m, list(ds)) for m, ds in x] for x in c["views_after"]]
        if mb != rb or (not c["real"]["raised"] and ma != ra):
            bad_view.append(dict(where, before_code=rb, before_model=mb, after_code=ra, after_model=ma))
        if not c["real"]["raised"] and (sorted(v[9]) != c["lists_opened"] or len(set(v[9])) != len(v[9])):
            bad_roots.append(dict(where, opened_by_code=c["lists_opened"], roots_generated=sorted(v[9])))
    ctx.correspondence("gc_run (collections of the C09 histories)", len(recs), bad_gc)
    ctx.correspondence("hinv (before every collection)", len(recs), bad_inv)
    ctx.correspondence("snapshot-content (before / after every collection)", len(recs), bad_view)
    ctx.correspondence("collector-roots (lists opened vs Gen/GenGCRoots.v)", len(recs), bad_roots)
