"""C19 -- Locks exclude, time out, and never report a lock that is not held.

Proof      : coq/Props/C19.v over coq/Model/FLock.v (FileLock in flock mode over an inode / open-file-
             description kernel model; the kernel's flock exclusivity is a hypothesis `flock_excl`) and
             coq/Model/Lock.v (S3 conditional-write lock with leases, faults, a virtual clock and an
             ENVIRONMENT that may change at any moment: the process's local time zone and the rendering of
             LastModified in head replies -- aware at any utcoffset, or naive; Model/PyTime.v is the datetime /
             time arithmetic involved).  Unbounded: any number of clients, any interleaving at primitive
             granularity, any zone / rendering history.  C19_s3_environment_irrelevant: erasing the
             environment events of ANY run changes nothing observable (simulation proof).
             Local lock ACROSS PROCESSES: coq/Model/ProcLock.v + ProcFork.v (FileLock handles placed in OS processes by an
             arbitrary topology, open file descriptions, process deaths, and fork() as the kernel performs it: `PFork p p' tw`
             copies EVERY handle object and EVERY open descriptor of the forking process -- the event is not enabled when a
             descriptor of the process is left out; the handle program and the ownership discipline are regenerated from
             FileLock by translator/gen_filelock.py -> Gen/GenFileLock.v).
             Proofs/ProcForkProofs.v, all `_quiescent_partial` = under the hypothesis pforks_quiescent (at a fork NO handle of
             the forking process is inside an acquisition): for every topology and every such event list at most one holder,
             the holder is the kernel's owner, and the flag is_held() returns is set exactly for the owner and for a handle
             inside its own release() after the unlock, where the kernel lock is already gone
             (C19_proc_mutex_quiescent_partial); a holder's death frees the lock and any idle handle of another process is then
             granted (C19_proc_death_frees_quiescent_partial); success only from a free lock
             (C19_proc_granted_only_when_free_quiescent_partial); a blocked acquirer is never granted while the holder neither
             unlocks nor dies, whatever else happens (C19_proc_blocked_never_succeeds_quiescent_partial; safety only, the
             timeout is C19_flock_timeout of the single-process model); a process whose handles are idle has no descriptor so
             its fork inherits nothing (C19_proc_idle_process_has_no_descriptor_quiescent_partial).  The statements WITHOUT the
             hypothesis are Definitions and refuted: C19_proc_mutex_full_refuted (fork while holding: parent and child hold),
             C19_proc_death_frees_full_refuted (process with an idle and a holding handle forks: the child keeps the owning
             description open, the holder's death does not free the lock, an outsider is refused until the child is gone),
             C19_proc_flag_is_owner_full_refuted (two flags set: one handle inside release(), another granted).
             C19_proc_kept_descriptor_refuted: the witnesses for a handle that keeps its descriptor across acquisitions (two
             holders after a fork; a dead holder's lock survives).
Tie        : translator/gen_lockage.py regenerates the lease-age kernel of _try_takeover_expired (the
             expression compared with the lease and the guard) into Gen/GenLockAge.v, which Lock.v's age
             step is stated over; translator/gen_lockconst.py (constants + golden pins of the modelled
             functions); and correspondence: the SAME schedules run through the real FileLock /
             S3LockProvider under a deterministic cooperative scheduler (real threads parked at every
             patched primitive; real flock on a real file; in-memory S3 with conditional writes; virtual
             clock) and through the Coq model (vm_compute); per-event observations and final state must be
             equal.  The S3 runs happen on ONE realistic time line: time.time() is epoch seconds,
             datetime.now / utcnow are the same instant, mktime / localtime are the real ones, and "env"
             events set os.environ["TZ"] + time.tzset() (east / west of UTC, half-hour zones, one-second
             zones) and the datetime object replies carry (tzutc as boto3, datetime.timezone, foreign
             offsets, naive) -- so an age computed by any route is judged against the same instants.
Oracles    : implementation-only, on every state of every schedule: critical sections never overlap,
(search)     is_held() true only while the kernel really holds the lock (outside flock probe), a dead
             holder frees the lock, TimeoutError neither early nor late; S3: at most one live holder,
             takeover only after the lease lapsed, superseded holder's is_held() false / renew refused, is_held()
             True only while the store's object is the caller's (also while the heartbeat loop ticks with failing renewals) --
             in every environment above (the oracles read the fake store's own log of instants, never the
             library's clocks).  Real heartbeat thread against the wall clock in a seed-drawn non-UTC zone.
             thorough: 8 processes x 2000 cycles on an unprotected counter, kill -9 of holders, real
             timeout measurement.
Processes  : harness/lib/lockprocs.py: schedules over REAL OS processes -- spawn (separate process), new (a handle built by
(search)     LocalStorageBackend.create_lock), acq, rel, fork (the child inherits handle objects and descriptors), kill -9,
             _exit -- one whole library call per event.  Topologies (proc_topologies): separate processes, two handles in one
             process, a worker forked before the parent's handle was ever used / after completed cycles / after a refused
             attempt / while held, pre-forked pools, grandchildren, own handles; for each, every ordered pair (X, Y) of
             contending handles: X holds, Y must time out, X releases / is killed / exits, Y must succeed, a third must time
             out, ...; plus random event lists over the whole alphabet.  Oracles on every state (implementation only):
             acquire() True only when no other acquisition is live, at most one acquisition reports is_held(), is_held()
             only with a live acquisition and only while an outsider's flock is refused by the real kernel, the kernel lock
             free once every holder released or died, TimeoutError only while a holder is live and within
             timeout .. timeout + poll + allowance.  A fork WHILE HELD duplicates the holder (fork(2)): the copies count as
             one acquisition, over when one of them releases or all are dead; stale copied flags are not judged.
             Correspondence proc-lock-layer: every primitive on the lock file (real kernel's answers), every fork and
             death of every run must be accepted by ProcFork.prun_strict (one PFork per fork() naming the copies of ALL the
             parent's handles) and end in the same holder / descriptor counts -- including a process with an idle and a
             holding handle that forks and dies (topology fork-while-other-handle-held: the real kernel keeps the lock for
             the child, as C19_proc_death_frees_full_refuted says).
Not judged : a NAIVE LastModified (no zone in the reply's date; boto3 never yields one for S3) makes
             acquire() raise TypeError from the aware-minus-naive subtraction: modelled (SRaised), compared,
             counted (s3_outcomes.raised) -- it fails closed, never a success, and the property text does
             not speak about malformed replies.
Finding    : release() = GET then UNCONDITIONAL DELETE can delete a successor's live lock
             (key s3-release-get-then-unconditional-delete-after-takeover); C19_s3_mutex_refuted is the
             model's witness, C19_s3_mutex_partial the theorem under `late_delete = false`.
"""
from __future__ import annotations

import json
import os
import time
from typing import Any, Callable, Dict, List, Optional, Tuple

from harness.lib import coqbuild
from harness.lib.coqio import C, Some

LEVEL = "proof"
THEOREMS = [
    "C19_flock_mutex", "C19_flock_same_inode", "C19_flock_unlink_breaks_mutex", "C19_flock_death", "C19_flock_timeout", "C19_flock_ok_only_when_free",
    "C19_s3_takeover_after_lease", "C19_s3_age_any_zone_any_rendering", "C19_s3_age_test_in_any_environment",
    "C19_s3_environment_irrelevant", "C19_s3_same_in_every_environment",
    "C19_s3_local_field_age_is_zone_shifted", "C19_s3_local_field_age_premature", "C19_s3_superseded", "C19_s3_is_held_sound", "C19_s3_timeout",
    "C19_s3_ok_only_when_unowned", "C19_s3_mutex_partial", "C19_s3_mutex_refuted",
    "C19_s3_mutex_gap_hypothesis_insufficient", "C19_s3_mutex_conditional_delete",
    "C19_proc_mutex_quiescent_partial", "C19_proc_mutex_full_refuted", "C19_proc_flag_is_owner_full_refuted",
    "C19_proc_death_frees_quiescent_partial", "C19_proc_death_frees_full_refuted",
    "C19_proc_granted_only_when_free_quiescent_partial", "C19_proc_blocked_never_succeeds_quiescent_partial",
    "C19_proc_idle_process_has_no_descriptor_quiescent_partial", "C19_proc_kept_descriptor_refuted",
]
REQ = ["DS.Model.FLock", "DS.Model.Lock", "DS.Gen.GenLockConst"]
KNOWN_KEY = "s3-release-get-then-unconditional-delete-after-takeover"

MANIFEST_ENTRY = {
    "level_text": "Coq theorems over executable models of FileLock (flock mode) and of the S3 conditional-write lock, for "
                  "every interleaving of any number of clients at primitive granularity: local mutual exclusion, single "
                  "inode, release on death, timeout bounds; the local lock across PROCESSES under every process topology "
                  "(Model/ProcLock.v + ProcFork.v: handles in OS processes, open file descriptions, deaths, fork() copying the "
                  "WHOLE descriptor table of the forking process; program and discipline regenerated from FileLock) and every "
                  "schedule whose forks happen while no handle of the forking process is inside an acquisition: one holder, "
                  "death frees, success only from a free lock, a blocked acquirer never granted while the holder lives "
                  "(C19_proc_*_quiescent_partial; the unrestricted statements are refuted: C19_proc_*_full_refuted), tied to the "
                  "code by schedules over real processes (separate, forked before use / after cycles / after a refusal / while "
                  "held / while ANOTHER handle of the process holds, pools, grandchildren) "
                  "whose lock-file primitives must be accepted by the model; S3 takeover only after lease, superseded holders observe the "
                  "loss, is_held soundness, timeout bound -- for every history of the process time zone and of the "
                  "rendering of LastModified (environment events in the model; C19_s3_environment_irrelevant: erasing them "
                  "changes nothing observable), the lease-age kernel being regenerated from _try_takeover_expired over a "
                  "datetime model (Gen/GenLockAge.v, Model/PyTime.v); models tied to the code by schedule-for-schedule "
                  "differential execution of the real classes under a deterministic cooperative scheduler, the S3 runs "
                  "in processes east / west of UTC (TZ + tzset) with aware (tzutc, foreign offsets) and naive LastModified",
    "level_note": "C19_proc_*_quiescent_partial assume pforks_quiescent: at a fork NO handle of the forking process is inside an "
                  "acquisition (attempt in progress, holding, inside release()). The property text says 'under any schedule' and a "
                  "fork from inside a commit is one: the full statements are Definitions refuted by C19_proc_mutex_full_refuted "
                  "(fork while holding = fork(2) duplicating the holder) and C19_proc_death_frees_full_refuted (fork while another "
                  "handle of the process holds: the child's inherited descriptor keeps the lock after the holder's death); both "
                  "shapes are exercised by the process schedules over real processes with the copies judged as ONE acquisition, "
                  "and are fork(2) semantics, not a repairable defect of FileLock. `lholds` = flag set and not inside release(): "
                  "is_held() returns the flag `_locked`, which release() clears only after unlock + close, so inside release() "
                  "the flag is True with the kernel lock gone (stated in C19_proc_mutex_quiescent_partial, conjuncts 3-4; "
                  "C19_proc_flag_is_owner_full_refuted: two flags at once) -- 'never reports a lock that is not held' is proved "
                  "outside release() only. C19_proc_blocked_never_succeeds_quiescent_partial is safety only (the process machine "
                  "has no clock); the timeout bound is C19_flock_timeout of the single-process model, not linked formally. C19_s3_mutex is proved only as C19_s3_mutex_partial (hypothesis: no release's DELETE lands after the "
                  "releaser's own lease lapsed; C19_s3_mutex_gap_hypothesis_insufficient shows the weaker GET-to-DELETE-gap "
                  "hypothesis does not suffice); the full statement is refuted by C19_s3_mutex_refuted = known finding "
                  + KNOWN_KEY + " and holds for the variant with a conditional DELETE (C19_s3_mutex_conditional_delete). "
                  "Kernel flock exclusivity is the hypothesis flock_excl (exercised by real flock in every "
                  "run and by the multi-process stress in thorough). Zero client/server clock skew assumed. Zones are fixed "
                  "offsets (a DST switch = a zone change event); a naive LastModified makes acquire() raise TypeError "
                  "(modelled, fails closed, not judged). O_EXCL fallback and S3PollingLockProvider out of scope. "
                  "NOT MODELLED (audit): (1) the model's clock is skew-free at MILLISECOND resolution while S3's LastModified has "
                  "1 s resolution -- a written instant is truncated to the second, so the age a contender computes can exceed the "
                  "true age by < 1 s and a real takeover can precede the true lease lapse by < 1 s (C19_s3_takeover_after_lease is "
                  "about the model's exact LastModified); (2) FileLock's O_EXCL fallback (no fcntl / msvcrt: the lock file's "
                  "existence is the lock, stale-file breaking, unlink on release) -- Model/FLock.v and every C19_flock_* theorem "
                  "cover flock mode only; (3) FileLock.release() wraps unlock + os.close in `except Exception: pass`: when "
                  "os.close (or the unlock) raises, _lock_fd / _locked are not reset and the instance keeps reporting "
                  "_locked = True although the flock may be gone -- the model's release always succeeds, no close failure is "
                  "injected; (4) both timeout theorems (C19_flock_timeout, C19_s3_timeout) are conditional on a Timeout RESULT: the "
                  "S3 side has no bound on the number of rounds and the jitter is unconstrained. The heartbeat thread is driven "
                  "as renew events, each ONE iteration of the real _heartbeat_loop (is_locked guard, _renew_once, exception "
                  "swallowing are the library's code), including ticks whose renewal fails transiently while the loop keeps ticking "
                  "past the lease, with is_held() queried at every point of such histories.",
    "technique": "Coq invariant / simulation proofs over interleaving models + kernel regenerated by translator + "
                 "deterministic-scheduler differential correspondence across process time zones + real process families (fork / kill) "
                 "with trace validation against the process-topology lock model",
    "design_ref": "DESIGN.md section 5 C19",
}

FAULT_COQ = {"none": "FNone", "transient": "FTransient", "permanent": "FPermanent", "lost": "FLost"}


# ---------------------------------------------------------------------------------- rendering to Coq
def z(n: int) -> str:
    return f"({int(n)})%Z"


def n_(n: int) -> str:
    return f"({int(n)})%N"


def flock_event_coq(ev: List[Any]) -> str:
    k = ev[0]
    if k == "acq":
        return f"ECallAcquire {n_(ev[1])} {'true' if ev[2] else 'false'} {z(ev[3])}"
    if k == "rel":
        return f"ECallRelease {n_(ev[1])}"
    if k == "step":
        return f"EStep {n_(ev[1])}"
    if k == "openerr":
        return f"EOpenErr {n_(ev[1])}"
    if k == "tick":
        return f"ETick {z(ev[1])}"
    if k == "die":
        return "EDie [" + "; ".join(n_(c) for c in ev[1]) + "]"
    raise ValueError(ev)


def s3_event_coq(ev: List[Any]) -> str:
    k = ev[0]
    if k == "call":
        what = {"acquire": f"(CAcquire {z(ev[3]) if len(ev) > 3 else z(0)})", "is_held": "CIsHeld", "release": "CRelease"}[ev[2]]
        return f"SCall {n_(ev[1])} {what}"
    if k == "step":
        return f"SStep {n_(ev[1])} {FAULT_COQ[ev[2]]} {z(ev[3])}"
    if k == "renew":
        return f"SRenew {n_(ev[1])} {FAULT_COQ[ev[2]]}"
    if k == "tick":
        return f"STick {z(ev[1])}"
    if k == "die":
        return f"SDie {n_(ev[1])}"
    if k == "env":      # seconds -> ms; the tzinfo flavour (ev[3]) is invisible to the model
        r = "None" if ev[2] is None else f"(Some {z(int(ev[2]) * 1000)})"
        return f"SEnv {z(int(ev[1]) * 1000)} {r}"
    raise ValueError(ev)


def flock_expr(events: List[List[Any]], clients: List[int]) -> str:
    evs = "[" + "; ".join(flock_event_coq(e) for e in events) + "]"
    cs = "[" + "; ".join(n_(c) for c in clients) + "]"
    return f"fsummary (frun kernel_grant poll_ms finit {evs}) {cs}"


def s3_expr(events: List[List[Any]], clients: List[int], lease_ms: int) -> str:
    evs = "[" + "; ".join(s3_event_coq(e) for e in events) + "]"
    cs = "[" + "; ".join(n_(c) for c in clients) + "]"
    return f"ssummary {z(lease_ms)} (srun false {z(lease_ms)} held_retry_sleep_ms sinit {evs}) {cs}"


def _name(x: Any) -> str:
    return x.name if isinstance(x, C) else repr(x)


def flock_obs_py(pair: Tuple[Any, Any]) -> Tuple[Any, ...]:
    o, r = pair
    r = _name(r)
    nm = o.name
    a = list(o.args)
    table = {"ONop": "nop", "OCall": "call", "OClock": "clock", "OOpen": "open", "OOpenErr": "openerr", "OFlock": "flock",
             "OUnlock": "unlock", "OClose": "close", "OSleep": "sleep", "ODie": "die", "OTick": "tick", "OUnlinked": "unlinked"}
    return (table[nm],) + tuple(a) + (r,)


def s3_obs_py(pair: Tuple[Any, Any]) -> Tuple[Any, ...]:
    o, r = pair
    r = _name(r)
    nm = o.name
    a = list(o.args)
    if nm == "SOReq":
        c, k, rep = a
        op, cond = {"KPutAbsent": ("put_absent", None), "KHead": ("head", None), "KGet": ("get", None),
                    "KDelete": ("delete", None)}.get(k.name, ("put_match", k.args[0] if k.args else None))
        rn = rep.name
        if rn == "RpEtag":
            out: Tuple[Any, ...] = ("etag", rep.args[0])
        elif rn == "RpHead":
            out = ("head", rep.args[0], rep.args[1])
        elif rn == "RpOwner":
            out = ("owner", rep.args[0])
        elif rn == "RpDone":
            out = ("done",)
        elif rn == "RpPrecond":
            out = ("precond",)
        elif rn == "RpMissing":
            out = ("missing",)
        else:
            out = ("err", {"FTransient": "transient", "FPermanent": "permanent", "FLost": "lost", "FNone": "none"}[rep.args[0].name])
        return ("req", c, op, cond, out, r)
    table = {"SONop": "nop", "SOCall": "call", "SOTime": "clock", "SOSleep": "sleep", "SODie": "die", "SOTick": "tick", "SOEnv": "env"}
    return (table[nm],) + tuple(a) + (r,)


# ---------------------------------------------------------------------------------- schedule exploration
class Driver:
    """Scripts per actor + a run object; turns 'actor a moves' into the next event of a."""

    def __init__(self, run: Any, scripts: Dict[Any, List[List[Any]]], kind: str, step_args: Callable[[Any, Any], List[Any]]):
        self.run = run
        self.kind = kind
        self.scripts = {a: list(s) for a, s in scripts.items()}
        self.events: List[List[Any]] = []
        self.step_args = step_args

    def busy(self, a: Any) -> bool:
        return isinstance(a, int) and self.run._busy(a)

    def enabled(self) -> List[Any]:
        out = []
        for a in sorted(self.scripts, key=str):
            if isinstance(a, int) and a in self.run.dead:
                continue
            if self.busy(a) or self.scripts[a]:
                out.append(a)
        return out

    def act(self, a: Any) -> None:
        if self.busy(a):
            ev = ["step", a] + self.step_args(self, a)
        else:
            ev = self.scripts[a].pop(0)
        self.events.append(ev)
        self.run.event(ev)


def explore(new_driver: Callable[[], Driver], max_preempt: int, cap: int, max_len: int = 400,
            free_actors: Tuple[Any, ...] = ()) -> List[Driver]:
    """Every schedule with at most max_preempt preemptions (= switching away from an actor that could
    continue), depth first, each executed from scratch on the real code.  Moves of `free_actors`
    (environment: ticks, deaths, renewals) cost nothing and may be inserted at every point."""
    done: List[Driver] = []
    stack: List[List[Any]] = [[]]
    while stack and len(done) < cap:
        prefix = stack.pop()
        d = new_driver()
        last: Any = None          # last non-environment actor that moved
        pre = 0
        path: List[Any] = []
        try:
            while len(d.events) < max_len:
                en = d.enabled()
                if not en:
                    break
                can_continue = last in en
                default = last if can_continue else next((a for a in en if a not in free_actors), en[0])
                if len(path) < len(prefix):
                    ch = prefix[len(path)]
                    if ch not in en:       # cannot happen: executions are deterministic
                        raise RuntimeError(f"schedule prefix not replayable: {prefix} at {len(path)}")
                else:
                    ch = default
                    for alt in en:
                        if alt == default:
                            continue
                        cost = pre + (1 if (can_continue and alt not in free_actors) else 0)
                        if cost <= max_preempt:
                            stack.append(path + [alt])
                if can_continue and ch not in free_actors and ch != last:
                    pre += 1
                path.append(ch)
                d.act(ch)
                if ch not in free_actors:
                    last = ch
        finally:
            d.run.close()
        done.append(d)
    return done


# ---------------------------------------------------------------------------------- scenarios
def flock_driver(ctx, scripts: Dict[Any, List[List[Any]]]) -> Driver:
    from harness.lib.lockruns import FlockRun
    return Driver(FlockRun(ctx.scratch, probe=True), scripts, "flock", lambda d, a: [])


def s3_driver(ctx, scripts: Dict[Any, List[List[Any]]], lease_s: int, faults: Optional[Callable[[], str]] = None,
              jitter: Optional[Callable[[], int]] = None, pre: Optional[List[List[Any]]] = None) -> Driver:
    """`pre`: events every schedule of this driver starts with (the environment the run begins in)."""
    from harness.lib.lockruns import S3Run
    d = Driver(S3Run(lease_s), scripts, "s3",
               lambda d, a: [faults() if faults else "none", jitter() if jitter else 300])
    for ev in pre or []:
        d.events.append(ev)
        d.run.event(ev)
    return d


# Environments of the S3 lock: [zone_s, rep_s | None, flavour] = the process's local zone (seconds east of UTC, set
# through TZ + tzset), the utcoffset at which head replies render LastModified (None: naive), the tzinfo class.
# East and west of UTC by more and by less than both leases, half-hour zones, the date line; boto3's own rendering
# (dateutil tzutc) and renderings in foreign offsets; naive dates.
S3_ENVS: List[List[Any]] = [
    [32400, 0, "dateutil"], [-18000, 0, "std"], [19800, 19800, "std"], [3600, -28800, "dateutil"],
    [46800, 0, "std"], [-39600, 3600, "dateutil"], [0, 32400, "std"], [1, 0, "std"], [-1, 0, "dateutil"],
    [0, None, "std"], [32400, None, "std"], [-25200, None, "std"],
]


def random_env(rng) -> List[Any]:
    r = rng.random()
    zone = rng.choice([0, 1, -1, 2, -3, 59, -61]) if r < 0.15 else rng.randrange(-24, 29) * 1800
    r = rng.random()
    rep_s: Optional[int] = 0 if r < 0.55 else (None if r < 0.67 else rng.randrange(-24, 29) * 1800)
    return ["env", zone, rep_s, rng.choice(["std", "dateutil"])]


def random_schedule(ctx, d: Driver, env_events: Callable[[Driver], Optional[List[Any]]], max_len: int, p_switch: float) -> None:
    rng = ctx.rng
    last = None
    try:
        while len(d.events) < max_len:
            extra = env_events(d)
            if extra is not None:
                d.events.append(extra)
                d.run.event(extra)
                continue
            en = d.enabled()
            if not en:
                break
            if last in en and rng.random() > p_switch:
                ch = last
            else:
                ch = rng.choice(en)
            d.act(ch)
            last = ch
    finally:
        d.run.close()


# ---------------------------------------------------------------------------------- judging
def report_problems(ctx, prefix: str, d: Driver, extra: Dict[str, Any]) -> int:
    n = 0
    seen = ctx.stats.setdefault("oracle_failures_by_key", {})
    for pb in d.run.problems:
        n += 1
        key = pb.get("known_key") or pb["oracle"]
        seen[key] = seen.get(key, 0) + 1
        if seen[key] > 3:
            continue                  # counted; the first ones carry the replay
        events = shrink(ctx, prefix, d.events, pb, extra) if seen[key] == 1 else d.events
        payload = {"lock": prefix, "events": events, "problem": pb}
        payload.update(extra)
        ctx.violation(key, f"{pb['oracle']}: {json.dumps({k: v for k, v in pb.items() if k != 'oracle'}, default=repr)[:300]}", payload)
    return n


_POOL: List[Any] = [None]


def _pool(scratch: str):
    """The pristine server process every separate process of a process-family schedule is forked from (lockprocs.py)."""
    from harness.lib import lockprocs as LP
    if _POOL[0] is None:
        _POOL[0] = LP.Pool(scratch)
    return _POOL[0]


def _close_pool() -> None:
    if _POOL[0] is not None:
        try:
            _POOL[0].close()
        finally:
            _POOL[0] = None


def rerun(prefix: str, events: List[List[Any]], scratch: str, extra: Dict[str, Any]):
    from harness.lib.lockruns import run_flock, run_s3
    if prefix == "flock":
        return run_flock(events, scratch)
    if prefix == "procs":
        from harness.lib import lockprocs as LP
        return LP.run_family(_pool(scratch), events, scratch)
    return run_s3(events, extra.get("lease_s", 60))


def shrink(ctx, prefix: str, events: List[List[Any]], pb: Dict[str, Any], extra: Dict[str, Any]) -> List[List[Any]]:
    """Delta-debug the event list: drop events while the same oracle still fails."""
    budget = 120
    cur = list(events)

    def fails(evs: List[List[Any]]) -> bool:
        try:
            r = rerun(prefix, evs, ctx.scratch, extra)
        except Exception:
            return False
        return any(p["oracle"] == pb["oracle"] and p.get("known_key") == pb.get("known_key") for p in r.problems)

    chunk = max(1, len(cur) // 2)
    while chunk >= 1 and budget > 0:
        i = 0
        changed = False
        while i < len(cur) and budget > 0:
            cand = cur[:i] + cur[i + chunk:]
            budget -= 1
            if cand and fails(cand):
                cur = cand
                changed = True
            else:
                i += chunk
        if not changed:
            chunk //= 2
    return cur


def _chunk(n: int) -> int:
    # coqbuild.coq_eval only drains a worker's stdout once it has exited; with more files than parallel jobs
    # the workers block on a full pipe.  Keep the number of files below the number of jobs.
    return max(50, -(-n // 14))


def compare_flock(ctx, drivers: List[Driver], clients: List[int], name: str) -> None:
    exprs = [flock_expr(d.events, clients) for d in drivers]
    got = coqbuild.coq_eval(REQ, exprs, chunk=_chunk(len(exprs)))
    bad = []
    for d, g in zip(drivers, got):
        trace, summ, now = g
        m_obs = [flock_obs_py(p) for p in trace]
        i_obs = [tuple(o) for o in d.run.obs]
        m_sum = [bool(s[0]) for s in summ]
        i_sum = d.run.summary(clients)
        ctx.count(1, (name, json.dumps(d.events)))
        if m_obs != i_obs or m_sum != i_sum or now != d.run.sched.clock.now:
            k = next((j for j, (a, b) in enumerate(zip(m_obs, i_obs)) if a != b), min(len(m_obs), len(i_obs)))
            bad.append({"events": d.events, "first_difference_at": k,
                        "model": repr(m_obs[k:k + 2]), "impl": repr(i_obs[k:k + 2]),
                        "model_locked": m_sum, "impl_locked": i_sum, "model_now": now, "impl_now": d.run.sched.clock.now})
    ctx.correspondence(name, len(drivers), bad)


def compare_s3(ctx, drivers: List[Driver], clients: List[int], lease_s: int, name: str) -> None:
    exprs = [s3_expr(d.events, clients, lease_s * 1000) for d in drivers]
    got = coqbuild.coq_eval(REQ, exprs, chunk=_chunk(len(exprs)))
    bad = []
    for d, g in zip(drivers, got):
        trace, summ, (owner, now, late) = g
        m_obs = [s3_obs_py(p) for p in trace]
        i_obs = [tuple(o) for o in d.run.obs]
        m_sum = [(bool(s[0]), bool(s[2])) for s in summ]
        i_sum = d.run.summary(clients)
        owner = owner.x if isinstance(owner, Some) else None
        i_owner = d.run.owner_of(d.run.s3.obj["body"].decode()) if d.run.s3.obj else None
        ctx.count(1, (name, json.dumps(d.events)))
        if m_obs != i_obs or m_sum != i_sum or now != d.run.sched.clock.now or owner != i_owner or bool(late) != d.run.late_delete:
            k = next((j for j, (a, b) in enumerate(zip(m_obs, i_obs)) if a != b), min(len(m_obs), len(i_obs)))
            entry = {"events": d.events, "first_difference_at": k, "model": repr(m_obs[k:k + 2]), "impl": repr(i_obs[k:k + 2]),
                     "model_(locked,live)": m_sum, "impl_(locked,live)": i_sum, "model_owner": owner, "impl_owner": i_owner,
                     "model_late_delete": bool(late), "impl_late_delete": d.run.late_delete}
            bad.append(entry)
    ctx.correspondence(name, len(drivers), bad)


# ---------------------------------------------------------------------------------- the directed finding
def fc19_schedule(lease_ms: int) -> List[List[Any]]:
    """A releases: GET sees its own id; A is paused past its lease; B takes over (legitimately); A's
    delayed unconditional DELETE removes B's live lock; C acquires by create while B's lease runs."""
    return [["call", 0, "acquire", 2000], ["step", 0, "none", 300], ["step", 0, "none", 300],
            ["call", 0, "release"], ["step", 0, "none", 300],
            ["tick", lease_ms + 1],
            ["call", 1, "acquire", 2000], ["step", 1, "none", 300], ["step", 1, "none", 300], ["step", 1, "none", 300],
            ["step", 1, "none", 300], ["step", 1, "none", 300],
            ["step", 0, "none", 300],
            ["call", 2, "acquire", 2000], ["step", 2, "none", 300], ["step", 2, "none", 300]]


def failing_heartbeat_schedules(lease_ms: int, quick: bool) -> List[List[List[Any]]]:
    """Holder 0's heartbeat loop KEEPS TICKING (every lease/3) while its renewals fail -- transiently, or lost, or a mix with
    renewals that succeed -- until, for the patterns without a late success, the lease really lapses; contender 1 then takes
    over legitimately (or, layout 'polling', has been polling all along); holder 0's next tick is refused.  Holder 0's
    is_held() -- the commit-point fence -- is queried AT EVERY POINT of that history, once and twice in a row, and must never
    answer True once the object is the successor's."""
    third = lease_ms // 3 + 34                 # three ticks pass the lease (lease 2000: 700, 1400, 2100)
    patterns = [["transient"] * 3, ["transient"] * 4, ["lost", "transient", "transient", "transient"], ["transient", "none", "transient", "transient", "transient"],
                ["permanent", "transient", "transient"], ["transient", "transient", "none"]]
    if not quick:
        patterns += [["transient"] * 6, ["none", "transient", "transient", "transient"], ["transient", "lost", "transient", "transient", "transient"],
                     ["transient", "transient", "lost"], ["permanent"] * 3]
    acq0 = [["call", 0, "acquire", 1000]] + [["step", 0, "none", 300]] * 4     # clock, create; surplus steps are no-ops
    held0 = [["call", 0, "is_held"]] + [["step", 0, "none", 300]] * 4          # GET (+ sleep + GET after a blip); surplus steps are no-ops
    out: List[List[List[Any]]] = []
    for pat in patterns:
        ticks = [[["tick", third], ["renew", 0, f]] for f in pat]
        b_steps = [["step", 1, "none", 300]] * 14
        tail = [["renew", 0, "none"], ["call", 1, "is_held"], ["step", 1, "none", 300], ["renew", 1, "none"]]
        layouts = {
            "after": acq0 + [e for t in ticks for e in t] + [["call", 1, "acquire", 3000]] + b_steps + tail,
            "polling": acq0 + [["call", 1, "acquire", 4000]] + [e for t in ticks for e in (t + b_steps[:3])] + b_steps + tail,
        }
        for name, base in layouts.items():
            points = range(len(acq0), len(base) + 1)
            if quick and name == "polling":
                points = range(len(acq0), len(base) + 1, 2)
            for k in points:
                out.append(base[:k] + held0 + base[k:])
                if not quick or k % 3 == 0:
                    out.append(base[:k] + held0 + held0 + base[k:])
    return out


# ---------------------------------------------------------------------------------- local lock: cases
def flock_cases(ctx) -> Tuple[List[Driver], List[int]]:
    quick = ctx.tier == "quick"
    clients = [0, 1, 2]
    out: List[Driver] = []
    t0 = time.time()
    # (1) all interleavings of 2 contenders (acquire; release) with <= 3 preemptions
    scripts2 = {0: [["acq", 0, True, 20], ["rel", 0]], 1: [["acq", 1, True, 20], ["rel", 1]]}
    out += explore(lambda: flock_driver(ctx, scripts2), 3, 1500 if quick else 6000)
    n1 = len(out)
    # (2) non-blocking contender, re-acquire on the same instance, double release
    scripts2b = {0: [["acq", 0, True, 10], ["acq", 0, True, 10], ["rel", 0], ["rel", 0]],
                 1: [["acq", 1, False, 10], ["rel", 1], ["acq", 1, True, 10], ["rel", 1]]}
    out += explore(lambda: flock_driver(ctx, scripts2b), 2, 400 if quick else 2500)
    n2 = len(out)
    # (3) holder death / clock jumps / open failures at every point (environment moves are free)
    scripts3 = {0: [["acq", 0, True, 20], ["rel", 0]], 1: [["acq", 1, True, 20], ["rel", 1]],
                "E": [["die", [0]], ["tick", 25]]}
    out += explore(lambda: flock_driver(ctx, scripts3), 1, 450 if quick else 3000, free_actors=("E",))
    scripts3b = {0: [["acq", 0, True, 20], ["rel", 0]], 1: [["acq", 1, True, 20], ["rel", 1]],
                 "E": [["openerr", 1], ["openerr", 0]]}
    out += explore(lambda: flock_driver(ctx, scripts3b), 1, 250 if quick else 1500, free_actors=("E",))
    n3 = len(out)
    # (4) random schedules of 3 contenders with deaths, ticks, open errors
    rng = ctx.rng
    for _ in range(150 if quick else 1200):
        scripts = {c: [] for c in clients}
        for c in clients:
            for _k in range(rng.choice([1, 2, 3])):
                scripts[c] += [["acq", c, rng.random() < 0.8, rng.choice([0, 5, 10, 20, 30])], ["rel", c]]
            if rng.random() < 0.2:
                scripts[c].insert(rng.randrange(len(scripts[c]) + 1), ["rel", c])
        d = flock_driver(ctx, scripts)

        def env(dd: Driver) -> Optional[List[Any]]:
            r = rng.random()
            if r < 0.03:
                return ["tick", rng.choice([1, 5, 10, 11, 40])]
            if r < 0.045:
                return ["die", [rng.choice(clients)] if rng.random() < 0.8 else rng.sample(clients, 2)]
            if r < 0.07:
                return ["openerr", rng.choice(clients)]
            return None
        random_schedule(ctx, d, env, 300, 0.35)
        out.append(d)
    ctx.stats["flock_schedules"] = {"two_contenders_le3_preemptions": n1, "nonblocking_reacquire": n2 - n1,
                                    "death_tick_openerr_everywhere": n3 - n2, "random_three": len(out) - n3,
                                    "impl_wall_s": round(time.time() - t0, 1)}
    return out, clients


def check_flock(ctx) -> None:
    drivers, clients = flock_cases(ctx)
    agg = {"ok": 0, "timeout": 0, "wouldblock": 0, "probes": 0, "events": 0, "deaths": 0}
    nbad = 0
    for d in drivers:
        for k in ("ok", "timeout", "wouldblock", "probes"):
            agg[k] += d.run.stats[k]
        agg["events"] += len(d.events)
        agg["deaths"] += sum(1 for e in d.events if e[0] == "die")
        if d.run.problems:
            nbad += report_problems(ctx, "flock", d, {})
    ctx.stats["flock_outcomes"] = agg
    ctx.stats["flock_oracle_failures"] = nbad
    ctx.sample({"flock_schedule": drivers[0].events[:14], "obs": [list(o) for o in drivers[0].run.obs[:14]]})
    try:
        compare_flock(ctx, drivers, clients, "flock")
    except RuntimeError as e:
        ctx.proof_problems.append("FLock model evaluation failed: " + str(e)[:600])


# ---------------------------------------------------------------------------------- local lock: process topologies
REQ_P = ["DS.Gen.GenFileLock", "DS.Model.ProcLock", "DS.Model.ProcFork"]


def proc_topologies() -> List[Tuple[str, List[List[Any]], List[Tuple[str, int]]]]:
    """(name, events that build the processes and handles, the handles that then contend).  HOW a process came into being
    is the dimension: separate processes, several handles in one process, a worker forked before the parent's handle
    was ever used / after it went through a completed acquire-release cycle / after a refused attempt / while it is
    held, pre-forked pools, grandchildren."""
    cyc = [["acq", "A", 0], ["rel", "A", 0]]
    return [
        ("separate-2", [["spawn", "A"], ["spawn", "B"], ["new", "A", 0], ["new", "B", 0]], [("A", 0), ("B", 0)]),
        ("separate-3-used", [["spawn", "A"], ["spawn", "B"], ["spawn", "C"], ["new", "A", 0], ["new", "B", 0], ["new", "C", 0]] + cyc
         + [["acq", "B", 0], ["rel", "B", 0]], [("A", 0), ("B", 0), ("C", 0)]),
        ("two-handles-one-process", [["spawn", "A"], ["new", "A", 0], ["new", "A", 1], ["spawn", "B"], ["new", "B", 0]],
         [("A", 0), ("A", 1), ("B", 0)]),
        ("fork-before-first-use", [["spawn", "A"], ["new", "A", 0], ["fork", "A", "B"]], [("A", 0), ("B", 0)]),
        ("fork-after-cycle", [["spawn", "A"], ["new", "A", 0]] + cyc + [["fork", "A", "B"]], [("A", 0), ("B", 0)]),
        ("fork-after-cycle-plus-outsider", [["spawn", "A"], ["new", "A", 0]] + cyc + [["fork", "A", "B"], ["spawn", "C"], ["new", "C", 0]],
         [("A", 0), ("B", 0), ("C", 0)]),
        ("prefork-pool-after-cycles", [["spawn", "A"], ["new", "A", 0]] + cyc + cyc + [["fork", "A", "B"], ["fork", "A", "C"]],
         [("B", 0), ("C", 0), ("A", 0)]),
        ("fork-after-refused-attempt", [["spawn", "A"], ["spawn", "X"], ["new", "A", 0], ["new", "X", 0], ["acq", "X", 0], ["acq", "A", 0],
                                        ["rel", "X", 0], ["fork", "A", "B"]], [("A", 0), ("B", 0), ("X", 0)]),
        ("grandchild-after-cycles", [["spawn", "A"], ["new", "A", 0]] + cyc + [["fork", "A", "B"], ["acq", "B", 0], ["rel", "B", 0], ["fork", "B", "C"]],
         [("A", 0), ("C", 0), ("B", 0)]),
        ("fork-own-handles-after-cycles", [["spawn", "A"], ["new", "A", 0], ["new", "A", 1]] + cyc + [["acq", "A", 1], ["rel", "A", 1], ["fork", "A", "B"]],
         [("A", 0), ("B", 1), ("B", 0)]),
        ("fork-while-held", [["spawn", "A"], ["new", "A", 0], ["acq", "A", 0], ["fork", "A", "B"], ["spawn", "C"], ["new", "C", 0]],
         [("A", 0), ("C", 0), ("B", 0)]),
        # a process with an idle and a holding handle forks: fork(2) copies the WHOLE descriptor table, the child keeps the
        # owning description open, the lock survives the parent's death until the child is gone
        ("fork-while-other-handle-held", [["spawn", "A"], ["new", "A", 0], ["new", "A", 1], ["acq", "A", 1], ["fork", "A", "B"],
                                          ["spawn", "C"], ["new", "C", 0], ["kill", "A"], ["acq", "C", 0]],
         [("C", 0), ("B", 0), ("B", 1)]),
        ("fork-while-held-after-cycle", [["spawn", "A"], ["new", "A", 0]] + cyc + [["acq", "A", 0], ["fork", "A", "B"], ["spawn", "C"], ["new", "C", 0]],
         [("C", 0), ("A", 0), ("B", 0)]),
    ]


def proc_scripts(members: List[Tuple[str, int]], quick: bool) -> List[List[List[Any]]]:
    """The property, sentence by sentence, for every ordered pair (X, Y) of contending handles and every way X stops
    holding: X acquires; Y's acquire must time out; X releases / is killed / exits without releasing; Y's acquire must now
    succeed; a third handle must time out while Y holds; Y releases.  (An acquire through a handle that already reports
    is_held() is skipped by the runner.)"""
    out: List[List[List[Any]]] = []
    for x in members:
        for y in members:
            if x == y:
                continue
            third = next((m for m in members if m != x and m != y and m[0] != x[0]), None)
            for end in (["rel", x[0], x[1]], ["kill", x[0]], ["exit", x[0]]):
                if end[0] == "exit" and quick and members.index(x) + members.index(y) != 1:
                    continue
                if end[0] != "rel" and x[0] == y[0]:
                    continue                       # Y dies with X
                evs = [["acq", x[0], x[1]], ["acq", y[0], y[1]], end, ["acq", y[0], y[1]]]
                if third is not None:
                    evs.append(["acq", third[0], third[1]])
                evs.append(["rel", y[0], y[1]])
                if third is not None:
                    evs += [["acq", third[0], third[1]], ["rel", third[0], third[1]]]
                out.append(evs)
    return out


def random_family(rng, max_len: int) -> List[List[Any]]:
    """A random well-formed event list over the whole alphabet: processes spawned and forked at any moment (before use,
    between cycles, while held, from forked workers), one or two handles per process, deaths at any moment."""
    names = ["A", "B", "C", "D", "E", "F"]
    alive: Dict[str, set] = {}
    used = 0
    evs: List[List[Any]] = [["spawn", "A"], ["new", "A", 0]]
    alive["A"] = {0}
    used = 1
    while len(evs) < max_len:
        r = rng.random()
        ps = sorted(alive)
        if not ps:
            break
        p = rng.choice(ps)
        if r < 0.07 and used < len(names):
            q = names[used]
            used += 1
            evs += [["spawn", q], ["new", q, 0]]
            alive[q] = {0}
        elif r < 0.22 and used < len(names):
            q = names[used]
            used += 1
            evs.append(["fork", p, q])
            alive[q] = set(alive[p])
        elif r < 0.27 and len(alive[p]) < 2:
            evs.append(["new", p, 1])
            alive[p].add(1)
        elif r < 0.33 and len(alive) > 1:
            evs.append([rng.choice(["kill", "exit"]), p])
            del alive[p]
        elif r < 0.70:
            evs.append(["acq", p, rng.choice(sorted(alive[p]))])
        else:
            evs.append(["rel", p, rng.choice(sorted(alive[p]))])
    return evs


def check_procs(ctx) -> None:
    """Process topologies of the local lock: real processes (harness/lib/lockprocs.py), implementation-only oracles on
    every state, and the lock-file primitives of every run (with the real kernel's answers, every fork, every death)
    accepted by Model/ProcLock.v + ProcFork.v (whole-process forks) under the regenerated discipline."""
    from harness.lib import lockprocs as LP
    quick = ctx.tier == "quick"
    rng = ctx.rng
    t0 = time.time()
    pool = _pool(ctx.scratch)
    runs: List[Tuple[str, Any, List[List[Any]]]] = []
    per_topology: Dict[str, int] = {}
    try:
        for name, prefix, members in proc_topologies():
            scripts = proc_scripts(members, quick)
            if quick and len(scripts) > 9:
                keep = scripts[:4] + rng.sample(scripts[4:], 5)
                scripts = keep
            for sc in scripts:
                evs = prefix + sc
                runs.append((name, LP.run_family(pool, evs, ctx.scratch), evs))
                per_topology[name] = per_topology.get(name, 0) + 1
        for _ in range(40 if quick else 600):
            evs = random_family(rng, rng.choice([8, 12, 16, 20]))
            runs.append(("random", LP.run_family(pool, evs, ctx.scratch), evs))
    except LP.HarnessFailure as e:
        ctx.proof_problems.append("process-family harness failed: " + str(e)[:600])
    agg = {"ok": 0, "timeout": 0, "forks": 0, "deaths": 0, "probes": 0, "processes": 0, "events": 0}
    nbad = 0
    for name, r, evs in runs:
        for k in ("ok", "timeout", "forks", "deaths", "probes", "processes"):
            agg[k] += r.stats[k]
        agg["events"] += len(evs)
        ctx.count(1, ("procs", json.dumps(evs)))
        if r.problems:
            seen = set()
            r.problems = [pb for pb in r.problems if not (pb["oracle"] in seen or seen.add(pb["oracle"]))]

            class _D:       # the shape report_problems expects
                pass
            d = _D()
            d.run, d.events = r, evs      # type: ignore[attr-defined]
            nbad += report_problems(ctx, "procs", d, {"topology": name})      # type: ignore[arg-type]
    ctx.stats["proc_family_schedules"] = dict(per_topology, random=sum(1 for n, _r, _e in runs if n == "random"),
                                              impl_wall_s=round(time.time() - t0, 1))
    ctx.stats["proc_family_outcomes"] = agg
    ctx.stats["proc_family_oracle_failures"] = nbad
    if runs:
        ctx.sample({"proc_family_schedule": runs[4 % len(runs)][2], "obs": [list(o) for o in runs[4 % len(runs)][1].obs]})
    # ---- correspondence with Model/ProcLock.v
    bad: List[Dict[str, Any]] = []
    exprs: List[str] = []
    kept: List[Tuple[str, Any, List[List[Any]], Dict[Any, int], int]] = []
    for name, r, evs in runs:
        try:
            term, handles, opens = LP.project(r)
        except LP.Nonconforming as e:
            bad.append({"topology": name, "events": evs, "nonconforming": str(e)})
            continue
        exprs.append(term)
        kept.append((name, r, evs, handles, opens))
    try:
        vals = coqbuild.coq_eval(REQ_P, exprs, chunk=_chunk(len(exprs))) if exprs else []
    except RuntimeError as e:
        ctx.proof_problems.append("ProcLock model evaluation failed: " + str(e)[:600])
        vals = []
        kept = []
    for (name, r, evs, handles, opens), val in zip(kept, vals):
        lok, (view, nxt, still_open) = val
        if lok != 1:
            bad.append({"topology": name, "events": evs, "rejected_lock_event_index": nxt,
                        "primitives": [(e["actor"], e["prim"], e.get("handle"), e["ok"]) for e in r.locklog[:60]],
                        "why": "the kernel's answer to this primitive (or its place in the handle's program) is not the lock layer's"})
            continue
        pid_of = {p: pr["pid"] for p, pr in r.procs.items()}
        want = sorted(handles[(pid_of[p], h)] for (p, h) in r.holder_members() if (pid_of[p], h) in handles)
        got = view.x if isinstance(view, Some) else None
        if (got is None) != (not want) or (got is not None and got not in want) or nxt != opens or still_open != r.open_descriptors():
            bad.append({"topology": name, "events": evs, "model": {"holder": got, "opened": nxt, "still_open": still_open},
                        "impl": {"holder_handles": want, "opened": opens, "still_open": r.open_descriptors()}})
    ctx.correspondence("proc-lock-layer", len(runs), bad)


# ---------------------------------------------------------------------------------- S3 lock: cases
S3_FAULT_MIX = ["none"] * 12 + ["transient", "permanent", "lost"]


def _pick_envs(rng, n: int, k: int) -> List[int]:
    """quick tier: the first two environments (east / west of UTC by hours, boto3-like rendering) and the first
    naive one always, the rest drawn by the seed."""
    fixed = [0, 1, 9]
    rest = [i for i in range(n) if i not in fixed]
    rng.shuffle(rest)
    return sorted(fixed + rest[:max(0, k - len(fixed))])


def s3_cases(ctx) -> Dict[int, List[Driver]]:
    quick = ctx.tier == "quick"
    rng = ctx.rng
    by_lease: Dict[int, List[Driver]] = {60: [], 2: []}
    t0 = time.time()
    # (0) the directed F-C19 schedule (always)
    from harness.lib.lockruns import run_s3
    d0 = s3_driver(ctx, {}, 60)
    for ev in fc19_schedule(60000):
        d0.events.append(ev)
        d0.run.event(ev)
    d0.run.close()
    by_lease[60].append(d0)
    # (1) two contenders: acquire; is_held; release -- all interleavings with <= 3 preemptions; the lease lapse
    #     (a clock jump past the lease) and a renewal of either holder may happen at every point
    lease = 2
    scripts = {0: [["call", 0, "acquire", 1000], ["call", 0, "is_held"], ["call", 0, "release"]],
               1: [["call", 1, "acquire", 1000], ["call", 1, "is_held"], ["call", 1, "release"]]}
    by_lease[2] += explore(lambda: s3_driver(ctx, scripts, lease), 3, 600 if quick else 6000)
    n1 = len(by_lease[2])
    scripts_e = dict(scripts)
    scripts_e["E"] = [["tick", lease * 1000 + 1]]
    by_lease[2] += explore(lambda: s3_driver(ctx, scripts_e, lease), 2, 600 if quick else 5000, free_actors=("E",))
    n2 = len(by_lease[2])
    scripts_r = {0: [["call", 0, "acquire", 1000], ["call", 0, "is_held"], ["call", 0, "release"]],
                 1: [["call", 1, "acquire", 3000], ["call", 1, "is_held"]],
                 "E": [["tick", lease * 1000 + 1], ["renew", 0, "none"], ["renew", 1, "none"]]}
    by_lease[2] += explore(lambda: s3_driver(ctx, scripts_r, lease), 1, 600 if quick else 4000, free_actors=("E",))
    n3 = len(by_lease[2])
    # (1b) three clients, one releasing: every placement of the lease lapse (this is where the search meets F-C19
    #      on its own: release's GET, pause past the lease, takeover, delayed DELETE, create)
    scripts_3 = {0: [["call", 0, "acquire", 1000], ["call", 0, "release"]],
                 1: [["call", 1, "acquire", 1000]], 2: [["call", 2, "acquire", 1000]],
                 "E": [["tick", lease * 1000 + 1]]}
    by_lease[2] += explore(lambda: s3_driver(ctx, scripts_3, lease), 2, 900 if quick else 5000, free_actors=("E",))
    n4 = len(by_lease[2])
    # (1c) the ENVIRONMENT as an input: the contended-lock schedules (holder live / lease lapsed / renewed, every
    #      placement) again in processes whose local zone is not UTC and against replies that render LastModified
    #      differently; then a zone / rendering CHANGE at every point of a run (tzset, DST switch, another endpoint)
    envs = S3_ENVS if not quick else [S3_ENVS[i] for i in _pick_envs(rng, len(S3_ENVS), 7)]
    scripts_c = {0: [["call", 0, "acquire", 1000], ["call", 0, "is_held"]],
                 1: [["call", 1, "acquire", 1500], ["call", 1, "is_held"]],
                 "E": [["tick", lease * 1000 + 1], ["renew", 0, "none"]]}
    for env in envs:
        pre = [["env"] + env]
        by_lease[2] += explore(lambda pre=pre: s3_driver(ctx, scripts_c, lease, pre=pre), 1, 90 if quick else 300, free_actors=("E",))
        by_lease[2] += explore(lambda pre=pre: s3_driver(ctx, scripts_e, lease, pre=pre), 1, 60 if quick else 200, free_actors=("E",))
    n5 = len(by_lease[2])
    for env in ([S3_ENVS[0], S3_ENVS[1], S3_ENVS[9]] if quick else S3_ENVS):
        scripts_z = {0: [["call", 0, "acquire", 1000], ["call", 0, "is_held"]],
                     1: [["call", 1, "acquire", 1500], ["call", 1, "is_held"]],
                     "E": [["env"] + env, ["tick", lease * 1000 + 1]]}
        by_lease[2] += explore(lambda scripts_z=scripts_z: s3_driver(ctx, scripts_z, lease), 1, 120 if quick else 300, free_actors=("E",))
    n6 = len(by_lease[2])
    # (1d) a heartbeat loop that keeps ticking while its renewals fail; the holder's is_held() at every point
    for evs in failing_heartbeat_schedules(lease * 1000, quick):
        dh = s3_driver(ctx, {}, lease)
        try:
            for ev in evs:
                dh.events.append(ev)
                dh.run.event(ev)
        finally:
            dh.run.close()
        by_lease[2].append(dh)
    n7 = len(by_lease[2])
    # (2) random: 3 clients, faults, renewals, deaths, clock jumps
    clients = [0, 1, 2]
    for _ in range(200 if quick else 2000):
        lease_s = rng.choice([2, 60])
        L = lease_s * 1000
        scripts3: Dict[Any, List[List[Any]]] = {c: [] for c in clients}
        for c in clients:
            for _k in range(rng.choice([1, 2])):
                scripts3[c] += [["call", c, "acquire", rng.choice([0, 500, 1000, 3000])]]
                for _j in range(rng.choice([0, 1, 2])):
                    scripts3[c] += [["call", c, "is_held"]]
                scripts3[c] += [["call", c, "release"]]
        d = s3_driver(ctx, scripts3, lease_s, faults=lambda: rng.choice(S3_FAULT_MIX), jitter=lambda: rng.choice([300, 450, 900]),
                      pre=[random_env(rng)] if rng.random() < 0.75 else None)

        def env(dd: Driver, L=L) -> Optional[List[Any]]:
            r = rng.random()
            if r < 0.05:
                return ["tick", rng.choice([1, 100, L // 3, L, L + 1, 2 * L])]
            if r < 0.12:
                return ["renew", rng.choice(clients), rng.choice(S3_FAULT_MIX)]
            if r < 0.13:
                return ["die", rng.choice(clients)]
            if r < 0.14:
                return random_env(rng)
            return None
        random_schedule(ctx, d, env, 250, 0.3)
        by_lease[lease_s].append(d)
    ctx.stats["s3_schedules"] = {"directed_fc19": 1, "two_contenders_le3_preemptions": n1, "lease_lapse_everywhere": n2 - n1,
                                 "renew_and_lapse_everywhere": n3 - n2, "three_clients_release_race": n4 - n3,
                                 "contended_in_zone_and_rendering": n5 - n4, "environment_change_everywhere": n6 - n5,
                                 "environments": [e for e in envs],
                                 "failing_heartbeat_is_held_everywhere": n7 - n6,
                                 "random_three_with_faults_and_environments": sum(len(v) for v in by_lease.values()) - n7 - 1,
                                 "impl_wall_s": round(time.time() - t0, 1)}
    return by_lease


def check_s3(ctx) -> None:
    by_lease = s3_cases(ctx)
    agg: Dict[str, int] = {}
    nbad = 0
    known = 0
    # judged in this order (the first failure of an oracle carries the replay): schedules whose replies render
    # LastModified the way boto3 does before foreign offsets before naive dates; enumerated before random
    def _order(t: Tuple[int, int, Driver]) -> Tuple[int, int, int]:
        i, lease_s, d = t
        reps = [e[2] for e in d.events if e[0] == "env"]
        klass = 2 if any(r is None for r in reps) else (1 if any(r for r in reps) else 0)
        return (klass, 0 if (lease_s == 2 or i == 0) else 1, i)      # lease 2 = the enumerated families; i == 0: F-C19
    flat = sorted(((i, lease_s, d) for lease_s, drivers in by_lease.items() for i, d in enumerate(drivers)), key=_order)
    for _i, lease_s, d in flat:
        if True:     # (indentation kept)
            for k, v in d.run.stats.items():
                agg[k] = max(agg.get(k, 0), v) if k == "max_live" else agg.get(k, 0) + v
            agg["events"] = agg.get("events", 0) + len(d.events)
            agg["late_delete_runs"] = agg.get("late_delete_runs", 0) + (1 if d.run.late_delete else 0)
            if d.run.problems:
                # one report per distinct oracle per schedule
                seen = set()
                uniq = []
                for pb in d.run.problems:
                    kk = (pb["oracle"], pb.get("known_key"))
                    if kk not in seen:
                        seen.add(kk)
                        uniq.append(pb)
                d.run.problems = uniq
                known += sum(1 for pb in uniq if pb.get("known_key"))
                if ctx.stats.get("_s3_reported", 0) < 3 or any(not pb.get("known_key") for pb in uniq):
                    ctx.stats["_s3_reported"] = ctx.stats.get("_s3_reported", 0) + 1
                    nbad += report_problems(ctx, "s3", d, {"lease_s": lease_s})
    ctx.stats.pop("_s3_reported", None)
    ctx.stats["s3_outcomes"] = agg
    ctx.stats["s3_schedules_with_two_live_holders_after_late_delete"] = known
    d0 = by_lease[60][0]
    ctx.sample({"s3_schedule_fc19": d0.events, "obs": [list(o) for o in d0.run.obs], "problems": d0.run.problems[:1]})
    try:
        for lease_s, drivers in by_lease.items():
            compare_s3(ctx, drivers, [0, 1, 2], lease_s, "s3")
    except RuntimeError as e:
        ctx.proof_problems.append("Lock model evaluation failed: " + str(e)[:600])


# ---------------------------------------------------------------------------------- real processes / threads
WORKER = r'''
import os, sys, time
from datashard.file_lock import FileLock
mode, lock_path, counter, n = sys.argv[1], sys.argv[2], sys.argv[3], int(sys.argv[4])
if mode == "count":
    lk = FileLock(lock_path, timeout=120.0)
    for _ in range(n):
        lk.acquire()
        try:
            with open(counter) as f:
                v = int(f.read() or "0")
            with open(counter, "w") as f:
                f.write(str(v + 1))
        finally:
            lk.release()
elif mode == "hold":
    lk = FileLock(lock_path, timeout=30.0)
    lk.acquire()
    with open(counter, "w") as f:
        f.write("held")
    time.sleep(3600)
elif mode == "timeout":
    lk = FileLock(lock_path, timeout=n / 1000.0)
    t0 = time.monotonic()
    try:
        got = lk.acquire()
        print("ACQUIRED", time.monotonic() - t0)
    except TimeoutError:
        print("TIMEOUT", time.monotonic() - t0)
'''


def _spawn(args: List[str]):
    import subprocess
    import sys
    return subprocess.Popen([sys.executable, "-c", WORKER] + args, stdout=subprocess.PIPE, stderr=subprocess.PIPE, text=True)


def _wait_file(path: str, secs: float) -> bool:
    t0 = time.time()
    while time.time() - t0 < secs:
        if os.path.exists(path) and os.path.getsize(path) > 0:
            return True
        time.sleep(0.005)
    return False


def stress_real(ctx) -> None:
    """The property's 'real multi-process stress': unprotected counter under the lock, kill -9 of holders,
    wall-clock timeout.  Real kernel, real processes, real time -- exercises hypothesis flock_excl."""
    import signal
    import tempfile
    import threading
    quick = ctx.tier == "quick"
    d = tempfile.mkdtemp(prefix="stress-", dir=ctx.scratch)
    lock_path = os.path.join(d, "locks", "metadata.lock")
    st: Dict[str, Any] = {}
    # (a) processes x cycles on an unprotected counter
    nproc, ncyc = (4, 150) if quick else (8, 2000)
    counter = os.path.join(d, "counter")
    with open(counter, "w") as f:
        f.write("0")
    t0 = time.time()
    procs = [_spawn(["count", lock_path, counter, str(ncyc)]) for _ in range(nproc)]
    errs = []
    for p in procs:
        out, err = p.communicate(timeout=900)
        if p.returncode != 0:
            errs.append(err[-300:])
    got = int(open(counter).read() or "0")
    st["counter"] = {"processes": nproc, "cycles_each": ncyc, "expected": nproc * ncyc, "got": got, "wall_s": round(time.time() - t0, 2)}
    ctx.count(nproc * ncyc)
    if errs or got != nproc * ncyc:
        ctx.violation("flock-stress-lost-update", f"{nproc} processes x {ncyc} locked increments: counter={got}, expected {nproc * ncyc}; errors={errs[:2]}",
                      {"lock": "stress", "processes": nproc, "cycles": ncyc, "got": got, "errors": errs[:3]})
    # (b) threads of one process, one FileLock instance each
    from datashard.file_lock import FileLock
    nthr, tcyc = (4, 100) if quick else (8, 500)
    tcounter = os.path.join(d, "tcounter")
    with open(tcounter, "w") as f:
        f.write("0")
    terrs: List[str] = []

    def tw() -> None:
        lk = FileLock(lock_path, timeout=120.0)
        try:
            for _ in range(tcyc):
                lk.acquire()
                try:
                    with open(tcounter) as f:
                        v = int(f.read() or "0")
                    with open(tcounter, "w") as f:
                        f.write(str(v + 1))
                finally:
                    lk.release()
        except Exception as e:
            terrs.append(repr(e))
    ths = [threading.Thread(target=tw) for _ in range(nthr)]
    [t.start() for t in ths]
    [t.join() for t in ths]
    tgot = int(open(tcounter).read() or "0")
    st["threads"] = {"threads": nthr, "cycles_each": tcyc, "expected": nthr * tcyc, "got": tgot}
    ctx.count(nthr * tcyc)
    if terrs or tgot != nthr * tcyc:
        ctx.violation("flock-stress-threads-lost-update", f"{nthr} threads x {tcyc}: counter={tgot}; errors={terrs[:2]}",
                      {"lock": "stress", "threads": nthr, "cycles": tcyc, "got": tgot, "errors": terrs[:3]})
    # (c) kill -9 of holders: the lock must be obtainable immediately afterwards
    kills = 3 if quick else 25
    worst = 0.0
    for i in range(kills):
        flag = os.path.join(d, f"held{i}")
        p = _spawn(["hold", lock_path, flag, "0"])
        if not _wait_file(flag, 20):
            p.kill()
            ctx.violation("flock-stress-holder-never-acquired", "holder process did not acquire within 20 s", {"lock": "stress"})
            continue
        probe = FileLock(lock_path, timeout=0.0)
        try:
            if probe.acquire(blocking=False):
                probe.release()
                ctx.violation("flock-stress-second-acquire-while-held", "non-blocking acquire succeeded while another process holds",
                              {"lock": "stress", "round": i})
        finally:
            pass
        os.kill(p.pid, signal.SIGKILL)
        p.wait()
        lk = FileLock(lock_path, timeout=2.0)
        t1 = time.monotonic()
        try:
            lk.acquire()
            worst = max(worst, time.monotonic() - t1)
            lk.release()
        except TimeoutError:
            ctx.violation("flock-stress-lock-stuck-after-kill9", "lock still held 2 s after its holder was killed -9",
                          {"lock": "stress", "round": i})
    st["kill9"] = {"rounds": kills, "worst_reacquire_s": round(worst, 4)}
    ctx.count(kills)
    # (d) wall-clock timeout of a blocked acquirer
    flag = os.path.join(d, "heldT")
    holder = _spawn(["hold", lock_path, flag, "0"])
    meas = []
    try:
        if _wait_file(flag, 20):
            for tmo_ms in ([300] if quick else [100, 300, 1000]):
                w = _spawn(["timeout", lock_path, "x", str(tmo_ms)])
                out, err = w.communicate(timeout=60)
                word, secs = (out.split() + ["?", "nan"])[:2]
                secs = float(secs)
                meas.append({"timeout_s": tmo_ms / 1000.0, "outcome": word, "elapsed_s": round(secs, 4)})
                ctx.count(1)
                if word != "TIMEOUT":
                    ctx.violation("flock-stress-no-timeout", f"blocked acquirer reported {word} while another process holds: {err[-200:]}",
                                  {"lock": "stress", "timeout_ms": tmo_ms, "stdout": out, "stderr": err[-300:]})
                elif secs < tmo_ms / 1000.0 or secs > tmo_ms / 1000.0 + 0.01 + 0.5:
                    # the theorem's bound is timeout + one poll interval; 0.5 s is allowance for OS scheduling noise
                    ctx.violation("flock-stress-timeout-out-of-bounds", f"TimeoutError after {secs:.3f}s for timeout {tmo_ms / 1000.0}s",
                                  {"lock": "stress", "timeout_ms": tmo_ms, "elapsed_s": secs})
    finally:
        holder.kill()
        holder.wait()
    st["timeout_wall_clock"] = meas
    ctx.stats["real_stress"] = st


class _RealTimeS3:
    """Wall-clock fake of the one lock object, for the real heartbeat thread (no scheduler, no patches)."""

    def __init__(self) -> None:
        import threading
        self.o: Optional[Dict[str, Any]] = None
        self.n = 0
        self.mu = threading.Lock()
        self.puts: List[Tuple[float, str, str]] = []

    @staticmethod
    def _err(code: str, op: str):
        from botocore.exceptions import ClientError
        return ClientError({"Error": {"Code": code, "Message": code}}, op)

    def put_object(self, Bucket, Key, Body, IfNoneMatch=None, IfMatch=None):
        import datetime as dt
        with self.mu:
            if IfNoneMatch and self.o is not None:
                raise self._err("PreconditionFailed", "PutObject")
            if IfMatch is not None and (self.o is None or self.o["etag"] != IfMatch):
                raise self._err("PreconditionFailed", "PutObject")
            self.n += 1
            self.o = {"body": bytes(Body), "etag": f'"{self.n}"', "lm": dt.datetime.now(dt.timezone.utc)}
            self.puts.append((time.time(), "cond" if (IfMatch or IfNoneMatch) else "plain", Body.decode()))
            return {"ETag": self.o["etag"]}

    def head_object(self, Bucket, Key):
        with self.mu:
            if self.o is None:
                raise self._err("404", "HeadObject")
            return {"LastModified": self.o["lm"], "ETag": self.o["etag"]}

    def get_object(self, Bucket, Key):
        import io
        with self.mu:
            if self.o is None:
                raise self._err("NoSuchKey", "GetObject")
            return {"Body": io.BytesIO(self.o["body"])}

    def delete_object(self, Bucket, Key):
        with self.mu:
            self.o = None
        return {}


HEARTBEAT_ZONES = [32400, -18000, 19800, 0, 46800, -39600]


def heartbeat_real(ctx, zone_s: Optional[int] = None) -> int:
    """The scheduler runs replace the heartbeat THREAD by renew events; here the real thread runs against
    the wall clock: it must keep a live holder's lease fresh (a contender times out instead of taking over),
    and must drop is_locked once its renewal is refused.  No patches at all: real clocks, real threads, in a
    process whose local zone is `zone_s` seconds east of UTC (drawn by the seed when not given)."""
    from harness.lib.lockshims import set_process_zone
    if zone_s is None:
        zone_s = ctx.rng.choice(HEARTBEAT_ZONES)
    saved = os.environ.get("TZ")
    set_process_zone(zone_s)
    try:
        return _heartbeat_real(ctx, zone_s)
    finally:
        set_process_zone(None)
        if saved is not None:
            os.environ["TZ"] = saved
            time.tzset()


def _heartbeat_real(ctx, zone_s: int) -> int:
    import logging
    from datashard.lock_provider import S3LockProvider
    logging.disable(logging.CRITICAL)
    s3 = _RealTimeS3()
    lease = 1.5          # renew every 0.5 s: one second of slack for a loaded machine
    a = S3LockProvider(s3, "b", "k", timeout=1.0, lease_seconds=lease)
    b = S3LockProvider(s3, "b", "k", timeout=2.5, lease_seconds=lease)
    st: Dict[str, Any] = {"zone_s": zone_s}
    nviol = 0
    a.acquire()
    t0 = time.time()
    try:
        got = b.acquire()
        st["contender"] = "acquired"
        ctx.violation("s3-heartbeat-live-holder-taken-over", "a contender took over a lock whose holder's heartbeat thread was running "
                      f"(lease {lease}s, renew every {lease / 3:.2f}s; process zone {zone_s}s east of UTC)",
                      {"lock": "heartbeat", "zone_s": zone_s, "puts": [list(p) for p in s3.puts]})
        nviol += 1
        b.release()
    except TimeoutError:
        st["contender"] = f"TimeoutError after {time.time() - t0:.2f}s"
    renewals = sum(1 for p in s3.puts if p[2] == a.lock_id) - 1
    st["renewals_by_holder"] = renewals
    if renewals < 3:
        ctx.violation("s3-heartbeat-not-renewing", f"{renewals} renewals in {time.time() - t0:.2f}s with lease {lease}s",
                      {"lock": "heartbeat", "zone_s": zone_s, "puts": [list(p) for p in s3.puts]})
        nviol += 1
    # theft: somebody else's conditional write replaces the object; the next renewal must be refused
    with s3.mu:
        s3.n += 1
        s3.o = {"body": b"intruder", "etag": f'"{s3.n}"', "lm": s3.o["lm"]}
    t1 = time.time()
    while a.is_locked and time.time() - t1 < 4.0:
        time.sleep(0.02)
    st["holder_noticed_theft_after_s"] = round(time.time() - t1, 3)
    if a.is_locked:
        ctx.violation("s3-heartbeat-theft-unnoticed", "is_locked still True 4 s after the object was replaced (renew interval 0.5 s)",
                      {"lock": "heartbeat", "zone_s": zone_s})
        nviol += 1
    if a.is_held():
        ctx.violation("s3-superseded-holder-reports-held", "is_held() True after the object was replaced",
                      {"lock": "heartbeat", "zone_s": zone_s})
        nviol += 1
    a._stop_heartbeat_thread()
    ctx.count(3)
    ctx.stats["real_heartbeat"] = st
    return nviol


# ---------------------------------------------------------------------------------- driver
def run(ctx) -> None:
    ctx.rule = ("schedules = event lists over {call, step, renew, tick, die, fault, env}; every schedule is executed on the real class "
                "under the cooperative scheduler and on the Coq model; enumerated: all interleavings of 2 contenders with <= 3 "
                "preemptions, environment events (death / clock jump past the lease / renewal / open failure) at every point, "
                "the contended-lock schedules again in each process time zone x LastModified rendering of S3_ENVS and with a "
                "zone / rendering change at every point, a heartbeat loop that keeps ticking every lease/3 while its renewals fail "
                "(transient / lost / permanent / mixed with successes; 6 patterns quick, 11 thorough) until the lease lapses and a contender "
                "takes over (after the ticks, or polling all along), with the holder's is_held() inserted at every point, once and twice; "
                "random schedules of 3 clients with faults and random environments; "
                "local lock across processes: event lists over {spawn, new, acq, rel, fork, kill, exit} on real processes -- 12 topologies "
                "(how each process came into being) x every ordered pair of contending handles x {release, kill, exit} + random lists; "
                "a case is distinct by its full event list; oracles judge every intermediate state")
    ctx.trusted_base += [
        "hypothesis flock_excl: the kernel grants LOCK_EX on an inode only if no other open file description holds it "
        "(not proved; real flock runs under every local-lock schedule and in the multi-process stress)",
        "S3 model assumptions: strongly consistent store, atomic conditional PUT, fresh ETag per write, zero clock skew between "
        "clients and LastModified; faults are botocore ClientErrors",
        "translator/gen_lockconst.py (constants; golden pins of the 11 hand-modelled functions); translator/gen_lockage.py "
        "(the lease-age expression and guard of _try_takeover_expired -> Gen/GenLockAge.v over Model/PyTime.v; fail-closed on "
        "any expression outside its datetime / epoch-seconds grammar)",
        "Model/PyTime.v: CPython's datetime subtraction (aware-aware by instants, naive-naive by fields, mixed raises), "
        ".timestamp() / mktime(timetuple()) reading naive fields as local time; fixed-offset zones; exercised by the "
        "correspondence under real TZ settings",
        "translator/gen_filelock.py (FileLock's primitive skeleton and ownership discipline -> Gen/GenFileLock.v, fail-closed); "
        "kernel flock semantics across processes as written in Model/ProcLock.v + ProcFork.v (grants / drops / whole-table fork: shared descriptions / "
        "last-descriptor close), compared with the real kernel's answers in every process-family run; harness/lib/lockprocs.py",
        "harness: harness/lib/coop.py (scheduler), lockshims.py (patched primitives), fakes3_lock.py, lockruns.py, "
        "harness/props/c19.py; the heartbeat thread is replaced by explicit renew events, each running ONE iteration of the "
        "real _heartbeat_loop (its stop-event wait answers 'not stopped' once, then 'stopped'); the sleep between two ticks is a tick event",
    ]
    ctx.assumptions += [
        "scope: flock mode (fcntl available) and S3LockProvider (conditional writes); O_EXCL fallback and S3PollingLockProvider out of scope",
        "all S3 lock clients of one table use the same lease_seconds",
        "one FileLock / provider instance is used by one thread at a time (is_held() is judged between calls)",
        "C19_proc_*_quiescent_partial: at a fork no handle of the forking process is inside an acquisition (pforks_quiescent); after a "
        "fork while a handle of the process holds the copies are one holder, and a copied flag whose acquisition was released through "
        "another copy is not judged",
        "C19_s3_mutex_partial: no release()'s DELETE lands after the releaser's own lease lapsed (otherwise: known finding)",
    ]
    ctx.proofs(THEOREMS, gen_files=["GenLockConst.v", "GenLockAge.v", "GenFileLock.v"])
    ctx.allow_axioms([])
    check_flock(ctx)
    try:
        check_procs(ctx)
    finally:
        _close_pool()
    check_s3(ctx)
    stress_real(ctx)
    heartbeat_real(ctx)


def replay(ctx, payload) -> int:
    case = payload.get("case") or {}
    kind = case.get("lock")
    if kind in ("flock", "s3", "procs"):
        try:
            r = rerun(kind, case["events"], ctx.scratch, case)
        finally:
            _close_pool()
        want = (case.get("problem") or {}).get("oracle")
        hits = [p for p in r.problems if want is None or p["oracle"] == want]
        for ev, ob in zip(case["events"], r.obs):
            print("  ", ev, "->", ob)
        if hits:
            print("replay: STILL FAILS", json.dumps(hits[0], default=repr))
            return 1
        print("replay: passes now")
        return 0
    if kind == "heartbeat":
        n = heartbeat_real(ctx, case.get("zone_s", 0))
        print("  real heartbeat run in zone", case.get("zone_s", 0), "->", json.dumps(ctx.stats.get("real_heartbeat")))
        if n:
            print("replay: STILL FAILS")
            return 1
        print("replay: passes now")
        return 0
    print("replay: payload kind not replayable directly (stress or broken obligation); re-run ./bin/check C19 thorough")
    return 2
